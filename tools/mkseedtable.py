#!/usr/bin/env python3
# Rewrites the seeded-change table in DESIGN.md (between the SEEDTABLE markers) from seeded/*/meta.json.
import json, glob, re
rows = []
for d in sorted(glob.glob('/verif/seeded/*/meta.json')):
    m = json.load(open(d))
    own = m['checks_fired'].get(m['property'], '—')
    others = ", ".join(k for k in sorted(m['checks_fired']) if k != m['property']) or "—"
    rows.append(f"| `{m['id']}` | {own} | {others} |")
table = "| seeded change | own property's rules that fire | other properties that also fire |\n|---|---|---|\n" + "\n".join(rows)
s = open('/verif/DESIGN.md').read()
if '<!-- SEEDTABLE -->' not in s:
    a = s.index('| seeded change | own property')
    b = s.index('\n\n', a)
    s = s[:a] + '<!-- SEEDTABLE -->\n' + table + '\n<!-- /SEEDTABLE -->' + s[b:]
else:
    s = re.sub(r'<!-- SEEDTABLE -->.*?<!-- /SEEDTABLE -->', '<!-- SEEDTABLE -->\n' + table + '\n<!-- /SEEDTABLE -->', s, flags=re.S)
open('/verif/DESIGN.md', 'w').write(s)
print(len(rows), 'rows')
