#!/usr/bin/env python3
"""mkvar.py <prop> <name> <expect> <file> <<< 'OLD\n====\nNEW' (repeatable blocks separated by a line '####' with the next file name after it)
Creates variants/<prop>/<name>.diff against /repo's HEAD content. <expect> is a
comma list of rule prefixes that must fire (breaking variant) or 'none' (neutral).
Input format on stdin:
  @@ <file>
  <old text>
  ====
  <new text>
  @@ <file2>
  ...
"""
import sys, os, difflib, subprocess
prop, name, expect = sys.argv[1:4]
here = os.path.dirname(os.path.dirname(os.path.abspath(__file__)))
blocks = []
cur = None
for line in sys.stdin.read().split('\n'):
    if line.startswith('@@ '):
        cur = {'file': line[3:].strip(), 'old': [], 'new': [], 'side': 'old'}
        blocks.append(cur)
    elif line == '====' and cur is not None:
        cur['side'] = 'new'
    elif cur is not None:
        cur[cur['side']].append(line)
files = {}
for b in blocks:
    f = b['file']
    if f not in files:
        files[f] = subprocess.check_output(['git', '-C', '/repo', 'show', 'HEAD:' + f]).decode()
    old = '\n'.join(b['old']).strip('\n')
    new = '\n'.join(b['new']).strip('\n')
    if files[f].count(old) != 1:
        sys.exit('old text occurs %d times in %s:\n%s' % (files[f].count(old), f, old))
    files[f] = files[f].replace(old, new)
out = ['# property: %s' % prop, '# expect: %s' % expect]
for f, new in files.items():
    orig = subprocess.check_output(['git', '-C', '/repo', 'show', 'HEAD:' + f]).decode()
    out += [l.rstrip('\n') for l in difflib.unified_diff(orig.splitlines(True), new.splitlines(True), 'a/' + f, 'b/' + f)]
d = os.path.join(here, 'variants', prop)
os.makedirs(d, exist_ok=True)
open(os.path.join(d, name + '.diff'), 'w').write('\n'.join(out) + '\n')
print('wrote', os.path.join(d, name + '.diff'))
