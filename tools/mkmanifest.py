#!/usr/bin/env python3
"""Regenerates /verif/MANIFEST.json from the table in tools/claims.json.

claims.json: { "<id>": {"claimed": bool, "text": ..., "note": ..., "technique": ...,
                        "design_ref": ..., "reason": <when not claimed>} }
"""
import json, os, sys

here = os.path.dirname(os.path.dirname(os.path.abspath(__file__)))
claims = json.load(open(os.path.join(here, "tools", "claims.json")))
props = [json.loads(l) for l in open(os.path.join(here, "properties.jsonl"))]

BASE = "cd /repo && GOFLAGS=-mod=mod GOPROXY=off GOSUMDB=off go test -mod=mod -json -vet=off -count=1 -timeout 25m ./..."

m = {
    "version": 1,
    "setup_cmd": "cd /verif/checker && GOFLAGS=-mod=mod GOPROXY=off GOSUMDB=off GOWORK=off GOTOOLCHAIN=local go build -o /verif/bin/psacheck .",
    "hooks": {
        "guard": "verif",
        "enable": "none needed: the analyser reads /repo's source as the default build sees it (no build tags, no instrumentation)",
        "baseline_off_cmd": BASE,
        "source_commits": [],
        "add_only": True,
    },
    "engines": [
        {
            "name": "psacheck",
            "path": "checker/",
            "serves_properties": sorted(k for k, v in claims.items() if v.get("claimed")),
            "kind_free_text": "repository-specific static analyser over go/types + go/ssa (x/tools v0.29.0): "
                              "path-partitioned interval abstract interpretation, dominance guard facts, mod/ref "
                              "effect summaries, struct-tag schema, regular-language equality, panic-site enumeration",
        }
    ],
    "checks": [],
    "not_applicable": [],
    "notes": "All checks are static: they load and type-check /repo's working tree on every run and never execute it. "
             "See DESIGN.md. Known findings: known_findings.json.",
}
for p in props:
    c = claims.get(p["id"], {})
    if c.get("claimed"):
        m["checks"].append({
            "property_id": p["id"],
            "quick_cmd": "./check %s quick" % p["id"],
            "thorough_cmd": "./check %s thorough" % p["id"],
            "evidence_file": "/verif/evidence/%s.json" % p["id"],
            "replay_cmd_template": "./tools/replay {path}",
            "engine": "psacheck",
            "level_claimed": {
                "category": "other",
                "text": c["text"],
                "design_ref": c.get("design_ref", "DESIGN.md section 4, " + p["id"]),
            },
            "level_note": c["note"],
            "technique": c["technique"],
        })
    else:
        m["not_applicable"].append({
            "property_id": p["id"],
            "reason": c.get("reason", "not claimed yet: the static rules for this property are still under construction (see DESIGN.md)"),
        })
json.dump(m, open(os.path.join(here, "MANIFEST.json"), "w"), indent=1)
print("checks:", len(m["checks"]), "not_applicable:", len(m["not_applicable"]))
