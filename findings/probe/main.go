package main

import (
	"encoding/hex"
	"fmt"
	"os"

	cbor "github.com/fxamacker/cbor/v2"
	"github.com/veraison/psatoken"
	"github.com/veraison/psatoken/encoding"
)

func try(name string, f func()) {
	defer func() {
		if r := recover(); r != nil {
			fmt.Printf("%s: PANIC %v\n", name, r)
		}
	}()
	f()
}

type S struct {
	A *int `cbor:"1,keyasint,omitempty" json:"a,omitempty"`
	B *int `cbor:"2,keyasint,omitempty" json:"b,omitempty"`
}

func b(n int, first byte) []byte { x := make([]byte, n); x[0] = first; return x }

func main() {
	dm, _ := cbor.DecOptions{}.DecMode()
	em, _ := cbor.EncOptions{}.EncMode()
	try("tag-only", func() { var s S; fmt.Println("tag-only:", encoding.PopulateStructFromCBOR(dm, []byte{0xc0}, &s)) })
	try("empty-map", func() {
		var s S
		bb, err := encoding.SerializeStructToCBOR(em, &s)
		fmt.Printf("ser empty: %x %v\n", bb, err)
		fmt.Println("empty-map:", encoding.PopulateStructFromCBOR(dm, bb, &s))
	})
	try("json-dup", func() { var s S; fmt.Println("json-dup:", encoding.PopulateStructFromJSON([]byte(`{"a":1,"b":2,"a":2}`), &s), *s.A) })
	try("p2 certref", func() {
		c, _ := psatoken.NewClaims(psatoken.Profile2Name)
		fmt.Println("p2 set EAN13:", c.SetCertificationReference("1234567890123"))
	})
	try("json default", func() {
		buf, _ := os.ReadFile("/repo/testvectors/json/test-profile-valid-missing.json")
		c, err := psatoken.DecodeAndValidateClaimsFromJSON(buf)
		fmt.Println("json no profile:", err)
		p, _ := c.GetProfile()
		fmt.Println(p)
		j, _ := psatoken.EncodeClaimsToJSON(c)
		_, err = psatoken.DecodeAndValidateClaimsFromJSON(j)
		fmt.Println("roundtrip:", err)
		_, err = psatoken.DecodeClaimsFromJSON([]byte(`{"eat-profile":"http://nope"}`))
		fmt.Println("unknown:", err)
		_, err = psatoken.DecodeClaimsFromJSON([]byte(`{"psa-profile":"nope"}`))
		fmt.Println("unknown p1:", err)
	})
	try("null elem", func() {
		m := map[int]interface{}{265: "http://arm.com/psa/2.0.0", 2394: 1, 2395: 0x3000, 2396: b(32, 0), 10: b(32, 0), 256: b(33, 1), 2399: []interface{}{nil}}
		bb, _ := cbor.Marshal(m)
		c, err := psatoken.DecodeClaimsFromCBOR(bb)
		fmt.Println("decode:", err)
		fmt.Println(c.Validate())
	})
	try("huge", func() { var s S; bb, _ := hex.DecodeString("ba7fffffff"); fmt.Println("huge:", encoding.PopulateStructFromCBOR(dm, bb, &s)) })
}
