// Demonstration (not a check) of the two known findings about the CBOR
// decoder's length limits: go run . in a module with `replace
// github.com/veraison/psatoken => /repo` (see ../probe/go.mod).
package main

import (
	"crypto/ecdsa"
	"crypto/elliptic"
	"crypto/rand"
	"fmt"

	cbor "github.com/fxamacker/cbor/v2"
	cose "github.com/veraison/go-cose"
	"github.com/veraison/psatoken"
)

func main() {
	mv := make([]byte, 32)
	iid := append([]byte{0x01}, mv...)
	// C09 / C04: a valid claims-set with 131073 components encodes, the bytes do not decode
	for _, n := range []int{131072, 131073} {
		c, _ := psatoken.NewClaims(psatoken.Profile2Name)
		var scs []psatoken.ISwComponent
		for i := 0; i < n; i++ {
			sc := &psatoken.SwComponent{}
			_ = sc.SetMeasurementValue(mv)
			_ = sc.SetSignerID(mv)
			scs = append(scs, sc)
		}
		_ = c.SetSoftwareComponents(scs)
		_ = c.SetImplID(mv)
		_ = c.SetNonce(mv)
		_ = c.SetInstID(iid)
		_ = c.SetClientID(1)
		_ = c.SetSecurityLifeCycle(0x3000)
		_ = c.SetBootSeed(mv)
		buf, err := psatoken.ValidateAndEncodeClaimsToCBOR(c)
		fmt.Println(n, "components: validate+encode:", len(buf), "bytes, err =", err)
		_, err = psatoken.DecodeClaimsFromCBOR(buf)
		fmt.Println(n, "components: decode: err =", err)
		// C19: the same claims-set on an Evidence: ValidateAndSign succeeds, Verify on the
		// signing Evidence succeeds, and the token it returned cannot be decoded back
		key, _ := ecdsa.GenerateKey(elliptic.P256(), rand.Reader)
		signer, _ := cose.NewSigner(cose.AlgorithmES256, key)
		ev := &psatoken.Evidence{}
		if err := ev.SetClaims(c); err != nil {
			fmt.Println(n, "components: SetClaims: err =", err)
			continue
		}
		tok, err := ev.ValidateAndSign(signer)
		fmt.Println(n, "components: ValidateAndSign:", len(tok), "bytes, err =", err)
		fmt.Println(n, "components: Verify on the signing Evidence: err =", ev.Verify(key.Public()))
		_, err = psatoken.DecodeEvidenceFromCOSE(tok)
		fmt.Println(n, "components: DecodeEvidenceFromCOSE(token): err =", err)
	}
	// C04: a conformant token padded with unknown keys beyond 131072 pairs is rejected
	for _, extra := range []int{131072 - 7, 131072 - 6} {
		m := map[int]interface{}{
			265: "http://arm.com/psa/2.0.0", 2394: 1, 2395: 0x3000, 2396: mv, 10: mv, 256: iid,
			2399: []interface{}{map[int]interface{}{2: mv, 5: mv}},
		}
		for i := 0; i < extra; i++ {
			m[100000+i] = 0
		}
		buf, _ := cbor.Marshal(m)
		_, err := psatoken.DecodeAndValidateClaimsFromCBOR(buf)
		fmt.Println(len(m), "pairs,", len(buf), "bytes: decode+validate: err =", err)
	}
	// C04: a conformant token with an unknown key whose value nests 32 arrays deep is rejected
	for _, depth := range []int{31, 32} {
		var v interface{} = "x"
		for i := 0; i < depth; i++ {
			v = []interface{}{v}
		}
		m := map[int]interface{}{
			265: "http://arm.com/psa/2.0.0", 2394: 1, 2395: 0x3000, 2396: mv, 10: mv, 256: iid,
			2399:   []interface{}{map[int]interface{}{2: mv, 5: mv}},
			100000: v,
		}
		buf, _ := cbor.Marshal(m)
		_, err := psatoken.DecodeAndValidateClaimsFromCBOR(buf)
		fmt.Println("unknown key nested", depth, "arrays deep: decode+validate: err =", err)
	}
}
