module limits

go 1.21

require (
	github.com/fxamacker/cbor/v2 v2.5.0
	github.com/veraison/go-cose v1.3.0-rc.1
	github.com/veraison/psatoken v0.0.0
)

require (
	github.com/davecgh/go-spew v1.1.1 // indirect
	github.com/decred/dcrd/dcrec/secp256k1/v4 v4.1.0 // indirect
	github.com/goccy/go-json v0.9.11 // indirect
	github.com/lestrrat-go/blackmagic v1.0.1 // indirect
	github.com/lestrrat-go/httpcc v1.0.1 // indirect
	github.com/lestrrat-go/httprc v1.0.4 // indirect
	github.com/lestrrat-go/iter v1.0.2 // indirect
	github.com/lestrrat-go/jwx/v2 v2.0.8 // indirect
	github.com/lestrrat-go/option v1.0.0 // indirect
	github.com/pmezard/go-difflib v1.0.0 // indirect
	github.com/stretchr/testify v1.8.1 // indirect
	github.com/veraison/eat v0.0.0-20210331113810-3da8a4dd42ff // indirect
	github.com/x448/float16 v0.8.4 // indirect
	golang.org/x/crypto v0.0.0-20220427172511-eb4f295cb31f // indirect
	gopkg.in/yaml.v3 v3.0.1 // indirect
)

replace github.com/veraison/psatoken => /repo
