package main

// psacheck — repository-specific static analyser for veraison/psatoken.
// Every verdict is computed from the type-checked source and SSA form of the
// repository's current working tree; nothing in the repository is executed.

import (
	"flag"
	"fmt"
	"os"
	"path/filepath"
	"runtime/debug"
	"runtime/pprof"
	"sort"
	"strconv"
	"strings"
	"time"
)

type propFunc func(w *World, r *Recorder) propInfo

var props = map[string]propFunc{}

func register(id string, f propFunc) { props[id] = f }

func main() {
	prop := flag.String("property", "", "property id (C01..C20)")
	tier := flag.String("tier", "quick", "quick|thorough")
	repo := flag.String("repo", "/repo", "repository working tree to analyse")
	verif := flag.String("verif", "", "verification directory (default: parent of the binary's dir)")
	out := flag.String("out", "", "evidence directory (default <verif>/evidence)")
	list := flag.Bool("list", false, "list properties")
	dump := flag.String("dump", "", "debug: dump path summaries of the named function")
	ssaDump := flag.String("ssa", "", "debug: print the SSA of the named function")
	effDump := flag.String("effects", "", "debug: print the effect summary of the named function")
	flag.Parse()
	if pf := os.Getenv("PSACHECK_PROF"); pf != "" {
		f, err := os.Create(pf)
		if err == nil {
			pprof.StartCPUProfile(f)
			defer pprof.StopCPUProfile()
		}
	}

	// time budget: an analysis that does not finish is undecided, not silent
	// (quick 15 min, thorough 90 min per property; PSACHECK_BUDGET=seconds overrides)
	if *prop != "" {
		budget := 15 * time.Minute
		if *tier == "thorough" || os.Getenv("VERIF_TIER") == "thorough" {
			budget = 90 * time.Minute
		}
		if b := os.Getenv("PSACHECK_BUDGET"); b != "" {
			if n, err := strconv.Atoi(b); err == nil && n > 0 {
				budget = time.Duration(n) * time.Second
			}
		}
		id := *prop
		time.AfterFunc(budget, func() {
			fmt.Printf("UNDECIDED -: budget/%s [%s] the analysis did not finish within %s (path explosion on an unrecognised shape?)\n", id, id, budget)
			fmt.Printf("VIOLATION property=%s replay=%s\n", id, "time-budget-exceeded")
			os.Exit(1)
		})
	}

	if *list {
		var ids []string
		for k := range props {
			ids = append(ids, k)
		}
		sort.Strings(ids)
		for _, k := range ids {
			fmt.Println(k)
		}
		return
	}
	if *verif == "" {
		exe, err := os.Executable()
		if err == nil {
			*verif = filepath.Dir(filepath.Dir(exe))
		} else {
			*verif = "/verif"
		}
	}
	if *out == "" {
		*out = filepath.Join(*verif, "evidence")
	}
	if env := os.Getenv("VERIF_TIER"); env != "" && !isFlagSet("tier") {
		*tier = env
	}
	seed := 0
	if s := os.Getenv("VERIF_SEED"); s != "" {
		seed, _ = strconv.Atoi(s)
	}
	start := time.Now()

	if *effDump != "" {
		w, err := Load(*repo, *tier, false)
		if err != nil {
			fmt.Println("load failed:", err)
			os.Exit(2)
		}
		for _, f := range w.Funcs {
			if strings.HasSuffix(f.String(), *effDump) {
				ef := w.Effects()[f]
				fmt.Println("==", f, "writesParam", ef.WritesParam, "unknown", ef.WritesUnknown, "storesParam", ef.StoresParam)
				for i, rp := range ef.RetProv {
					fmt.Println("   ret", i, rp)
				}
				for _, s := range ef.Sites {
					fmt.Println("   site", s.What, w.InstrPos(s.Instr), s.Prov, s.Field)
				}
				for _, s := range ef.RetainSites {
					fmt.Println("   retain", s.What, w.InstrPos(s.Instr), s.Prov)
				}
			}
		}
		return
	}
	if *ssaDump != "" {
		w, err := Load(*repo, *tier, false)
		if err != nil {
			fmt.Println("load failed:", err)
			os.Exit(2)
		}
		for _, f := range w.Funcs {
			if f.String() == *ssaDump || strings.HasSuffix(f.String(), *ssaDump) {
				f.WriteTo(os.Stdout)
			}
		}
		return
	}
	if *dump != "" {
		w, err := Load(*repo, *tier, *tier == "thorough")
		if err != nil {
			fmt.Println("load failed:", err)
			os.Exit(2)
		}
		debugDump(w, *dump)
		return
	}

	f, ok := props[*prop]
	if !ok {
		fmt.Printf("unknown property %q\n", *prop)
		os.Exit(2)
	}
	code := run(*prop, f, *repo, *tier, seed, *out, *verif, start)
	pprof.StopCPUProfile()
	os.Exit(code)
}

func isFlagSet(name string) bool {
	set := false
	flag.Visit(func(f *flag.Flag) {
		if f.Name == name {
			set = true
		}
	})
	return set
}

func run(prop string, f propFunc, repo, tier string, seed int, out, verif string, start time.Time) (code int) {
	r := NewRecorder(prop)
	whole := tier == "thorough"
	w, err := Load(repo, tier, whole)
	if err != nil {
		// a tree that does not load or type-check cannot be judged: fail closed
		fmt.Printf("UNDECIDED -: framework/load [%s] %v\n", prop, err)
		fmt.Printf("VIOLATION property=%s replay=%s\n", prop, "load-failed")
		return 1
	}
	var info propInfo
	func() {
		defer func() {
			if p := recover(); p != nil {
				r.Undecide("framework", "checker-panic", "-", fmt.Sprintf("%v\n%s", p, debug.Stack()))
			}
		}()
		info = f(w, r)
	}()
	return r.Finish(w, info, tier, seed, out, verif, start)
}
