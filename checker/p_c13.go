package main

// C13 — errors carry the documented sentinel class.

import (
	"fmt"
	"go/types"
	"sort"
	"strings"

	"golang.org/x/tools/go/ssa"
)

func init() { register("C13", checkC13) }

type c13Exception struct {
	Fn     string // fnKey of the function whose return is excepted
	Marker string // marker prefix of the alternative ("external:(…).Get", "fresh")
	Origin string // enclosing function (fnKey) of the originating instruction
	Reason string
}

// Reasoned exceptions (DESIGN 4/C13-K2), each one symbol.
var c13Exceptions = []c13Exception{
	{Fn: "(psatoken.P2Claims).GetProfile", Marker: "external:(github.com/veraison/eat.Profile).Get", Origin: "(psatoken.P2Claims).GetProfile",
		Reason: "error of eat.Profile.Get: only for a Profile value that was never set, which neither the constructor nor a decoder produces (a decoded profile claim is either absent=nil pointer or set)"},
	{Fn: "(*psatoken.P2Claims).SetNonce", Marker: "external:(*github.com/veraison/eat.Nonce).Add", Origin: "(*psatoken.P2Claims).SetNonce",
		Reason: "error of eat.Nonce.Add is unreachable: Add fails only for lengths outside [8,64] and the call is reached only with len in {32,48,64} (premise checked by the interval engine in this run)"},
	{Fn: "*", Marker: "fresh", Origin: "@failed-component-type-assertion",
		Reason: "type-mismatch error for a foreign ISwComponent implementation (constructed on the failing edge of the comma-ok assertion to the container's element type); the property quantifies over the library's own component type only"},
}

func checkC13(w *World, r *Recorder) propInfo {
	info := propInfo{
		Explanation: "K1: the package initialiser gives each base sentinel its own errors.New value and each derived claim/field sentinel a fmt.Errorf that wraps (%w) exactly the documented base; nothing else writes them. K2: for every getter, setter, Validate method, exported Validate* function and container method, an SSA def-use resolver computes every alternative the returned error can be (φ = union, callee summaries, interface invokes = union over in-repo implementations, %w verbs of constant format strings parsed, parameters substituted at call sites); each non-nil alternative must reach a documented base sentinel and none may be sentinel-free (errors.New, Errorf without %w), a library error or unresolved — three reasoned exceptions, each with a premise checked in this run. K3: on the loop-free accessors and validators the path-sensitive interval engine ties class to condition: field absent ⇒ missing-mandatory / missing-optional per the profile table, present but rejected ⇒ wrong-syntax, name mismatch ⇒ wrong-profile. K4: FilterError returns nil exactly under errors.Is(e, ErrMissingOptional) ∨ errors.Is(e, ErrNotInProfile) and its own argument otherwise (cell comparison over the two atoms). Not decided: the run-time behaviour of errors.Is / fmt.Errorf themselves (modelled from their documentation) and errors of third-party claim implementations.",
		Rule:        "one obligation per sentinel, per (function, error alternative), per (accessor, path); non-trivial = resolved through the E4 resolver or decided by the path engine",
		Trusted:     []string{"go/packages+go/types+go/ssa (x/tools v0.29.0)", "fmt.Errorf %w / errors.Is semantics per their documentation", "checker's format-verb parser and def-use resolver"},
		Assumptions: []string{"third-party IClaims/ISwComponent implementations are outside the quantifier"},
	}
	root := w.Root
	res := w.ErrResolver()

	// ---------- K1 ----------
	for _, name := range baseSentinels {
		g := w.Global(root, name)
		if g == nil {
			r.Undecide("C13-K1", "sentinel "+name, "-", "exported sentinel not found")
			continue
		}
		gi := w.GlobalInfo(g)
		ok := gi.InitOnly && gi.InitCallee == "errors.New" && len(gi.Cls) == 1 && gi.Cls[0] == name
		r.Check(ok, "C13-K1", "sentinel "+name, w.Pos(g.Pos()), "own errors.New value, written only by the package initialiser",
			fmt.Sprintf("not a distinct errors.New value written only by the initialiser (init=%s classes=%v initOnly=%v)", gi.InitCallee, gi.Cls, gi.InitOnly))
	}
	var derived []string
	for d := range derivedSentinels {
		derived = append(derived, d)
	}
	sort.Strings(derived)
	for _, d := range derived {
		base := derivedSentinels[d]
		g := w.Global(root, d)
		if g == nil {
			r.Undecide("C13-K1", "sentinel "+d, "-", "exported sentinel not found")
			continue
		}
		gi := w.GlobalInfo(g)
		others := false
		hasBase := false
		for _, c := range gi.Cls {
			if c == base {
				hasBase = true
			} else if c != d {
				others = true
			}
		}
		ok := gi.InitOnly && gi.InitCallee == "fmt.Errorf" && hasBase && !others
		r.Check(ok, "C13-K1", "sentinel "+d, w.Pos(g.Pos()), "fmt.Errorf wrapping exactly "+base,
			fmt.Sprintf("must wrap exactly %s with %%w and be written only by the initialiser (init=%s classes=%v initOnly=%v)", base, gi.InitCallee, gi.Cls, gi.InitOnly))
	}

	// ---------- K4 FilterError ----------
	c13FilterError(w, r)

	// ---------- scope ----------
	type scoped struct {
		fn   *ssa.Function
		kind string // getter|setter|validate|container
		typ  string
		row  *claimRow
	}
	var scope []scoped
	addMethods := func(ifaceName string) {
		it := w.iface(root, ifaceName)
		if it == nil {
			r.Undecide("C13-anchor", "interface "+ifaceName, "-", "not found")
			return
		}
		for _, t := range w.Implementations(it) {
			rows := builtinSpecs[t.Obj().Name()]
			for i := 0; i < it.NumMethods(); i++ {
				m := it.Method(i)
				sig := m.Type().(*types.Signature)
				if sig.Results().Len() == 0 || !isErrorType(sig.Results().At(sig.Results().Len()-1).Type()) {
					continue
				}
				fn := w.MethodImpl(t, m.Name())
				if fn == nil {
					r.Undecide("C13-anchor", t.Obj().Name()+"."+m.Name(), "-", "method body not found")
					continue
				}
				kind := "container"
				switch {
				case strings.HasPrefix(m.Name(), "Get"):
					kind = "getter"
				case strings.HasPrefix(m.Name(), "Set"):
					kind = "setter"
				case m.Name() == "Validate":
					kind = "validate"
				}
				var row *claimRow
				for j := range rows {
					if rows[j].Getter == m.Name() || rows[j].Setter == m.Name() {
						row = &rows[j]
					}
				}
				scope = append(scope, scoped{fn, kind, t.Obj().Name(), row})
			}
		}
	}
	addMethods("IClaims")
	addMethods("ISwComponent")
	// container implementations are generic: take the instantiations
	if it := w.iface(root, "ISwComponents"); it != nil {
		for _, fn := range w.Funcs {
			if fn.Signature.Recv() == nil || len(fn.TypeArgs()) == 0 {
				continue
			}
			rt := fn.Signature.Recv().Type()
			if !(types.Implements(rt, it) || types.Implements(types.NewPointer(rt), it)) {
				continue
			}
			if errIndex(fn) < 0 {
				continue
			}
			for i := 0; i < it.NumMethods(); i++ {
				if it.Method(i).Name() == fn.Name() {
					scope = append(scope, scoped{fn, "container", "SwComponents", nil})
				}
			}
		}
	} else {
		r.Undecide("C13-anchor", "interface ISwComponents", "-", "not found")
	}
	var vnames []string
	for name, m := range root.Members {
		if fn, ok := m.(*ssa.Function); ok && strings.HasPrefix(name, "Validate") && fn.Signature.Results().Len() == 1 && errIndex(fn) == 0 && fn.TypeParams().Len() == 0 {
			vnames = append(vnames, name)
		}
	}
	sort.Strings(vnames)
	for _, n := range vnames {
		scope = append(scope, scoped{root.Func(n), "validate", "", nil})
	}
	r.Count("functions_in_scope", len(scope))

	// ---------- K2 ----------
	excUsed := map[int]bool{}
	for _, sc := range scope {
		ei := errIndex(sc.fn)
		alts := res.RetAlts(sc.fn, ei)
		key := fnKey(sc.fn)
		nonNil := 0
		for _, a := range alts {
			if a.Nil {
				continue
			}
			nonNil++
			okey := key + "#" + c13OriginKey(w, a)
			var bases []string
			for _, b := range baseSentinels {
				if a.has(b) {
					bases = append(bases, b)
				}
			}
			marks := a.markers()
			if len(marks) == 0 && len(bases) > 0 {
				r.Prove("C13-K2", okey, w.InstrPos(a.Origin), "classes "+strings.Join(bases, ","), true)
				continue
			}
			// exception?
			exc := -1
			originFn := "?"
			if a.Origin != nil {
				originFn = fnKey(a.Origin.Parent())
			}
			for i, x := range c13Exceptions {
				okOrigin := x.Origin == originFn
				if x.Origin == "@failed-component-type-assertion" {
					okOrigin = onFailedComponentAssertion(a.Origin)
				}
				if okOrigin && len(marks) > 0 && strings.HasPrefix(marks[0], x.Marker) && len(marks) == 1 {
					exc = i
				}
			}
			if exc >= 0 {
				excUsed[exc] = true
				r.Prove("C13-K2", okey, w.InstrPos(a.Origin), "reasoned exception: "+c13Exceptions[exc].Reason, false)
				continue
			}
			if len(marks) > 0 {
				r.Refute("C13-K2", okey, w.InstrPos(a.Origin), fmt.Sprintf("%s can return an error that errors.Is cannot classify: %v (a sentinel-free, library or unresolved error); classes seen %v", key, marks, a.Cls))
			} else {
				r.Refute("C13-K2", okey, w.InstrPos(a.Origin), fmt.Sprintf("%s can return an error without a documented base sentinel (classes %v)", key, a.Cls))
			}
		}
		r.Count("error_alternatives", nonNil)
	}
	// premise of the SetNonce exception
	c13NoncePremise(w, r)

	// ---------- K3 ----------
	for _, sc := range scope {
		if sc.kind == "container" {
			continue
		}
		if sc.typ != "" && builtinSpecs[sc.typ] == nil {
			continue // not a built-in type: no table
		}
		if sc.kind == "validate" && sc.typ != "" {
			continue // Validate methods forward the walker's result (K2)
		}
		if c13IsWalker(w, sc.fn) {
			r.Note("K3 not applied to walker %s (its errors are those of the getters it walks; K2 resolves them)", fnKey(sc.fn))
			continue
		}
		c13Paths(w, r, sc.fn, sc.kind, sc.typ, sc.row)
	}

	// K5: the container's emptiness test, which decides between the
	// missing-mandatory class and the walk that reports wrong-syntax
	ruleIsEmptyMeansNoEntries(w, r, "C13-K5")
	// K6: a profile mismatch yields the wrong-profile class and a match no
	// error, with "match" meaning equality with the object's own canonical
	// profile (the GetProfile cells, C07-P4; K3 compares classes per outcome
	// but not which values fall into which outcome)
	importRules(w, r, checkC07, "C13-K6", func(o *Oblig) bool { return o.Rule == "C07-P4" })
	// K7: "null entry" (wrong syntax) is reported exactly for a nil element; an
	// allocated component without fields lacks mandatory fields instead
	ruleNullEntryIsNilTest(w, r, "C13-K7")
	// K8: the class of an error about a field of an extension component (a type
	// embedding SwComponent) presupposes that decoding filled that field: no
	// codec method of the embedded type may take over the embedder's decoding
	ruleCodecMethodSets(w, r, "C13-K8")

	r.Floor("C13-K1", 11)
	r.Floor("C13-K2", 40)
	r.Floor("C13-K3", 35)
	r.Floor("C13-K4", 1)
	return info
}

func c13OriginKey(w *World, a ErrAlt) string {
	if a.Origin == nil {
		return "?"
	}
	// stable symbolic key: enclosing function + kind of origin + ordinal among same-kind instrs
	fn := a.Origin.Parent()
	kind := fmt.Sprintf("%T", a.Origin)
	if c, ok := a.Origin.(*ssa.Call); ok {
		kind = shortName(calleeName(&c.Call))
		if k, ok := c.Call.Args, true; ok && len(k) > 0 {
			if cs, ok := k[0].(*ssa.Const); ok && cs.Value != nil {
				if s := constStringVal(cs); s != "" {
					if len(s) > 40 {
						s = s[:40]
					}
					kind += fmt.Sprintf("(%q)", s)
				}
			}
		}
	}
	if u, ok := a.Origin.(*ssa.UnOp); ok {
		if g, ok := u.X.(*ssa.Global); ok {
			kind = "load " + g.Name()
		}
	}
	n := 0
	for _, b := range fn.Blocks {
		for _, in := range b.Instrs {
			if in == a.Origin {
				return fmt.Sprintf("%s:%s/%d", fnKey(fn), kind, n)
			}
			if fmt.Sprintf("%T", in) == fmt.Sprintf("%T", a.Origin) {
				n++
			}
		}
	}
	return fmt.Sprintf("%s:%s", fnKey(fn), kind)
}

func c13FilterError(w *World, r *Recorder) {
	fn := w.Root.Func("FilterError")
	if fn == nil || len(fn.Params) != 2 {
		r.Undecide("C13-K4", "FilterError", "-", "not found or unexpected signature")
		return
	}
	s := w.Summarise(fn)
	if ok, why := s.Complete(); !ok {
		r.Undecide("C13-K4", "FilterError", w.FnPos(fn), why)
		return
	}
	ep := fn.Params[1].Name()
	aOpt := fmt.Sprintf("errors.Is(%s,g:psatoken.%s)", ep, clsMissingOptional)
	aNip := fmt.Sprintf("errors.Is(%s,g:psatoken.%s)", ep, clsNotInProfile)
	var got []Cube
	for _, p := range s.Paths {
		if p.Panic != nil {
			r.Refute("C13-K4", "FilterError#panic", w.InstrPos(p.Panic), "a path panics")
			return
		}
		c := cubeOf(p.St, nil, nil)
		c.Origin = trailOf(p)
		if p.Ret == nil || len(p.Rets) == 0 {
			// a path that goes round a loop: the filter is not the specified
			// two-test shape; it takes part in the comparison as its own outcome
			c.Tag = "loops"
			got = append(got, c)
			continue
		}
		a := p.Rets[0]
		if isNil, known := p.St.atoms["nil("+ep+")"]; known && isNil && a.Kind == KNil {
			// e is nil here: returning nil is returning e, which satisfies both
			// rows of the specification; the path takes each row's outcome on
			// that row's cells
			for _, row := range []struct {
				atoms map[string]bool
				tag   string
			}{{map[string]bool{aOpt: true}, "nil"}, {map[string]bool{aOpt: false, aNip: true}, "nil"}, {map[string]bool{aOpt: false, aNip: false}, "same"}} {
				cc := cubeOf(p.St, nil, nil)
				cc.Origin = c.Origin
				conflict := false
				for k, v := range row.atoms {
					if cur, has := cc.Atoms[k]; has && cur != v {
						conflict = true
					}
					cc.Atoms[k] = v
				}
				if !conflict {
					cc.Tag = row.tag
					got = append(got, cc)
				}
			}
			continue
		}
		switch {
		case a.Kind == KNil:
			c.Tag = "nil"
		case a.Kind == KSym && a.Sym == ep:
			c.Tag = "same"
		default:
			c.Tag = "other:" + a.String()
		}
		got = append(got, c)
	}
	want := []Cube{
		{Atoms: map[string]bool{aOpt: true}, Tag: "nil"},
		{Atoms: map[string]bool{aNip: true}, Tag: "nil"},
		{Atoms: map[string]bool{aOpt: false, aNip: false}, Tag: "same"},
	}
	terms, atoms := vocabulary(got, want)
	u := Universe{Terms: map[string]iset{}}
	for t := range terms {
		u.Terms[t] = fullSet
	}
	for a := range atoms {
		u.Atoms = append(u.Atoms, a)
	}
	mm, n, err := compareUnions(u, got, want)
	r.Count("cells", n)
	if err != nil {
		r.Undecide("C13-K4", "FilterError", w.FnPos(fn), err.Error())
		return
	}
	r.Check(len(mm) == 0, "C13-K4", "FilterError", w.FnPos(fn),
		fmt.Sprintf("returns nil exactly under Is(e,ErrMissingOptional)∨Is(e,ErrNotInProfile), e itself otherwise (%d cells over %d atoms)", n, len(u.Atoms)),
		"filter shape differs from the specification: "+joinLimited(mm, 4))
}

// c13NoncePremise: in every in-repo setter that calls eat.Nonce.Add, the call
// is reached only with len(arg) within [8,64].
func c13NoncePremise(w *World, r *Recorder) {
	ic := w.iface(w.Root, "IClaims")
	if ic == nil {
		return
	}
	for _, t := range w.Implementations(ic) {
		fn := w.MethodImpl(t, "SetNonce")
		if fn == nil {
			continue
		}
		s := w.Summarise(fn)
		if ok, _ := s.Complete(); !ok {
			continue // reported by K3
		}
		for _, p := range s.Paths {
			for _, ev := range p.St.events {
				if ev.Kind == "call" && strings.HasSuffix(ev.Callee, "eat.Nonce).Add") && len(ev.Args) == 2 {
					lt := "len(" + ev.Args[1].name() + ")"
					set, ok := p.St.terms[lt]
					within := ok && set.subsetOf(iset{{8, 64}})
					r.Check(within, "C13-K2", fnKey(fn)+"#premise:Nonce.Add-reached-with-len-in-[8,64]", w.InstrPos(ev.Instr),
						fmt.Sprintf("%s ∈ %s at the call", lt, set), fmt.Sprintf("Nonce.Add is reached with %s ∈ %s, so its (unclassified) library error becomes reachable", lt, set))
				}
			}
		}
	}
}

// c13Paths: class per condition on a loop-free accessor / validator.
func c13Paths(w *World, r *Recorder, fn *ssa.Function, kind, typ string, row *claimRow) {
	key := fnKey(fn)
	s := w.Summarise(fn)
	r.Count("paths", len(s.Paths))
	if ok, why := s.Complete(); !ok {
		if kind == "validate" {
			// loops (ValidateSwComponents, container walks): K2 covers them
			r.Note("K3 skipped for %s: %s (covered by K2)", key, why)
			return
		}
		r.Undecide("C13-K3", key, w.FnPos(fn), why)
		return
	}
	ei := errIndex(fn)
	recv := ""
	if fn.Signature.Recv() != nil {
		recv = fn.Params[0].Name()
	}
	n := 0
	for _, p := range s.Paths {
		if p.Ret == nil {
			continue
		}
		ev, nl := errOf(p, ei)
		if nl == -1 {
			continue
		}
		n++
		pkey := fmt.Sprintf("%s#%s", key, c13PathKey(p))
		if nl == 0 {
			// error of an un-inlined callee passed through: nil-ness open, classes from E4
			if len(ev.Cls) == 0 {
				r.Prove("C13-K3", pkey, w.InstrPos(p.Ret), "pass-through of a callee result (classes checked by K2)", false)
				continue
			}
		}
		has := func(c string) bool {
			for _, x := range ev.Cls {
				if x == c {
					return true
				}
			}
			return false
		}
		propagated := false
		if c, ok := ev.Src.(*ssa.Call); ok {
			name := calleeName(&c.Call)
			if name != "fmt.Errorf" && name != "errors.New" {
				propagated = true
			}
		}
		want := ""
		switch kind {
		case "getter":
			absent := false
			if row != nil && recv != "" {
				if b, ok := p.St.atoms["nil("+recv+"."+row.Field+")"]; ok && b {
					absent = true
				}
			}
			switch {
			case absent && row.Pres == optional:
				want = clsMissingOptional
			case absent:
				want = clsMissingMandatory
			case propagated:
				want = ""
			case row != nil && row.Rule == ruleProfile:
				want = clsWrongProfile
			case row != nil && row.Rule == ruleComponents:
				// list empty/absent without the flag => missing mandatory; both present => wrong syntax
				empty := false
				for a, b := range p.St.atoms {
					if b && strings.Contains(a, ".IsEmpty#") {
						empty = true
					}
				}
				if empty {
					want = clsMissingMandatory
				} else {
					want = clsWrongSyntax
				}
			default:
				want = clsWrongSyntax
			}
		case "setter", "validate":
			if !propagated {
				want = clsWrongSyntax
			}
			if kind == "validate" && typ != "" {
				want = "" // Validate methods forward ValidateClaims/ValidateSwComponent (K2)
			}
		}
		if want == "" {
			r.Prove("C13-K3", pkey, w.InstrPos(p.Ret), "propagated error; classified by K2", false)
			continue
		}
		wrongOther := false
		for _, b := range baseSentinels {
			if b != want && has(b) {
				wrongOther = true
			}
		}
		r.Check(has(want) && !wrongOther, "C13-K3", pkey, w.InstrPos(p.Ret),
			fmt.Sprintf("under %s the error is of class %s", p.St.Describe(), want),
			fmt.Sprintf("under [%s] the error has classes %v; the condition demands exactly %s", p.St.Describe(), ev.Cls, want))
	}
	r.Count("error_paths", n)
}

// c13PathKey: a line-free identification of a path: its constraints.
func c13PathKey(p Path) string {
	d := p.St.Describe()
	if len(d) > 160 {
		d = d[:160]
	}
	return d
}

// c13IsWalker: a package-level function taking a value of an in-repo interface
// type (or a slice of them): it forwards the errors of that value's methods.
func c13IsWalker(w *World, fn *ssa.Function) bool {
	if fn.Signature.Recv() != nil {
		return false
	}
	for _, p := range fn.Params {
		t := p.Type()
		if sl, ok := t.Underlying().(*types.Slice); ok {
			t = sl.Elem()
		}
		if n, ok := t.(*types.Named); ok && types.IsInterface(n) && n.Obj().Pkg() != nil && w.InRepoPath(n.Obj().Pkg().Path()) {
			return true
		}
	}
	return false
}

// onFailedComponentAssertion: the instruction lies in a block that is entered
// only through the false edge of `v, ok := x.(T)` where x is a component
// interface value (the "incorrect type" error of the generic container).
func onFailedComponentAssertion(in ssa.Instruction) bool {
	if in == nil || in.Block() == nil {
		return false
	}
	b := in.Block()
	for depth := 0; depth < 3 && b != nil; depth++ {
		if len(b.Preds) != 1 {
			return false
		}
		p := b.Preds[0]
		if ifi, ok := p.Instrs[len(p.Instrs)-1].(*ssa.If); ok {
			ex, ok := ifi.Cond.(*ssa.Extract)
			if !ok || ex.Index != 1 || p.Succs[1] != b {
				return false
			}
			ta, ok := ex.Tuple.(*ssa.TypeAssert)
			return ok && ta.CommaOk && strings.HasSuffix(ta.X.Type().String(), "ISwComponent")
		}
		b = p
	}
	return false
}
