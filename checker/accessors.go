package main

// Accept-set machinery shared by C01 (getters), C11 (setters), C04 (fidelity):
// projects every path of an accessor to a cube over a canonical vocabulary
// ($ = receiver, *$.F = the stored value of claim field F) and compares the
// union of cubes, tagged by outcome, with the cubes of the profile table.

import (
	"fmt"
	"regexp"
	"strings"

	"golang.org/x/tools/go/ssa"
)

var reMatchAtom = regexp.MustCompile(`\(\*regexp\.Regexp\)\.MatchString\(g:psatoken\.([A-Za-z0-9_]+),`)
var reIsEmpty = regexp.MustCompile(`psatoken\.ISwComponents\.IsEmpty#[A-Za-z0-9_\[\]\*\./]+\.t\d+@\d+(~\d+)?`)

// regexClass classifies the language of a package-level *regexp.Regexp
// (initialised once from a constant pattern) via E9.
func (w *World) regexClass(global string) (class, detail string) {
	g := w.Global(w.Root, global)
	if g == nil {
		return "?" + global, "no such package-level variable"
	}
	gi := w.GlobalInfo(g)
	if gi == nil || !gi.InitOnly || !strings.HasPrefix(gi.InitCallee, "regexp.MustCompile") && gi.InitCallee != "regexp.MustCompile" {
		return "?" + global, "not a regexp.MustCompile(constant) written only by the package initialiser"
	}
	cls, det, err := classifyPattern(gi.InitConst)
	if err != nil {
		return "?" + global, err.Error()
	}
	if cls == "other" {
		return "other:" + global, fmt.Sprintf("pattern %q %s", gi.InitConst, det)
	}
	return cls, det
}

type canon struct {
	w     *World
	recv  string
	val   string // setter's value parameter ("" for getters)
	field string
	notes map[string]string // class detail per regexp global
}

func wordRE(name string) *regexp.Regexp {
	return regexp.MustCompile(`(^|[^A-Za-z0-9_\.$])` + regexp.QuoteMeta(name) + `($|[^A-Za-z0-9_])`)
}

func (c *canon) rename(s string) string {
	s = reMatchAtom.ReplaceAllStringFunc(s, func(m string) string {
		g := reMatchAtom.FindStringSubmatch(m)[1]
		cls, det := c.w.regexClass(g)
		if c.notes != nil {
			c.notes[g] = cls + ": " + det
		}
		return "match(" + cls + ","
	})
	s = reIsEmpty.ReplaceAllString(s, "IsEmpty()")
	if c.recv != "" {
		re := wordRE(c.recv)
		for i := 0; i < 3; i++ {
			s = re.ReplaceAllString(s, "${1}$$${2}")
		}
	}
	if c.val != "" {
		re := wordRE(c.val)
		for i := 0; i < 3; i++ {
			s = re.ReplaceAllString(s, "${1}*$$."+c.field+"${2}")
		}
	}
	return s
}

type renamer interface{ Replace(string) string }
type fnRenamer func(string) string

func (f fnRenamer) Replace(s string) string { return f(s) }

// cubeOfR projects a state using an arbitrary renaming function.
func cubeOfR(st *State, ren func(string) string) Cube {
	c := Cube{Terms: map[string]iset{}, Atoms: map[string]bool{}}
	for k, v := range st.terms {
		if derivedExact(st, k) {
			continue // its restriction is already in the parent term (pre-image refinement)
		}
		k = ren(k)
		if prev, ok := c.Terms[k]; ok {
			v = inter(prev, v)
		}
		c.Terms[k] = v
	}
	for k, v := range st.atoms {
		c.Atoms[ren(k)] = v
	}
	return c
}

// outcomeTag classifies a return path by the sentinel class of its error.
func outcomeTag(p Path, ei int) string {
	ev, nl := errOf(p, ei)
	switch nl {
	case -1:
		return "ok"
	case 0:
		return "unknown(" + ev.name() + ")"
	}
	has := func(c string) bool {
		for _, x := range ev.Cls {
			if x == c {
				return true
			}
		}
		return false
	}
	switch {
	case has(clsMissingMandatory):
		return "missing-mandatory"
	case has(clsMissingOptional):
		return "missing-optional"
	case has(clsWrongProfile):
		return "wrong-profile"
	case has(clsWrongSyntax):
		return "wrong-syntax"
	}
	return "error(" + strings.Join(ev.Cls, ",") + ")"
}

func lenOf(v string) string { return "len(" + v + ")" }

// ruleCubes: the table row as cubes over value vocabulary V. extra atoms are
// added to every cube (e.g. ¬nil($.F)).
func ruleCubes(rule valueRule, V string, extra map[string]bool) []Cube {
	mk := func(tag string, terms map[string]iset, atoms map[string]bool) Cube {
		c := Cube{Terms: map[string]iset{}, Atoms: map[string]bool{}, Tag: tag}
		for k, v := range terms {
			c.Terms[k] = v
		}
		for k, v := range atoms {
			c.Atoms[k] = v
		}
		for k, v := range extra {
			c.Atoms[k] = v
		}
		return c
	}
	lenRule := func(valid iset) []Cube {
		return []Cube{
			mk("ok", map[string]iset{lenOf(V): valid}, nil),
			mk("wrong-syntax", map[string]iset{lenOf(V): minus(iset{{0, maxI}}, valid)}, nil),
		}
	}
	switch rule {
	case ruleAny:
		return []Cube{mk("ok", nil, nil)}
	case ruleLen32:
		return lenRule(iset{{32, 32}})
	case ruleLen8to32:
		return lenRule(iset{{8, 32}})
	case ruleHash:
		return lenRule(iset{{32, 32}, {48, 48}, {64, 64}})
	case ruleNonEmpty:
		return lenRule(iset{{1, maxI}})
	case ruleUEID:
		return []Cube{
			mk("ok", map[string]iset{lenOf(V): {{33, 33}}, V + "[0]": {{1, 1}}}, nil),
			mk("wrong-syntax", map[string]iset{lenOf(V): {{33, 33}}, V + "[0]": {{0, 0}, {2, 255}}}, nil),
			mk("wrong-syntax", map[string]iset{lenOf(V): {{0, 32}, {34, maxI}}}, nil),
		}
	case ruleLifecycle:
		valid := lifecycleValidSet()
		return []Cube{
			mk("ok", map[string]iset{V: valid}, nil),
			mk("wrong-syntax", map[string]iset{V: minus(iset{{0, 65535}}, valid)}, nil),
		}
	case ruleEAN13or5:
		a13, a18 := "match(EAN13,"+V+")", "match(EAN13+5,"+V+")"
		return []Cube{
			mk("ok", nil, map[string]bool{a13: true}),
			mk("ok", nil, map[string]bool{a18: true}),
			mk("wrong-syntax", nil, map[string]bool{a13: false, a18: false}),
		}
	case ruleEAN13p5:
		a18 := "match(EAN13+5," + V + ")"
		return []Cube{
			mk("ok", nil, map[string]bool{a18: true}),
			mk("wrong-syntax", nil, map[string]bool{a18: false}),
		}
	}
	return nil
}

// universeFor builds the comparison universe from the vocabularies of both
// sides; the domain of a term is the union of what either side mentions.
func universeFor(got, want []Cube) Universe {
	u := Universe{Terms: map[string]iset{}}
	for _, cs := range [][]Cube{got, want} {
		for _, c := range cs {
			for t, s := range c.Terms {
				u.Terms[t] = union(u.Terms[t], s)
			}
		}
	}
	_, atoms := vocabulary(got, want)
	for a := range atoms {
		u.Atoms = append(u.Atoms, a)
	}
	u.Feasible = func(c cell) bool {
		// the two reference languages are disjoint
		for a, b := range c.atoms {
			if b && strings.HasPrefix(a, "match(EAN13,") {
				if c.atoms["match(EAN13+5,"+strings.TrimPrefix(a, "match(EAN13,")] {
					return false
				}
			}
		}
		return true
	}
	return u
}

// accessorCubes summarises an accessor into tagged cubes over the canonical
// vocabulary. ok=false means the function left the engine's fragment.
func accessorCubes(w *World, fn *ssa.Function, c *canon) (cubes []Cube, paths []Path, why string) {
	s := w.Summarise(fn)
	if ok, y := s.Complete(); !ok {
		return nil, nil, y
	}
	ei := errIndex(fn)
	for _, p := range s.Paths {
		if p.Panic != nil {
			cb := cubeOfR(p.St, c.rename)
			cb.Tag = "panic"
			cubes = append(cubes, cb)
			paths = append(paths, p)
			continue
		}
		cb := cubeOfR(p.St, c.rename)
		cb.Tag = outcomeTag(p, ei)
		cb.Origin = trailOf(p)
		cubes = append(cubes, cb)
		paths = append(paths, p)
	}
	return cubes, paths, ""
}

// dropUnconstrained removes from cubes the terms that no cube constrains
// below their common domain and that the spec does not mention (helper terms
// such as the value returned).
func compareAccessor(got, want []Cube) (mm []string, n int, err error) {
	u := universeFor(got, want)
	return compareUnions(u, got, want)
}
