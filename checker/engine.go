package main

// E3 — abstract interpretation of SSA functions over disjunctive states
// (interval sets for integer terms, booleans for atoms, an abstract store for
// access paths), with trace partitioning: the worklist carries one state per
// path prefix, splits at every branch whose condition the state does not
// decide, and evaluates φ by predecessor. In-repo static callees are inlined.
// Loops are followed only while every iteration is decided by the state
// (constant-trip loops); otherwise the path is cut and reported as such.

import (
	"fmt"
	"go/constant"
	"go/token"
	"go/types"
	"reflect"
	"sort"
	"strings"

	"golang.org/x/tools/go/ssa"
)

type Engine struct {
	w        *World
	MaxDepth int
	MaxSteps int
	steps    int
	stack    []*ssa.Function
	// Observe, if set, is called before each instruction is interpreted.
	Observe func(in ssa.Instruction, st *State, depth int)
	// StopAt ends a path (recording it) when it reaches the instruction.
	StopAt map[ssa.Instruction]bool
	// NoInline lists functions to be treated as opaque calls.
	NoInline map[*ssa.Function]bool
	// Effects, if set, tells whether an in-repo function may write memory
	// reachable from its parameters or globals (E5); used for opaque calls.
	Effects func(fn *ssa.Function) (writes bool, known bool)
	// NoLoops: do not generalise loops; a loop whose iteration the state does
	// not decide ends the path as Cut (the engine's original fragment).
	NoLoops bool
	// Lean: site-oriented runs (E8) need neither event traces nor the final
	// states of finished top-level paths; dropping them keeps memory flat.
	Lean bool
	// InlineLoops: inline in-repo callees even when they contain generalised
	// loops (default: such callees stay opaque calls).
	InlineLoops bool
	// ErrClasses, if set, gives the sentinel classes (E4) of result idx of an
	// in-repo call that is not inlined.
	ErrClasses func(site *ssa.Call, idx int) []string
	// NonNilResult, if set, tells whether result idx of an in-repo call that
	// is not inlined is non-nil on every return path of every possible callee.
	NonNilResult func(site *ssa.Call, idx int) bool
	// NonNilOnSuccess: result idx is non-nil on every return path of every
	// callee on which the (last) error result may be nil.
	NonNilOnSuccess func(site *ssa.Call, idx int) bool
	Err             error
	// boundMethod: set while an opaque call through a bound method value is
	// recorded (the method's name)
	boundMethod string
}

func NewEngine(w *World) *Engine {
	// the register (and what stands for it: alias parameters, snapshot
	// helpers) is part of how the engine reads memory: resolve it first
	if _, done := regGlobalMemo[w]; !done && w.Root != nil {
		registerGlobal(w)
	}
	return &Engine{w: w, MaxDepth: 8, MaxSteps: 400000}
}

type workItem struct {
	b, pred *ssa.BasicBlock
	st      *State
	visited map[*ssa.BasicBlock]int
	count   map[*ssa.BasicBlock]int
	// widened: loop headers whose state was already generalised on this path
	widened map[*ssa.BasicBlock]bool
	// widen: the φ-nodes of b take fresh (loop-invariant-only) values
	widen bool
}

// Run interprets fn from its entry with the given initial state and
// arguments (nil args: parameters are symbolic, named after themselves).
func (e *Engine) Run(fn *ssa.Function, init *State, args []AV) []Path {
	if init == nil {
		init = e.RootState()
	}
	if fn.Blocks == nil {
		e.fail("function %s has no body", fn)
		return nil
	}
	for i, p := range fn.Params {
		if i < len(args) && args[i].Kind != KUnknown {
			init.env[p] = args[i]
		} else {
			init.env[p] = e.paramAV(init, p)
		}
	}
	e.stack = append(e.stack, fn)
	defer func() { e.stack = e.stack[:len(e.stack)-1] }()

	var out []Path
	work := []workItem{{b: fn.Blocks[0], st: init, visited: map[*ssa.BasicBlock]int{}, count: map[*ssa.BasicBlock]int{}}}
	for len(work) > 0 {
		it := work[len(work)-1]
		work = work[:len(work)-1]
		e.steps++
		if e.steps > e.MaxSteps {
			e.fail("state budget exceeded in %s", fn)
			return out
		}
		// loop control: a block is met again on this path. If every branch
		// since the last visit was decided by the state the loop is simply
		// followed (constant trip count). Otherwise the state at the header is
		// generalised once (widening: φ-nodes and everything the loop may
		// write are forgotten) and the body is explored again from that state,
		// which stands for an arbitrary iteration; meeting the generalised
		// header again ends the path.
		if last, seen := it.visited[it.b]; seen {
			// a later iteration: values created from here on are new ones
			it.st.iter++
			if last != it.st.splits || it.count[it.b] > 4096 {
				// a block inside a loop whose header was simply followed so far
				// (its first tests were decided): not the place to generalise —
				// the header is, at its next arrival
				if !e.NoLoops && it.count[it.b] <= 4096 && !isLoopHeader(it.b) && insideLoop(it.b) {
					goto visit
				}
				if e.NoLoops || it.pred == nil || !it.b.Dominates(it.pred) {
					out = append(out, Path{St: it.st, Cut: it.b})
					continue
				}
				if it.widened[it.b] {
					out = append(out, Path{St: it.st, Loop: it.b})
					continue
				}
				if it.count[it.b] <= 64 && e.headerDecided(it) {
					// the loop condition is decided by the state (constant bound,
					// e.g. a walk over a fixed table): follow this iteration as is;
					// the body's blocks may be entered again
					lb := loopInfoOf(it.b)
					nv := make(map[*ssa.BasicBlock]int, len(it.visited))
					for k, v := range it.visited {
						if !lb.blocks[k] || k == it.b {
							nv[k] = v
						}
					}
					it.visited = nv
					goto visit
				}
				li := loopInfoOf(it.b)
				nw := make(map[*ssa.BasicBlock]bool, len(it.widened)+1)
				for k, v := range it.widened {
					if !li.blocks[k] {
						nw[k] = v
					}
				}
				nw[it.b] = true
				it.widened = nw
				nv := make(map[*ssa.BasicBlock]int, len(it.visited))
				for k, v := range it.visited {
					if !li.blocks[k] {
						nv[k] = v
					}
				}
				it.visited = nv
				e.widenMemory(it.st, li)
				it.widen = true
			}
		}
	visit:
		it.visited[it.b] = it.st.splits
		it.count[it.b]++
		if e.Lean {
			it.st.events = nil
			it.st.trail = nil
		}

		cur := []*State{it.st}
		var term ssa.Instruction
		stopped := false
		for _, in := range it.b.Instrs {
			if e.StopAt != nil && e.StopAt[in] {
				for _, st := range cur {
					out = append(out, Path{St: st, Stop: in})
				}
				stopped = true
				break
			}
			if e.Observe != nil {
				for _, st := range cur {
					e.Observe(in, st, len(e.stack)-1)
				}
			}
			switch x := in.(type) {
			case *ssa.If, *ssa.Return, *ssa.Jump, *ssa.Panic:
				term = in
			case *ssa.Phi:
				if it.widen {
					for _, st := range cur {
						st.env[x] = e.widenPhi(st, x)
					}
					break
				}
				for i, p := range it.b.Preds {
					if p == it.pred {
						for _, st := range cur {
							st.env[x] = e.eval(st, x.Edges[i])
						}
					}
				}
			default:
				var next []*State
				for _, st := range cur {
					res, paths := e.exec(st, in)
					next = append(next, res...)
					out = append(out, paths...)
				}
				if len(next) > 1 && len(next) != len(cur) {
					for _, st := range next {
						st.splits++
					}
				}
				cur = next
			}
			if e.Err != nil {
				return out
			}
		}
		if stopped {
			continue
		}
		for _, st := range cur {
			if st.unsupported != "" {
				out = append(out, Path{St: st, Cut: it.b})
				continue
			}
			switch t := term.(type) {
			case *ssa.Jump:
				work = append(work, e.succ(it, st, 0, len(cur) > 1))
			case *ssa.Return:
				var rs []AV
				for _, r := range t.Results {
					rs = append(rs, e.eval(st, r))
				}
				out = append(out, Path{St: st, Rets: rs, Ret: t})
			case *ssa.Panic:
				out = append(out, Path{St: st, Panic: t})
			case *ssa.If:
				c := e.toBool(st, e.eval(st, t.Cond))
				tS, fS := e.branch(st, c)
				both := tS != nil && fS != nil
				if both {
					tS.splits++
					fS.splits++
				}
				if tS != nil {
					tS.trail = append(tS.trail, fmt.Sprintf("%s:T", e.w.InstrPos(t)))
					work = append(work, e.succ(it, tS, 0, true))
				}
				if fS != nil {
					fS.trail = append(fS.trail, fmt.Sprintf("%s:F", e.w.InstrPos(t)))
					work = append(work, e.succ(it, fS, 1, true))
				}
			case nil:
				e.fail("block %d of %s has no terminator", it.b.Index, fn)
			}
		}
	}
	return out
}

func (e *Engine) succ(it workItem, st *State, i int, copyMaps bool) workItem {
	v, c := it.visited, it.count
	if copyMaps {
		v = make(map[*ssa.BasicBlock]int, len(it.visited))
		for k, x := range it.visited {
			v[k] = x
		}
		c = make(map[*ssa.BasicBlock]int, len(it.count))
		for k, x := range it.count {
			c[k] = x
		}
	}
	return workItem{b: it.b.Succs[i], pred: it.b, st: st, visited: v, count: c, widened: it.widened}
}

func (e *Engine) fail(f string, a ...any) {
	if e.Err == nil {
		e.Err = fmt.Errorf(f, a...)
	}
}

// branch refines st by condition c; a nil result means the edge is infeasible.
func (e *Engine) branch(st *State, c AV) (tS, fS *State) {
	switch c.Kind {
	case KBool:
		if c.B {
			return st, nil
		}
		return nil, st
	case KCmp:
		cur, ok := st.terms[c.Term]
		if !ok {
			cur = fullSet
		}
		ts := inter(cur, cmpSet(c.Op, c.K))
		fs := inter(cur, cmpSet(negOp(c.Op), c.K))
		switch {
		case ts.empty() && fs.empty():
			return nil, nil
		case fs.empty():
			st.terms[c.Term] = ts
			refineParent(st, c.Term, ts)
			return st, nil
		case ts.empty():
			st.terms[c.Term] = fs
			refineParent(st, c.Term, fs)
			return nil, st
		}
		f := st.clone()
		st.terms[c.Term] = ts
		f.terms[c.Term] = fs
		refineParent(st, c.Term, ts)
		refineParent(f, c.Term, fs)
		return st, f
	case KAtom:
		if b, ok := st.atoms[c.Sym]; ok {
			if b != c.Neg {
				return st, nil
			}
			return nil, st
		}
		f := st.clone()
		st.atoms[c.Sym] = !c.Neg
		f.atoms[c.Sym] = c.Neg
		for _, s2 := range []*State{st, f} {
			if s2.atoms[c.Sym] {
				for _, b := range s2.impl[c.Sym] {
					s2.atoms[b] = false
				}
			}
		}
		return st, f
	}
	// cannot happen: toBool always yields one of the above
	f := st.clone()
	return st, f
}

// toBool normalises a boolean abstract value to KBool / KCmp / KAtom.
func (e *Engine) toBool(st *State, a AV) AV {
	switch a.Kind {
	case KBool, KCmp:
		return a
	case KAtom:
		if b, ok := st.atoms[a.Sym]; ok {
			return avBool(b != a.Neg)
		}
		return a
	}
	n := a.name()
	if n == "" || n == "?" {
		n = fmt.Sprintf("?bool@%d", st.epoch)
	}
	return AV{Kind: KAtom, Sym: n}
}

// ---------- locations ----------

func locJoin(loc, sel string) string { return loc + sel }

func locRoot(loc string) (root, sel string) {
	if i := strings.IndexByte(loc, '|'); i >= 0 {
		return loc[:i], loc[i+1:]
	}
	return loc, ""
}

func isLocal(loc string) bool { return strings.HasPrefix(loc, "L:") }

// related: one location is a prefix (ancestor) of the other.
func related(a, b string) bool {
	if len(a) > len(b) {
		a, b = b, a
	}
	if !strings.HasPrefix(b, a) {
		return false
	}
	if len(a) == len(b) {
		return true
	}
	c := b[len(a)]
	return c == '.' || c == '[' || c == '|'
}

// inst: the suffix that makes names of values created at the same instruction
// in different epochs (havocs) and iterations distinct.
func (st *State) inst() string {
	if st.iter == 0 {
		return fmt.Sprint(st.epoch)
	}
	return fmt.Sprintf("%d~%d", st.epoch, st.iter)
}

func symForLoc(loc string, epoch int) string {
	root, sel := locRoot(loc)
	var s string
	switch {
	case strings.HasPrefix(root, "P:"):
		if sel == "" {
			s = "*" + root[2:]
		} else {
			s = root[2:] + sel
		}
	case strings.HasPrefix(root, "G:"):
		s = "g:" + root[2:] + sel
	default:
		s = "l:" + root[2:] + sel
	}
	if epoch > 0 {
		s += fmt.Sprintf("@%d", epoch)
	}
	return s
}

func (e *Engine) typed(st *State, name string, t types.Type) AV {
	switch {
	case isIntType(t):
		if _, ok := st.terms[name]; !ok {
			st.terms[name] = typeRange(t)
		}
		return AV{Kind: KLin, Term: name}
	case isBoolType(t):
		return AV{Kind: KAtom, Sym: name}
	}
	return AV{Kind: KSym, Sym: name}
}

func zeroAV(t types.Type) AV {
	switch {
	case isIntType(t):
		return avInt(0)
	case isBoolType(t):
		return avBool(false)
	case isStringType(t):
		return avStr("")
	case isNilable(t):
		return avNil()
	}
	return AV{Kind: KZero}
}

func (e *Engine) load(st *State, loc string, t types.Type) AV {
	if v, ok := st.mem[loc]; ok {
		if v.Kind == KZero {
			if isAggregate(t) && hasChildren(st, loc) {
				return AV{Kind: KAgg, Loc: loc} // zero-initialised local with known parts
			}
			return zeroAV(t)
		}
		return v
	}
	if isAggregate(t) && hasChildren(st, loc) {
		return AV{Kind: KAgg, Loc: loc} // an element / field whose own parts are known
	}
	// nearest ancestor
	anc := loc
	for {
		i := strings.LastIndexAny(anc, ".[|")
		if i < 0 {
			break
		}
		rest := loc[i:]
		anc = anc[:i]
		if v, ok := st.mem[anc]; ok {
			switch v.Kind {
			case KZero:
				return zeroAV(t)
			case KSym:
				r := strings.TrimPrefix(rest, "|")
				return e.typed(st, v.Sym+r, t)
			}
			// some other aggregate: opaque
			return e.typed(st, fmt.Sprintf("?%s@%d", loc, st.epoch), t)
		}
	}
	if isAggregate(t) && hasChildren(st, loc) {
		return AV{Kind: KAgg, Loc: loc}
	}
	if isLocal(loc) {
		return zeroAV(t)
	}
	v := e.typed(st, symForLoc(loc, st.epoch), t)
	st.mem[loc] = v
	return v
}

func (e *Engine) kill(st *State, loc string) {
	for k := range st.mem {
		if k != loc && related(k, loc) {
			// a write to a child invalidates a memoised whole-aggregate value
			// only if it was a memoised load (symbolic); keep explicit parents
			// that are zero/aggregate markers for locals.
			if len(k) < len(loc) {
				if v := st.mem[k]; v.Kind == KZero || (isLocal(k) && v.Kind == KSym) {
					continue
				}
			}
			delete(st.mem, k)
		}
	}
}

func (e *Engine) store(st *State, loc string, v AV, in ssa.Instruction) {
	e.kill(st, loc)
	if v.Kind == KAgg {
		// copy of an aggregate whose parts are known: copy the parts
		src := childPrefix(v.Loc)
		dst := childPrefix(loc)
		copies := map[string]AV{}
		for k, x := range st.mem {
			if strings.HasPrefix(k, src) {
				copies[dst+k[len(src):]] = x
			}
		}
		// the whole-value marker of the destination: parts that are not copied
		// read as the source's would — zero for a zero-initialised local source,
		// nothing to add for a constant table (all parts known), unknown otherwise
		switch m, has := st.mem[v.Loc]; {
		case has && (m.Kind == KZero || m.Kind == KSym):
			st.mem[loc] = m
		case strings.HasPrefix(v.Loc, "G:"):
			delete(st.mem, loc)
		default:
			st.mem[loc] = AV{Kind: KSym, Sym: fmt.Sprintf("copy(%s)@%s", v.Loc, st.inst())}
		}
		for k, x := range copies {
			st.mem[k] = x
		}
		if !isLocal(loc) {
			st.events = append(st.events, Event{Kind: "store", Loc: loc, Val: v, Instr: in, Fn: in.Parent(), Depth: len(e.stack) - 1})
		}
		return
	}
	st.mem[loc] = v
	if !isLocal(loc) {
		st.events = append(st.events, Event{Kind: "store", Loc: loc, Val: v, Instr: in, Fn: in.Parent(), Depth: len(e.stack) - 1})
	}
}

// havocAll forgets everything known about non-local memory.
func (e *Engine) havocAll(st *State) {
	st.epoch++
	base := e.w.BaseMem()
	for k := range st.mem {
		if isLocal(k) {
			continue
		}
		// base memory: package-level tables and function variables that only
		// their initialiser writes — nothing a callee or a loop does changes them
		if bv, isBase := base[k]; isBase && reflect.DeepEqual(bv, st.mem[k]) {
			continue
		}
		delete(st.mem, k)
	}
}

// havocPointee forgets what is known about the memory an argument points to.
func (e *Engine) havocPointee(st *State, a AV, tag string) {
	switch a.Kind {
	case KAddr:
		e.kill(st, a.Loc)
		st.mem[a.Loc] = AV{Kind: KSym, Sym: fmt.Sprintf("w(%s,%s)@%d", a.Loc, tag, st.epoch)}
	case KSliceOf:
		e.kill(st, a.Loc)
		delete(st.mem, a.Loc)
	case KIface:
		if a.Inner != nil {
			e.havocPointee(st, *a.Inner, tag)
		}
	case KSym:
		// unknown pointer: forget locations rooted at it
		root := "P:" + a.Sym
		for k := range st.mem {
			if r, _ := locRoot(k); r == root {
				delete(st.mem, k)
			}
		}
		st.epoch++
	}
}

// ---------- evaluation ----------

func (e *Engine) paramAV(st *State, p *ssa.Parameter) AV {
	// a parameter that every call site binds to one package-level map (a
	// method on a named map type called only on that variable) is that map
	for g, al := range regAliasMemo {
		if al[p] {
			if fi, wrapped := regFieldMemo[g]; wrapped {
				fn := g.Type().(*types.Pointer).Elem().Underlying().(*types.Struct).Field(fi).Name()
				return e.load(st, locJoin(ensureSel("G:"+globalName(g)), "."+fn), p.Type())
			}
			return e.load(st, "G:"+globalName(g), p.Type())
		}
	}
	for g, al := range regPtrAliasMemo {
		if al[p] {
			return AV{Kind: KAddr, Loc: "G:" + globalName(g)}
		}
	}
	return e.typed(st, p.Name(), p.Type())
}

func (e *Engine) eval(st *State, v ssa.Value) AV {
	if a, ok := st.env[v]; ok {
		return a
	}
	switch x := v.(type) {
	case *ssa.Const:
		return constAV(x)
	case *ssa.Global:
		return AV{Kind: KAddr, Loc: "G:" + globalName(x)}
	case *ssa.Function:
		return AV{Kind: KFunc, Fn: x}
	case *ssa.Builtin:
		return AV{Kind: KSym, Sym: "builtin:" + x.Name(), NonNil: true}
	case *ssa.Parameter:
		a := e.paramAV(st, x)
		st.env[v] = a
		return a
	case *ssa.FreeVar:
		if a, ok := st.env[v]; ok {
			return a
		}
		return AV{Kind: KSym, Sym: "freevar:" + x.Name()}
	}
	// a value not yet computed on this path (should not happen in SSA order)
	return AV{Kind: KUnknown, Sym: fmt.Sprintf("?%s", v.Name())}
}

func globalName(g *ssa.Global) string {
	if g.Pkg != nil {
		return g.Pkg.Pkg.Name() + "." + g.Name()
	}
	return g.Name()
}

func constAV(c *ssa.Const) AV {
	if c.Value == nil {
		t := c.Type()
		if isNilable(t) {
			return avNil()
		}
		return zeroAV(t)
	}
	switch c.Value.Kind() {
	case constant.Int:
		if n, ok := constant.Int64Val(c.Value); ok {
			return avInt(n)
		}
		// uint64 above MaxInt64: saturate
		return avInt(maxI)
	case constant.Bool:
		return avBool(constant.BoolVal(c.Value))
	case constant.String:
		return avStr(constant.StringVal(c.Value))
	}
	return AV{Kind: KSym, Sym: "const:" + c.Value.ExactString()}
}

// exec interprets one non-terminator instruction. It returns the successor
// states (several when an inlined callee has several outcomes) and any
// completed paths (panics inside inlined callees).
func (e *Engine) exec(st *State, in ssa.Instruction) ([]*State, []Path) {
	one := []*State{st}
	switch x := in.(type) {
	case *ssa.Alloc:
		loc := "L:" + x.Parent().Name() + "." + x.Name()
		if x.Comment != "" {
			loc += "(" + x.Comment + ")"
		}
		e.kill(st, loc)
		st.mem[loc] = AV{Kind: KZero}
		st.env[x] = AV{Kind: KAddr, Loc: loc, Src: x}
	case *ssa.Store:
		addr := e.eval(st, x.Addr)
		val := e.eval(st, x.Val)
		if loc, ok := e.pointee(addr); ok {
			e.store(st, loc, val, x)
		} else {
			st.unsupported = "store through unknown address " + addr.name()
		}
	case *ssa.UnOp:
		st.env[x] = e.unop(st, x)
	case *ssa.BinOp:
		st.env[x] = e.binop(st, x)
	case *ssa.FieldAddr:
		base := e.eval(st, x.X)
		fname := fieldName(x.X.Type(), x.Field)
		if loc, ok := e.pointee(base); ok {
			st.env[x] = AV{Kind: KAddr, Loc: locJoin(ensureSel(loc), "."+fname)}
		} else {
			st.env[x] = AV{Kind: KAddr, Loc: "P:?" + base.name() + "|." + fname}
		}
	case *ssa.Field:
		base := e.eval(st, x.X)
		fname := x.X.Type().Underlying().(*types.Struct).Field(x.Field).Name()
		switch base.Kind {
		case KAgg:
			st.env[x] = e.load(st, childPrefix(base.Loc)+"."+fname, x.Type())
		case KSym:
			fv := e.typed(st, base.Sym+"."+fname, x.Type())
			if strings.HasPrefix(base.Sym, "reflect.Type.Field(") && fname == "Type" {
				fv.NonNil = true // reflect docs: StructField.Type is the field's type, never nil
			}
			st.env[x] = fv
		case KZero:
			st.env[x] = zeroAV(x.Type())
		default:
			st.env[x] = e.typed(st, base.name()+"."+fname, x.Type())
		}
	case *ssa.IndexAddr:
		base := e.eval(st, x.X)
		idx := e.eval(st, x.Index)
		sel := "[?" + idx.name() + "]"
		if idx.Kind == KInt {
			sel = fmt.Sprintf("[%d]", idx.K)
		}
		if states := e.forkTableIndex(st, x, base, idx); states != nil {
			return states, nil
		}
		switch base.Kind {
		case KAddr: // pointer to array
			st.env[x] = AV{Kind: KAddr, Loc: locJoin(ensureSel(base.Loc), sel)}
		case KSliceOf:
			st.env[x] = AV{Kind: KAddr, Loc: locJoin(ensureSel(base.Loc), sel)}
		case KSym:
			if root, lo, _, ok := parseSliceName(base.Sym); ok && idx.Kind == KInt && idx.K >= 0 {
				// element i of X[lo:hi] is element lo+i of X (same memory)
				st.env[x] = AV{Kind: KAddr, Loc: "P:" + root + "|" + fmt.Sprintf("[%d]", lo+idx.K)}
				break
			}
			st.env[x] = AV{Kind: KAddr, Loc: "P:" + base.Sym + "|" + sel}
		default:
			st.env[x] = AV{Kind: KAddr, Loc: "P:?" + base.name() + "|" + sel}
		}
	case *ssa.Index:
		base := e.eval(st, x.X)
		idx := e.eval(st, x.Index)
		if base.Kind == KAgg && idx.Kind == KInt {
			st.env[x] = e.load(st, childPrefix(base.Loc)+fmt.Sprintf("[%d]", idx.K), x.Type())
			break
		}
		st.env[x] = e.typed(st, base.name()+"["+idx.name()+"]", x.Type())
	case *ssa.Slice:
		st.env[x] = e.slice(st, x)
	case *ssa.Convert:
		st.env[x] = e.convert(st, e.eval(st, x.X), x.X.Type(), x.Type())
	case *ssa.ChangeType:
		a := e.eval(st, x.X)
		a.Src = x
		st.env[x] = a
	case *ssa.ChangeInterface:
		st.env[x] = e.eval(st, x.X)
	case *ssa.MakeInterface:
		inner := e.eval(st, x.X)
		a := AV{Kind: KIface, Inner: &inner, Dyn: x.X.Type(), Cls: inner.Cls, Src: x}
		st.env[x] = a
	case *ssa.TypeAssert:
		st.env[x] = e.typeAssert(st, x)
	case *ssa.Extract:
		t := e.eval(st, x.Tuple)
		if t.Kind == KTuple && x.Index < len(t.Elems) {
			st.env[x] = t.Elems[x.Index]
		} else {
			st.env[x] = e.typed(st, fmt.Sprintf("%s#%d", t.name(), x.Index), x.Type())
		}
	case *ssa.MakeSlice:
		n := e.eval(st, x.Len)
		a := AV{Kind: KSym, Sym: fmt.Sprintf("makeslice(%s)#%s.%s@%s", n.name(), x.Parent().Name(), x.Name(), st.inst()), NonNil: true, Src: x}
		if n.Kind == KInt || n.Kind == KLin {
			nn := n
			a.Inner = &nn // len(make([]T, n)) == n
		}
		if n.Kind == KInt || n.Kind == KLin {
			// remember the length relation
			lt := "len(" + a.Sym + ")"
			if n.Kind == KInt {
				st.terms[lt] = iset{{n.K, n.K}}
			} else if s, ok := st.terms[n.Term]; ok {
				st.terms[lt] = s.shift(n.K)
			}
		}
		st.env[x] = a
	case *ssa.MakeMap, *ssa.MakeChan:
		v := in.(ssa.Value)
		st.env[v] = AV{Kind: KSym, Sym: fmt.Sprintf("make#%s.%s@%s", in.Parent().Name(), v.Name(), st.inst()), NonNil: true, Src: v}
	case *ssa.MakeClosure:
		fn, _ := x.Fn.(*ssa.Function)
		a := AV{Kind: KFunc, Fn: fn, Src: x}
		for _, b := range x.Bindings {
			a.Elems = append(a.Elems, e.eval(st, b)) // the captured variables (their addresses)
		}
		st.env[x] = a
	case *ssa.Lookup:
		m := e.eval(st, x.X)
		k := e.eval(st, x.Index)
		base := fmt.Sprintf("lookup(%s,%s)@%s", m.name(), k.name(), st.inst())
		if x.CommaOk {
			tt := x.Type().(*types.Tuple)
			st.env[x] = AV{Kind: KTuple, Elems: []AV{e.typed(st, base, tt.At(0).Type()), {Kind: KAtom, Sym: "ok:" + base}}}
		} else {
			st.env[x] = e.typed(st, base, x.Type())
		}
	case *ssa.MapUpdate:
		m := e.eval(st, x.Map)
		k := e.eval(st, x.Key)
		v := e.eval(st, x.Value)
		ev := Event{Kind: "store", Loc: "M:" + m.name() + "[" + k.name() + "]", Val: v, Instr: x, Fn: x.Parent(), Depth: len(e.stack) - 1}
		if v.Kind == KAgg {
			ev.Parts = map[string]AV{}
			pre := childPrefix(v.Loc)
			for loc, pv := range st.mem {
				if strings.HasPrefix(loc, pre) {
					ev.Parts[loc[len(pre):]] = pv
				}
			}
		}
		st.events = append(st.events, ev)
	case *ssa.Range:
		st.env[x] = AV{Kind: KSym, Sym: fmt.Sprintf("range#%s.%s@%s", x.Parent().Name(), x.Name(), st.inst())}
	case *ssa.Next:
		n := fmt.Sprintf("next#%s.%s@%d/%d", x.Parent().Name(), x.Name(), st.epoch, st.splits)
		tt := x.Type().(*types.Tuple)
		st.env[x] = AV{Kind: KTuple, Elems: []AV{{Kind: KAtom, Sym: "ok:" + n}, e.typed(st, "k:"+n, tt.At(1).Type()), e.typed(st, "v:"+n, tt.At(2).Type())}}
	case *ssa.Call:
		return e.call(st, x)
	case *ssa.Defer:
		e.deferCall(st, x)
	case *ssa.RunDefers:
		return e.runDefers(st, x)
	case *ssa.Go, *ssa.Select, *ssa.Send:
		st.unsupported = fmt.Sprintf("%T outside the fragment", in)
	case *ssa.DebugRef:
	default:
		st.unsupported = fmt.Sprintf("instruction %T not modelled", in)
	}
	return one, nil
}

func ensureSel(loc string) string {
	if strings.IndexByte(loc, '|') < 0 {
		return loc + "|"
	}
	return loc
}

func fieldName(ptrT types.Type, i int) string {
	t := ptrT.Underlying().(*types.Pointer).Elem().Underlying().(*types.Struct)
	return t.Field(i).Name()
}

// pointee gives the abstract location a pointer value refers to.
func (e *Engine) pointee(a AV) (string, bool) {
	switch a.Kind {
	case KAddr:
		return a.Loc, true
	case KSym:
		return "P:" + a.Sym, true
	case KIface:
		if a.Inner != nil {
			return e.pointee(*a.Inner)
		}
	}
	return "", false
}

func (e *Engine) unop(st *State, x *ssa.UnOp) AV {
	a := e.eval(st, x.X)
	switch x.Op {
	case token.MUL: // load
		loc, ok := e.pointee(a)
		if !ok {
			return e.typed(st, "*"+a.name(), x.Type())
		}
		v := e.load(st, loc, x.Type())
		if v.Src == nil {
			v.Src = x
		}
		if g, ok := x.X.(*ssa.Global); ok {
			e.decorateGlobalLoad(&v, g)
		}
		return v
	case token.NOT:
		b := e.toBool(st, a)
		switch b.Kind {
		case KBool:
			return avBool(!b.B)
		case KCmp:
			b.Op = negOp(b.Op)
			return b
		case KAtom:
			b.Neg = !b.Neg
			return b
		}
	case token.SUB:
		if a.Kind == KInt {
			return avInt(-a.K)
		}
	case token.XOR:
		if a.Kind == KInt {
			return avInt(^a.K)
		}
	}
	return e.typed(st, x.Op.String()+a.name(), x.Type())
}

// decorateGlobalLoad attaches what the package initialiser establishes about
// a package-level variable that nothing else writes (error class, non-nil).
func (e *Engine) decorateGlobalLoad(v *AV, g *ssa.Global) {
	gi := e.w.GlobalInfo(g)
	if gi == nil || !gi.InitOnly {
		return
	}
	if gi.NonNil {
		v.NonNil = true
	}
	if len(gi.Cls) > 0 {
		v.Cls = gi.Cls
	}
}

func (e *Engine) linRange(st *State, a AV) (iset, bool) {
	switch a.Kind {
	case KInt:
		return iset{{a.K, a.K}}, true
	case KLin:
		if s, ok := st.terms[a.Term]; ok {
			return s.shift(a.K), true
		}
		return fullSet, true
	}
	return nil, false
}

// derived registers a fresh integer term for a non-linear expression.
func (e *Engine) derived(st *State, name string, rng iset, t types.Type) AV {
	rng = inter(rng, typeRange(t))
	if prev, ok := st.terms[name]; ok {
		rng = inter(rng, prev)
	}
	st.terms[name] = rng
	return AV{Kind: KLin, Term: name}
}

func (e *Engine) binop(st *State, x *ssa.BinOp) AV {
	l, r := e.eval(st, x.X), e.eval(st, x.Y)
	if isCmpOp(x.Op) {
		return e.compare(st, x.Op, l, r, x.X.Type())
	}
	t := x.Type()
	lr, lok := e.linRange(st, l)
	rr, rok := e.linRange(st, r)
	if lok && rok {
		lk, lconst := lr.singleton()
		rk, rconst := rr.singleton()
		if l.Kind != KInt {
			lconst = false
		}
		if r.Kind != KInt {
			rconst = false
		}
		switch x.Op {
		case token.ADD:
			if lconst && rconst {
				return e.wrap(avInt(lk+rk), t)
			}
			if l.Kind == KLin && rconst {
				l.K += rk
				return e.fit(st, l, t)
			}
			if lconst && r.Kind == KLin {
				r.K += lk
				return e.fit(st, r, t)
			}
		case token.SUB:
			if lconst && rconst {
				return e.wrap(avInt(lk-rk), t)
			}
			if l.Kind == KLin && rconst {
				l.K -= rk
				return e.fit(st, l, t)
			}
			if l.Kind == KLin && r.Kind == KLin && l.Term == r.Term {
				return avInt(l.K - r.K)
			}
		case token.MUL:
			if lconst && rconst {
				return e.wrap(avInt(lk*rk), t)
			}
		case token.QUO:
			if lconst && rconst && rk != 0 {
				return avInt(lk / rk)
			}
			if rconst && rk > 0 && !lr.empty() && lr.min() >= 0 {
				return e.derived(st, fmt.Sprintf("(%s/%d)", l.name(), rk), iset{{lr.min() / rk, lr.max() / rk}}, t)
			}
		case token.REM:
			if lconst && rconst && rk != 0 {
				return avInt(lk % rk)
			}
			if rconst && rk > 0 && !lr.empty() && lr.min() >= 0 {
				return e.derived(st, fmt.Sprintf("(%s%%%d)", l.name(), rk), iset{{0, min64(rk-1, lr.max())}}, t)
			}
		case token.AND:
			if lconst && rconst {
				return avInt(lk & rk)
			}
			// mask with a non-negative constant
			if lconst && lk >= 0 {
				l, r, lr, rr, lk, rk, lconst, rconst = r, l, rr, lr, rk, lk, rconst, lconst
			}
			if rconst && rk >= 0 {
				if !lr.empty() && lr.min() >= 0 && lr.max() <= rk && (rk&(rk+1)) == 0 {
					return l // mask keeps every value of the range
				}
				img := iset{{0, rk}}
				if low := rk & -rk; rk > 0 && !lr.empty() && lr.min() >= 0 && (rk+low)&(rk+low-1) == 0 && lr.max() < rk+low {
					// run of high bits over a range below 2^w: the low k bits are cleared
					a, b := lr.min()/low*low, lr.max()/low*low
					if a == b {
						return avInt(a)
					}
					img = iset{{a, b}}
				}
				return e.derived(st, fmt.Sprintf("(%s&%d)", l.name(), rk), img, t)
			}
		case token.OR:
			if lconst && rconst {
				return avInt(lk | rk)
			}
			if lconst {
				l, r, lr, rr, lk, rk, lconst, rconst = r, l, rr, lr, rk, lk, rconst, lconst
			}
			if !lconst && !rconst {
				if a, ok := e.beCompose(st, l, r, t); ok {
					return a
				}
				if a, ok := e.beCompose(st, r, l, t); ok {
					return a
				}
			}
			if rconst && rk >= 0 && l.Kind == KLin && !lr.empty() && lr.min() >= 0 {
				// bits of the constant and of the range do not overlap: OR is +
				low := rk & -rk // lowest set bit
				if rk == 0 {
					return l
				}
				if lr.max() < low {
					l.K += rk
					return e.fit(st, l, t)
				}
				return e.derived(st, fmt.Sprintf("(%s|%d)", l.name(), rk), iset{{rk, rk | nextPow2Mask(lr.max())}}, t)
			}
		case token.SHR:
			if lconst && rconst && rk >= 0 && rk < 63 {
				return avInt(lk >> uint(rk))
			}
			if rconst && rk >= 0 && rk < 63 && !lr.empty() && lr.min() >= 0 {
				return e.derived(st, fmt.Sprintf("(%s>>%d)", l.name(), rk), iset{{lr.min() >> uint(rk), lr.max() >> uint(rk)}}, t)
			}
		case token.SHL:
			if lconst && rconst && rk >= 0 && rk < 62 {
				return e.wrap(avInt(lk<<uint(rk)), t)
			}
		case token.XOR, token.AND_NOT:
			if lconst && rconst {
				if x.Op == token.XOR {
					return avInt(lk ^ rk)
				}
				return avInt(lk &^ rk)
			}
		}
		if isIntType(t) {
			return e.derived(st, fmt.Sprintf("(%s%s%s)", l.name(), x.Op, r.name()), typeRange(t), t)
		}
	}
	if x.Op == token.ADD && isStringType(t) {
		if l.Kind == KStr && r.Kind == KStr {
			return avStr(l.S + r.S)
		}
	}
	return e.typed(st, fmt.Sprintf("(%s%s%s)", l.name(), x.Op, r.name()), t)
}

func nextPow2Mask(v int64) int64 {
	m := int64(1)
	for m <= v && m > 0 {
		m <<= 1
	}
	return m - 1
}

// wrap reduces a constant into the range of its (fixed-width) type.
func (e *Engine) wrap(a AV, t types.Type) AV {
	r := typeRange(t)
	if a.Kind == KInt && !r.contains(a.K) {
		if b, ok := t.Underlying().(*types.Basic); ok {
			switch b.Kind() {
			case types.Uint8:
				a.K &= 0xff
			case types.Uint16:
				a.K &= 0xffff
			case types.Uint32:
				a.K &= 0xffffffff
			}
		}
	}
	return a
}

// fit keeps a linear value when it provably stays within its type's range;
// otherwise a fresh term of the type's range is produced (wrap-around).
func (e *Engine) fit(st *State, a AV, t types.Type) AV {
	r, _ := e.linRange(st, a)
	if r.subsetOf(typeRange(t)) {
		return a
	}
	return e.derived(st, "wrap"+a.name(), typeRange(t), t)
}

func (e *Engine) convert(st *State, a AV, from, to types.Type) AV {
	if isIntType(to) && isIntType(from) {
		r, ok := e.linRange(st, a)
		if !ok {
			return e.typed(st, "conv("+a.name()+")", to)
		}
		if r.subsetOf(typeRange(to)) {
			return a
		}
		if a.Kind == KInt {
			return e.wrap(a, to)
		}
		return e.derived(st, fmt.Sprintf("conv(%s,%s)", to.String(), a.name()), typeRange(to), to)
	}
	// conversions that re-encode the content — string <-> []rune, integer -> string — give a new
	// value whose length is not the operand's: []rune(s) has between ceil(len(s)/4) and len(s)
	// elements, string(runes) between len and 4*len bytes, string(int) between 1 and 4 bytes.
	if kind := reencodingConversion(from, to); kind != 0 {
		name := "reenc(" + types.TypeString(to, nil) + "," + a.name() + ")"
		r := iset{{0, maxI}}
		if kind == reencIntToString {
			r = iset{{1, 4}}
		} else if lr, ok := e.linRange(st, e.lenTerm(st, a)); ok && !lr.empty() {
			mn, mx := lr.min(), lr.max()
			nlo, nhi := int64(0), int64(maxI)
			if kind == reencStringToRunes { // divide
				nlo = (mn + 3) / 4
				nhi = mx
			} else { // []rune -> string: multiply (invalid runes become 3 bytes)
				nlo = mn
				if mx < maxI/4 {
					nhi = mx * 4
				}
			}
			r = iset{{nlo, nhi}}
		}
		st.terms["len("+name+")"] = r
		return AV{Kind: KSym, Sym: name, NonNil: false}
	}
	// string <-> []byte, named byte-slice conversions keep identity of content
	switch a.Kind {
	case KStr:
		if isStringType(to) {
			return a
		}
		var el []AV
		for _, c := range []byte(a.S) {
			el = append(el, avInt(int64(c)))
		}
		return AV{Kind: KSeq, Elems: el}
	}
	return a
}

const (
	reencStringToRunes = 1 + iota
	reencRunesToString
	reencIntToString
)

// reencodingConversion classifies the conversions whose result is not the operand's bytes:
// string -> []rune (or any non-byte element type), the reverse, and integer -> string.
func reencodingConversion(from, to types.Type) int {
	nonByteSlice := func(t types.Type) bool {
		sl, ok := t.Underlying().(*types.Slice)
		if !ok {
			return false
		}
		b, ok := sl.Elem().Underlying().(*types.Basic)
		return ok && b.Kind() != types.Uint8 && b.Info()&types.IsInteger != 0
	}
	switch {
	case isStringType(from) && nonByteSlice(to):
		return reencStringToRunes
	case nonByteSlice(from) && isStringType(to):
		return reencRunesToString
	case isIntType(from) && isStringType(to):
		return reencIntToString
	}
	return 0
}

func (e *Engine) compare(st *State, op token.Token, l, r AV, t types.Type) AV {
	// integers
	if (l.Kind == KInt || l.Kind == KLin) && (r.Kind == KInt || r.Kind == KLin) {
		switch {
		case l.Kind == KInt && r.Kind == KInt:
			return avBool(cmpSet(op, r.K).contains(l.K))
		case l.Kind == KLin && r.Kind == KInt:
			return AV{Kind: KCmp, Term: l.Term, Op: op, K: r.K - l.K}
		case l.Kind == KInt && r.Kind == KLin:
			return AV{Kind: KCmp, Term: r.Term, Op: swapOp(op), K: l.K - r.K}
		default:
			if l.Term == r.Term {
				return avBool(cmpSet(op, r.K).contains(l.K))
			}
			if k, ok := st.terms[r.Term].singleton(); ok {
				return AV{Kind: KCmp, Term: l.Term, Op: op, K: k + r.K - l.K}
			}
			if k, ok := st.terms[l.Term].singleton(); ok {
				return AV{Kind: KCmp, Term: r.Term, Op: swapOp(op), K: k + l.K - r.K}
			}
			// decided by ranges?
			lr, _ := e.linRange(st, l)
			rr, _ := e.linRange(st, r)
			if !lr.empty() && !rr.empty() {
				switch op {
				case token.LSS:
					if lr.max() < rr.min() {
						return avBool(true)
					}
					if lr.min() >= rr.max() {
						return avBool(false)
					}
				case token.LEQ:
					if lr.max() <= rr.min() {
						return avBool(true)
					}
					if lr.min() > rr.max() {
						return avBool(false)
					}
				case token.GTR:
					if lr.min() > rr.max() {
						return avBool(true)
					}
					if lr.max() <= rr.min() {
						return avBool(false)
					}
				case token.GEQ:
					if lr.min() >= rr.max() {
						return avBool(true)
					}
					if lr.max() < rr.min() {
						return avBool(false)
					}
				}
			}
			return e.relAtom(op, l, r)
		}
	}
	// nil comparisons
	if l.Kind == KNil || r.Kind == KNil {
		o := l
		if l.Kind == KNil {
			o = r
		}
		if o.Kind == KNil {
			return avBool(op == token.EQL)
		}
		switch st.NilOf(o) {
		case 1:
			return avBool(op == token.NEQ)
		case -1:
			return avBool(op == token.EQL)
		}
		return AV{Kind: KAtom, Sym: "nil(" + o.name() + ")", Neg: op == token.NEQ}
	}
	// strings
	if isStringType(t) {
		if l.Kind == KStr && r.Kind == KStr {
			switch op {
			case token.EQL:
				return avBool(l.S == r.S)
			case token.NEQ:
				return avBool(l.S != r.S)
			}
		}
		if r.Kind == KStr && r.S == "" && l.Kind == KSym {
			lt := e.lenTerm(st, l)
			return e.compare(st, op, lt, avInt(0), types.Typ[types.Int])
		}
		if l.Kind == KStr && l.S == "" && r.Kind == KSym {
			lt := e.lenTerm(st, r)
			return e.compare(st, swapOp(op), lt, avInt(0), types.Typ[types.Int])
		}
	}
	if l.Kind == KBool && r.Kind == KBool {
		return avBool((l.B == r.B) == (op == token.EQL))
	}
	return e.relAtom(op, l, r)
}

func (e *Engine) relAtom(op token.Token, l, r AV) AV {
	a, b := l.name(), r.name()
	switch op {
	case token.EQL, token.NEQ:
		if a > b {
			a, b = b, a
		}
		return AV{Kind: KAtom, Sym: "eq(" + a + "," + b + ")", Neg: op == token.NEQ}
	case token.LSS:
		return AV{Kind: KAtom, Sym: "lt(" + a + "," + b + ")"}
	case token.GEQ:
		return AV{Kind: KAtom, Sym: "lt(" + a + "," + b + ")", Neg: true}
	case token.GTR:
		return AV{Kind: KAtom, Sym: "lt(" + b + "," + a + ")"}
	case token.LEQ:
		return AV{Kind: KAtom, Sym: "lt(" + b + "," + a + ")", Neg: true}
	}
	return AV{Kind: KAtom, Sym: "rel(" + a + op.String() + b + ")"}
}

// lenTerm returns the integer term for len(x).
func (e *Engine) lenTerm(st *State, a AV) AV {
	switch a.Kind {
	case KStr:
		return avInt(int64(len(a.S)))
	case KSeq:
		return avInt(int64(len(a.Elems)))
	case KSliceOf:
		return avInt(int64(a.N))
	case KNil, KZero:
		return avInt(0)
	}
	if a.Kind == KSym && a.Inner != nil && strings.HasPrefix(a.Sym, "makeslice(") && (a.Inner.Kind == KInt || a.Inner.Kind == KLin) {
		return *a.Inner
	}
	name := a.name()
	// len(slice(s,lo,)) = len(s) - lo
	if strings.HasPrefix(name, "slice(") {
		if base, lo, hi, ok := parseSliceSym(name); ok {
			if hi == "" {
				if k, err := parseInt(lo); err == nil {
					inner := e.lenTerm(st, AV{Kind: KSym, Sym: base})
					if inner.Kind == KLin {
						inner.K -= k
						return inner
					}
				}
			} else if kh, err := parseInt(hi); err == nil {
				if kl, err2 := parseInt(lo); err2 == nil {
					return avInt(kh - kl)
				}
			}
		}
	}
	t := "len(" + name + ")"
	if _, ok := st.terms[t]; !ok {
		st.terms[t] = iset{{0, maxI}}
	}
	return AV{Kind: KLin, Term: t}
}

func parseInt(s string) (int64, error) {
	if s == "" {
		return 0, nil
	}
	var k int64
	_, err := fmt.Sscanf(s, "%d", &k)
	if err != nil {
		return 0, err
	}
	if fmt.Sprint(k) != s {
		return 0, fmt.Errorf("not a plain integer")
	}
	return k, nil
}

// parseSliceSym splits "slice(base,lo,hi)" at top-level commas.
func parseSliceSym(s string) (base, lo, hi string, ok bool) {
	if !strings.HasPrefix(s, "slice(") || !strings.HasSuffix(s, ")") {
		return
	}
	body := s[len("slice(") : len(s)-1]
	depth := 0
	var parts []string
	last := 0
	for i, c := range body {
		switch c {
		case '(', '[':
			depth++
		case ')', ']':
			depth--
		case ',':
			if depth == 0 {
				parts = append(parts, body[last:i])
				last = i + 1
			}
		}
	}
	parts = append(parts, body[last:])
	if len(parts) != 3 {
		return
	}
	return parts[0], parts[1], parts[2], true
}

func (e *Engine) slice(st *State, x *ssa.Slice) AV {
	base := e.eval(st, x.X)
	lo, hi := "", ""
	if x.Low != nil {
		lo = e.eval(st, x.Low).name()
		if lo == "0" {
			lo = ""
		}
	}
	if x.High != nil {
		hi = e.eval(st, x.High).name()
	}
	switch base.Kind {
	case KAddr: // slicing an array through its pointer
		if pt, ok := x.X.Type().Underlying().(*types.Pointer); ok {
			if at, ok := pt.Elem().Underlying().(*types.Array); ok && lo == "" && hi == "" {
				return AV{Kind: KSliceOf, Loc: base.Loc, N: int(at.Len()), Src: x}
			}
		}
	case KSeq:
		l, h := int64(0), int64(len(base.Elems))
		var err1, err2 error
		if lo != "" {
			l, err1 = parseInt(lo)
		}
		if hi != "" {
			h, err2 = parseInt(hi)
		}
		if err1 == nil && err2 == nil && 0 <= l && l <= h && h <= int64(len(base.Elems)) {
			return AV{Kind: KSeq, Elems: append([]AV(nil), base.Elems[l:h]...)}
		}
	case KStr:
		l, h := int64(0), int64(len(base.S))
		var err1, err2 error
		if lo != "" {
			l, err1 = parseInt(lo)
		}
		if hi != "" {
			h, err2 = parseInt(hi)
		}
		if err1 == nil && err2 == nil && 0 <= l && l <= h && h <= int64(len(base.S)) {
			return avStr(base.S[l:h])
		}
	}
	if lo == "" && hi == "" && x.Max == nil {
		return base
	}
	a := AV{Kind: KSym, Sym: fmt.Sprintf("slice(%s,%s,%s)", base.name(), lo, hi), Src: x}
	if base.nilness() > 0 || base.NonNil {
		a.NonNil = true
	}
	return a
}

func (e *Engine) typeAssert(st *State, x *ssa.TypeAssert) AV {
	a := e.eval(st, x.X)
	if a.Kind == KIface && a.Dyn != nil && a.Inner != nil {
		okk := false
		if types.IsInterface(x.AssertedType) {
			okk = types.Implements(a.Dyn, x.AssertedType.Underlying().(*types.Interface))
			if okk {
				if x.CommaOk {
					return AV{Kind: KTuple, Elems: []AV{a, avBool(true)}}
				}
				return a
			}
		} else {
			okk = types.Identical(a.Dyn, x.AssertedType)
			if okk {
				if x.CommaOk {
					return AV{Kind: KTuple, Elems: []AV{*a.Inner, avBool(true)}}
				}
				return *a.Inner
			}
		}
		if x.CommaOk {
			return AV{Kind: KTuple, Elems: []AV{zeroAV(x.AssertedType), avBool(false)}}
		}
	}
	n := fmt.Sprintf("assert(%s,%s)", a.name(), x.AssertedType.String())
	v := e.typed(st, n, x.AssertedType)
	if x.CommaOk {
		return AV{Kind: KTuple, Elems: []AV{v, {Kind: KAtom, Sym: "ok:" + n}}}
	}
	return v
}

// ---------- calls ----------

func calleeName(c *ssa.CallCommon) string {
	if c.IsInvoke() {
		return "invoke " + c.Value.Type().String() + "." + c.Method.Name()
	}
	if f := c.StaticCallee(); f != nil {
		return f.String()
	}
	if b, ok := c.Value.(*ssa.Builtin); ok {
		return "builtin " + b.Name()
	}
	return "dynamic"
}

func (e *Engine) onStack(fn *ssa.Function) bool {
	for _, f := range e.stack {
		if f == fn {
			return true
		}
	}
	return false
}

func (e *Engine) call(st *State, x *ssa.Call) ([]*State, []Path) {
	c := &x.Call
	if b, ok := c.Value.(*ssa.Builtin); ok {
		st.env[x] = e.builtin(st, x, b)
		return []*State{st}, nil
	}
	var args []AV
	var recv *AV
	var callee *ssa.Function
	var binds []AV // values bound to the callee's free variables (closures)
	if c.IsInvoke() {
		r := e.eval(st, c.Value)
		recv = &r
		if r.Kind == KIface && r.Dyn != nil && r.Inner != nil {
			callee = e.w.methodOf(r.Dyn, c.Method.Name())
			if callee != nil {
				args = append(args, *r.Inner)
			}
		}
	} else if f := c.StaticCallee(); f != nil {
		callee = f
		if mc, ok := c.Value.(*ssa.MakeClosure); ok {
			if fv := e.eval(st, mc); fv.Kind == KFunc {
				binds = fv.Elems
			}
		}
	} else if fv := e.eval(st, c.Value); fv.Kind == KFunc && fv.Fn != nil && len(fv.Fn.FreeVars) == len(fv.Elems) {
		callee = fv.Fn
		binds = fv.Elems
	}
	for _, a := range c.Args {
		args = append(args, e.eval(st, a))
	}
	name := calleeName(c)
	if callee != nil {
		name = callee.String()
	}
	// a bound method value (x.M passed around as a function): the call is the
	// method call on the bound receiver
	method := ""
	if callee != nil && strings.HasSuffix(callee.Name(), "$bound") && len(callee.FreeVars) == 1 && len(binds) == 1 {
		rt := callee.FreeVars[0].Type()
		mname := strings.TrimSuffix(callee.Name(), "$bound")
		r := binds[0]
		if types.IsInterface(rt) {
			recv, callee, binds, method = &r, nil, nil, mname
			name = "invoke " + rt.String() + "." + mname
			if r.Kind == KIface && r.Dyn != nil && r.Inner != nil {
				if m := e.w.methodOf(r.Dyn, mname); m != nil {
					callee, name = m, m.String()
					args = append([]AV{*r.Inner}, args...)
				}
			}
		} else if m := e.w.methodOf(rt, mname); m != nil {
			callee, binds, name = m, nil, m.String()
			args = append([]AV{r}, args...)
		}
	}

	// a snapshot of the register is the register, as far as reading goes
	if callee != nil {
		for g, fns := range regCopyMemo {
			if fns[callee] {
				if fi, wrapped := regFieldMemo[g]; wrapped {
					fname := g.Type().(*types.Pointer).Elem().Underlying().(*types.Struct).Field(fi).Name()
					st.env[x] = e.load(st, locJoin(ensureSel("G:"+globalName(g)), "."+fname), x.Type())
				} else {
					st.env[x] = e.load(st, "G:"+globalName(g), x.Type())
				}
				return []*State{st}, nil
			}
		}
	}

	// unwrap synthetic wrappers (e.g. (*T).M wrapper around (T).M)
	inlinable := callee != nil && callee.Blocks != nil && e.w.Inlinable(callee) && !e.NoInline[callee] &&
		len(e.stack) < e.MaxDepth && !e.onStack(callee) && len(callee.FreeVars) == len(binds)
	if inlinable {
		if next, done, ok := e.inlineCall(st, x, x, callee, binds, args); ok {
			return next, done
		}
		if e.Err != nil {
			return nil, nil
		}
		// fall through: treat as opaque
	}

	// a recognised lazy initialisation: what F builds is part of base memory
	// (BaseMem), the call itself changes nothing a reader can tell
	if x.Call.StaticCallee() != nil && e.w.onceOfDo(&x.Call) != nil && !e.w.onceBuilding {
		st.env[x] = AV{Kind: KTuple}
		return []*State{st}, nil
	}
	// once.Do(f): f runs here or has run before; for what the call can do, it runs
	if name == "(*sync.Once).Do" && len(args) == 2 && args[1].Kind == KFunc && args[1].Fn != nil && args[1].Fn.Blocks != nil &&
		e.w.Inlinable(args[1].Fn) && len(args[1].Fn.FreeVars) == len(args[1].Elems) && len(e.stack) < e.MaxDepth && !e.onStack(args[1].Fn) {
		if next, done, ok := e.inlineCall(st, x, nil, args[1].Fn, args[1].Elems, nil); ok {
			for _, ns := range next {
				ns.env[x] = AV{Kind: KTuple}
			}
			return next, done
		}
		if e.Err != nil {
			return nil, nil
		}
	}
	e.boundMethod = method
	res := e.opaqueCall(st, x, name, callee, recv, args)
	e.boundMethod = ""
	st.env[x] = res
	return []*State{st}, nil
}

// inlineCall runs callee from a copy of st with the given arguments and
// closure bindings and hands back the states at its returns (result bound to
// key when key is not nil). ok=false: the callee could not be followed to its
// end (cut paths, generalised loops when those stay opaque) — the caller
// treats the call as opaque.
func (e *Engine) inlineCall(st *State, x ssa.Instruction, key ssa.Value, callee *ssa.Function, binds, args []AV) ([]*State, []Path, bool) {
	sub := st.clone()
	sub.depth++
	for i, fvv := range callee.FreeVars {
		sub.env[fvv] = binds[i]
	}
	sub.events = append(sub.events, Event{Kind: "enter", Callee: callee.String(), Method: callee.Name(), Args: args, Instr: x, Fn: x.Parent(), Static: callee, Depth: len(e.stack) - 1})
	paths := e.Run(callee, sub, args)
	ok := e.Err == nil
	for _, p := range paths {
		if p.Cut != nil || p.Stop != nil {
			ok = false
		}
		if p.Loop != nil && !e.InlineLoops {
			ok = false
		}
	}
	if !ok {
		return nil, nil, false
	}
	var next []*State
	var done []Path
	for _, p := range paths {
		if p.Panic != nil || p.Loop != nil {
			done = append(done, p)
			continue
		}
		ns := p.St
		ns.depth--
		ns.events = append(ns.events, Event{Kind: "leave", Callee: callee.String(), Method: callee.Name(), Args: p.Rets, Instr: x, Fn: x.Parent(), Static: callee, Depth: len(e.stack) - 1})
		if key != nil {
			switch len(p.Rets) {
			case 0:
			case 1:
				ns.env[key] = p.Rets[0]
			default:
				ns.env[key] = AV{Kind: KTuple, Elems: p.Rets}
			}
		}
		next = append(next, ns)
	}
	return next, done, true
}

// deferRec: a deferred call, with function value and arguments evaluated when
// the defer statement ran.
type deferRec struct {
	frame  *ssa.Function
	depth  int
	instr  *ssa.Defer
	callee *ssa.Function
	binds  []AV
	args   []AV
}

// deferCall records a defer statement. Only calls of in-repo functions and
// closures are followed (at RunDefers); anything else is outside the fragment.
func (e *Engine) deferCall(st *State, x *ssa.Defer) {
	c := x.Common()
	rec := deferRec{frame: x.Parent(), depth: st.depth, instr: x}
	switch {
	case c.IsInvoke():
		st.unsupported = "deferred interface method call outside the fragment"
		return
	case c.StaticCallee() != nil && isLockOp(c.StaticCallee().String()):
		return // releasing a lock changes nothing the engine models
	case c.StaticCallee() != nil:
		rec.callee = c.StaticCallee()
		if mc, ok := c.Value.(*ssa.MakeClosure); ok {
			if fv := e.eval(st, mc); fv.Kind == KFunc {
				rec.binds = fv.Elems
			}
		}
	default:
		if fv := e.eval(st, c.Value); fv.Kind == KFunc && fv.Fn != nil {
			rec.callee, rec.binds = fv.Fn, fv.Elems
		}
	}
	if rec.callee == nil || rec.callee.Blocks == nil || !e.w.Inlinable(rec.callee) || len(rec.callee.FreeVars) != len(rec.binds) {
		st.unsupported = "deferred call of a function that is not followed (" + calleeName(c) + ")"
		return
	}
	for _, a := range c.Args {
		rec.args = append(rec.args, e.eval(st, a))
	}
	st.defers = append(st.defers, rec)
}

// runDefers executes, last first, the calls deferred by the current frame.
func (e *Engine) runDefers(st *State, x *ssa.RunDefers) ([]*State, []Path) {
	states := []*State{st}
	var done []Path
	for {
		// the innermost pending record of this frame (all states share the
		// same defer stack shape up to here: they descend from one state)
		idx := -1
		for i := len(states[0].defers) - 1; i >= 0; i-- {
			r := states[0].defers[i]
			if r.frame == x.Parent() && r.depth == states[0].depth {
				idx = i
				break
			}
		}
		if idx < 0 {
			return states, done
		}
		var next []*State
		for _, s := range states {
			if idx >= len(s.defers) {
				s.unsupported = "defer stacks diverged"
				next = append(next, s)
				continue
			}
			rec := s.defers[idx]
			s.defers = append(append([]deferRec(nil), s.defers[:idx]...), s.defers[idx+1:]...)
			if len(e.stack) >= e.MaxDepth || e.onStack(rec.callee) {
				s.unsupported = "deferred call too deep to follow"
				next = append(next, s)
				continue
			}
			ns, dn, ok := e.inlineCall(s, rec.instr, nil, rec.callee, rec.binds, rec.args)
			if !ok {
				if e.Err != nil {
					return nil, nil
				}
				s.unsupported = "deferred call could not be followed to its end (" + rec.callee.String() + ")"
				next = append(next, s)
				continue
			}
			next = append(next, ns...)
			done = append(done, dn...)
		}
		if len(next) == 0 {
			return nil, done
		}
		states = next
	}
}

// oracleCallee: the callee of the dynamic call the engine is currently asking
// its oracles about (nil: resolve from the call site).
var oracleCallee *ssa.Function

func (e *Engine) resultAV(st *State, x *ssa.Call, base string, nonNil []bool) AV {
	sig := x.Call.Signature()
	rs := sig.Results()
	mk := func(i int, t types.Type, name string) AV {
		a := e.typed(st, name, t)
		if i < len(nonNil) && nonNil[i] {
			a.NonNil = true
		}
		a.Src = x
		return a
	}
	switch rs.Len() {
	case 0:
		return AV{Kind: KTuple}
	case 1:
		return mk(0, rs.At(0).Type(), base)
	}
	var el []AV
	for i := 0; i < rs.Len(); i++ {
		el = append(el, mk(i, rs.At(i).Type(), fmt.Sprintf("%s#%d", base, i)))
	}
	return AV{Kind: KTuple, Elems: el}
}

func (e *Engine) opaqueCall(st *State, x *ssa.Call, name string, callee *ssa.Function, recv *AV, args []AV) AV {
	ev := Event{Kind: "call", Callee: name, Recv: recv, Args: args, Instr: x, Fn: x.Parent(), Static: callee, Depth: len(e.stack) - 1}
	if x.Call.IsInvoke() {
		ev.Method = x.Call.Method.Name()
	} else if e.boundMethod != "" {
		ev.Method = e.boundMethod
	} else if callee != nil {
		ev.Method = callee.Name()
	}
	full := args
	if recv != nil {
		full = append([]AV{*recv}, args...)
	}
	var res AV
	m, has := lookupModel(name)
	switch {
	case has && m.Custom != nil:
		res = m.Custom(e, st, x, full)
	case has && m.Pure:
		var names []string
		for _, a := range full {
			names = append(names, a.name())
		}
		res = e.resultAV(st, x, shortName(name)+"("+strings.Join(names, ",")+")", m.NonNil)
	case has:
		for _, i := range m.Writes {
			if i < len(full) {
				e.havocPointee(st, full[i], shortName(name))
			}
		}
		res = e.resultAV(st, x, fmt.Sprintf("%s#%s.%s@%s", shortName(name), x.Parent().Name(), x.Name(), st.inst()), m.NonNil)
	default:
		// in-repo call that was not inlined (interface invoke, recursion,
		// loops): consult effect summaries of every possible callee
		writes, known := true, false
		if e.Effects != nil {
			cs := e.w.Callees(x)
			if callee != nil {
				cs = []*ssa.Function{callee}
			}
			if len(cs) > 0 {
				writes, known = false, true
				for _, f := range cs {
					if !e.w.InRepo(f) {
						known = false
						break
					}
					wr, k := e.Effects(f)
					if !k {
						known = false
						break
					}
					writes = writes || wr
				}
			}
		}
		inRepoTarget := (callee != nil && e.w.InRepo(callee)) || (x.Call.IsInvoke() && e.w.InRepoPath(pkgPathOfType(x.Call.Value.Type())))
		if !known && !inRepoTarget && isStdlibCallee(name) {
			// standard-library default (see effects.go): only what is handed in
			// by pointer / slice / map may be written
			for i, a := range full {
				var at types.Type
				if recv != nil && i == 0 {
					at = x.Call.Value.Type()
				} else {
					j := i
					if recv != nil {
						j--
					}
					if j < len(x.Call.Args) {
						at = x.Call.Args[j].Type()
					}
				}
				if at == nil {
					continue
				}
				switch at.Underlying().(type) {
				case *types.Pointer, *types.Slice, *types.Map:
					e.havocPointee(st, a, shortName(name))
				}
			}
			res = e.resultAV(st, x, fmt.Sprintf("%s#%s.%s@%s", shortName(name), x.Parent().Name(), x.Name(), st.inst()), nil)
			ev.Result = res
			st.events = append(st.events, ev)
			return res
		}
		if !known {
			writes = true
		}
		if !inRepoTarget {
			ev.Unmodelled = true
		}
		if writes {
			// per argument: the callee(s) may change the argument's immediate
			// pointee only if some summary says so (a callee that writes through
			// a pointer it loads from the struct leaves the struct's fields alone)
			var shallow []bool
			if known && e.Effects != nil {
				cs := e.w.Callees(x)
				if callee != nil {
					cs = []*ssa.Function{callee}
				}
				oracle := e.w.ShallowWritesOracle()
				for ci, f := range cs {
					sw := oracle(f)
					if sw == nil || len(sw) < len(full) {
						shallow = nil
						break
					}
					if ci == 0 {
						shallow = make([]bool, len(full))
					}
					for i := range full {
						shallow[i] = shallow[i] || sw[i]
					}
				}
			}
			for i, a := range full {
				if shallow != nil && !shallow[i] {
					continue
				}
				e.havocPointee(st, a, shortName(name))
			}
			if inRepoTarget || known {
				e.havocAll(st)
			}
			// an external callee without a model can write what it is handed
			// (done above) and its own package's state, but cannot reach this
			// repository's memory that is not reachable from its arguments
		}
		res = e.resultAV(st, x, fmt.Sprintf("%s#%s.%s@%s", shortName(name), x.Parent().Name(), x.Name(), st.inst()), nil)
		// the oracles resolve the callee from the call site; a call through a
		// function value that this path has resolved is handed over here
		savedCallee := oracleCallee
		oracleCallee = nil
		if x.Call.StaticCallee() == nil && !x.Call.IsInvoke() {
			oracleCallee = callee
		}
		defer func() { oracleCallee = savedCallee }()
		if e.NonNilResult != nil {
			rs := x.Call.Signature().Results()
			for i := 0; i < rs.Len(); i++ {
				if !isNilable(rs.At(i).Type()) || isErrorType(rs.At(i).Type()) {
					continue
				}
				if e.NonNilResult(x, i) {
					if rs.Len() == 1 {
						res.NonNil = true
					} else if res.Kind == KTuple && i < len(res.Elems) {
						res.Elems[i].NonNil = true
					}
				}
			}
		}
		if e.NonNilOnSuccess != nil && res.Kind == KTuple {
			rs := x.Call.Signature().Results()
			ei := rs.Len() - 1
			if ei >= 1 && isErrorType(rs.At(ei).Type()) && ei < len(res.Elems) {
				for i := 0; i < ei; i++ {
					if !isNilable(rs.At(i).Type()) || res.Elems[i].NonNil {
						continue
					}
					if e.NonNilOnSuccess(x, i) {
						if st.impl == nil {
							st.impl = map[string][]string{}
						}
						k := "nil(" + res.Elems[ei].name() + ")"
						st.impl[k] = append(st.impl[k], "nil("+res.Elems[i].name()+")")
					}
				}
			}
		}
		if e.ErrClasses != nil {
			rs := x.Call.Signature().Results()
			for i := 0; i < rs.Len(); i++ {
				if !isErrorType(rs.At(i).Type()) {
					continue
				}
				cls := e.ErrClasses(x, i)
				if rs.Len() == 1 {
					res.Cls = cls
				} else if res.Kind == KTuple && i < len(res.Elems) {
					res.Elems[i].Cls = cls
				}
			}
		}
	}
	ev.Result = res
	st.events = append(st.events, ev)
	return res
}

func pkgPathOfType(t types.Type) string {
	if p, ok := t.(*types.Pointer); ok {
		t = p.Elem()
	}
	if n, ok := t.(*types.Named); ok && n.Obj().Pkg() != nil {
		return n.Obj().Pkg().Path()
	}
	return ""
}

// shortName strips package paths from a callee name.
func shortName(n string) string {
	n = strings.TrimPrefix(n, "invoke ")
	var b strings.Builder
	seg := 0
	for i := 0; i < len(n); i++ {
		if n[i] == '/' {
			// drop everything of the current path segment run
			s := b.String()
			b.Reset()
			b.WriteString(s[:seg])
			continue
		}
		if n[i] == '(' || n[i] == '*' || n[i] == ' ' {
			b.WriteByte(n[i])
			seg = b.Len()
			continue
		}
		b.WriteByte(n[i])
	}
	return b.String()
}

func (e *Engine) builtin(st *State, x *ssa.Call, b *ssa.Builtin) AV {
	var args []AV
	for _, a := range x.Call.Args {
		args = append(args, e.eval(st, a))
	}
	switch b.Name() {
	case "len":
		return e.lenTerm(st, args[0])
	case "cap":
		return e.typed(st, "cap("+args[0].name()+")", x.Type())
	case "append":
		base := args[0]
		if len(args) == 1 {
			return base
		}
		add := args[1]
		var elems []AV
		known := false
		switch add.Kind {
		case KSliceOf:
			known = true
			for i := 0; i < add.N; i++ {
				et := x.Type().Underlying().(*types.Slice).Elem()
				elems = append(elems, e.load(st, locJoin(ensureSel(add.Loc), fmt.Sprintf("[%d]", i)), et))
			}
		case KSeq:
			known = true
			elems = add.Elems
		case KStr:
			known = true
			for _, c := range []byte(add.S) {
				elems = append(elems, avInt(int64(c)))
			}
		case KNil:
			known = true
		}
		if known {
			switch base.Kind {
			case KNil, KZero:
				return AV{Kind: KSeq, Elems: elems, Src: x}
			case KSeq:
				return AV{Kind: KSeq, Elems: append(append([]AV(nil), base.Elems...), elems...), Src: x}
			case KSliceOf:
				// a slice literal (len == cap): the result is a new sequence of its
				// elements followed by the appended ones
				if base.N <= 16 && isLocal(base.Loc) {
					et := x.Type().Underlying().(*types.Slice).Elem()
					var pre []AV
					for i := 0; i < base.N; i++ {
						pre = append(pre, e.load(st, locJoin(ensureSel(base.Loc), fmt.Sprintf("[%d]", i)), et))
					}
					return AV{Kind: KSeq, Elems: append(pre, elems...), Src: x}
				}
			case KSym:
				// a fresh make([]T, 0, cap): an empty sequence whatever its capacity
				if len(elems) > 0 && strings.HasPrefix(base.Sym, "makeslice(") && base.Inner != nil && base.Inner.Kind == KInt && base.Inner.K == 0 {
					return AV{Kind: KSeq, Elems: elems, Src: x}
				}
			}
			var names []string
			for _, el := range elems {
				names = append(names, el.name())
			}
			st.events = append(st.events, Event{Kind: "call", Callee: "builtin append", Method: "append", Args: []AV{base, {Kind: KSeq, Elems: elems}}, Instr: x, Fn: x.Parent(), Depth: len(e.stack) - 1})
			return AV{Kind: KSym, Sym: "append(" + base.name() + ",[" + strings.Join(names, " ") + "])", NonNil: len(elems) > 0, Src: x}
		}
		st.events = append(st.events, Event{Kind: "call", Callee: "builtin append", Method: "append", Args: args, Instr: x, Fn: x.Parent(), Depth: len(e.stack) - 1})
		return AV{Kind: KSym, Sym: "append(" + base.name() + "," + add.name() + "...)", Src: x}
	case "recover":
		// a recovered panic makes the enclosing function return its results as
		// they stand at the point of the panic — from any call or access on the
		// way. Those ways out are not modelled: the path is outside the fragment
		// (every rule built on the function's paths then reports undecided)
		st.unsupported = "recover() outside the fragment (ways out through a recovered panic are not modelled)"
		return e.typed(st, fmt.Sprintf("recover#%s@%d", x.Name(), st.epoch), x.Type())
	case "copy":
		e.havocPointee(st, args[0], "copy")
		st.events = append(st.events, Event{Kind: "call", Callee: "builtin copy", Method: "copy", Args: args, Instr: x, Fn: x.Parent(), Depth: len(e.stack) - 1})
		return e.typed(st, fmt.Sprintf("copy#%s@%d", x.Name(), st.epoch), x.Type())
	case "delete":
		st.events = append(st.events, Event{Kind: "call", Callee: "builtin delete", Method: "delete", Args: args, Instr: x, Fn: x.Parent(), Depth: len(e.stack) - 1})
		return AV{Kind: KTuple}
	case "min", "max":
		if len(args) == 2 && args[0].Kind == KInt && args[1].Kind == KInt {
			if (b.Name() == "min") == (args[0].K < args[1].K) {
				return args[0]
			}
			return args[1]
		}
		if len(args) == 2 && isIntType(x.Type()) {
			// a fresh term related to both operands: min(a,b) <= a, min(a,b) <= b
			r0, ok0 := e.linRange(st, args[0])
			r1, ok1 := e.linRange(st, args[1])
			if ok0 && ok1 && !r0.empty() && !r1.empty() {
				name := b.Name() + "(" + args[0].name() + "," + args[1].name() + ")"
				var rng iset
				if b.Name() == "min" {
					rng = iset{{min64(r0.min(), r1.min()), min64(r0.max(), r1.max())}}
				} else {
					rng = iset{{max64(r0.min(), r1.min()), max64(r0.max(), r1.max())}}
				}
				res := e.derived(st, name, rng, x.Type())
				for _, a := range args {
					if a.Kind != KLin {
						continue
					}
					if b.Name() == "min" {
						st.atoms["lt("+a.name()+","+res.name()+")"] = false // res <= a
					} else {
						st.atoms["lt("+res.name()+","+a.name()+")"] = false // a <= res
					}
				}
				return res
			}
		}
	case "print", "println":
		return AV{Kind: KTuple}
	}
	var names []string
	for _, a := range args {
		names = append(names, a.name())
	}
	return e.typed(st, b.Name()+"("+strings.Join(names, ",")+")", x.Type())
}

// ---------- debugging ----------

func describePaths(w *World, paths []Path) []string {
	var lines []string
	for _, p := range paths {
		var rv []string
		for _, a := range p.Rets {
			rv = append(rv, a.String())
		}
		kind := "ret"
		switch {
		case p.Panic != nil:
			kind = "panic"
		case p.Cut != nil:
			kind = fmt.Sprintf("cut@b%d", p.Cut.Index)
			if p.St.unsupported != "" {
				kind += "(" + p.St.unsupported + ")"
			}
		case p.Stop != nil:
			kind = "stop"
		case p.Loop != nil:
			kind = fmt.Sprintf("loop@b%d", p.Loop.Index)
		}
		var evs []string
		for _, ev := range p.St.events {
			evs = append(evs, ev.String())
		}
		lines = append(lines, fmt.Sprintf("   [%s] %s -> (%s)\n        events: %s", kind, p.St.Describe(), strings.Join(rv, ", "), strings.Join(evs, "; ")))
	}
	sort.Strings(lines)
	return lines
}

func debugDump(w *World, name string) {
	var fn *ssa.Function
	for _, f := range w.Funcs {
		if f.String() == name || strings.HasSuffix(f.String(), name) {
			fn = f
			break
		}
	}
	if fn == nil && w.Whole {
		for f := range w.AllFuncs {
			if f.String() == name && f.Blocks != nil {
				fn = f
			}
		}
	}
	if fn == nil {
		fmt.Println("no such function; candidates:")
		for _, f := range w.Funcs {
			fmt.Println("  ", f.String())
		}
		return
	}
	e := NewEngine(w)
	e.Effects = w.EffectsOracle()
	paths := e.Run(fn, nil, nil)
	fmt.Println("==", fn.String(), "steps", e.steps, "err", e.Err)
	for _, l := range describePaths(w, paths) {
		fmt.Println(l)
	}
}

// ---------- loops ----------

type loopInfo struct {
	header   *ssa.BasicBlock
	blocks   map[*ssa.BasicBlock]bool
	locals   map[*ssa.Alloc]bool // local allocations the loop may write
	nonLocal bool                // the loop may write memory other than those
}

var loopCache = map[*ssa.BasicBlock]*loopInfo{}

func loopInfoOf(h *ssa.BasicBlock) *loopInfo {
	if li, ok := loopCache[h]; ok {
		return li
	}
	li := &loopInfo{header: h, blocks: map[*ssa.BasicBlock]bool{h: true}, locals: map[*ssa.Alloc]bool{}}
	var stack []*ssa.BasicBlock
	for _, p := range h.Preds {
		if h.Dominates(p) && !li.blocks[p] {
			li.blocks[p] = true
			stack = append(stack, p)
		}
	}
	for len(stack) > 0 {
		b := stack[len(stack)-1]
		stack = stack[:len(stack)-1]
		for _, p := range b.Preds {
			if !li.blocks[p] && h.Dominates(p) {
				li.blocks[p] = true
				stack = append(stack, p)
			}
		}
	}
	markAddr := func(a ssa.Value) {
		if al, ok := addrRootAlloc(a); ok {
			li.locals[al] = true
		} else {
			li.nonLocal = true
		}
	}
	for b := range li.blocks {
		for _, in := range b.Instrs {
			switch x := in.(type) {
			case *ssa.Store:
				markAddr(x.Addr)
			case *ssa.MapUpdate:
				li.nonLocal = true
			case ssa.CallInstruction:
				c := x.Common()
				if bi, ok := c.Value.(*ssa.Builtin); ok {
					switch bi.Name() {
					case "copy", "append", "delete", "clear":
						li.nonLocal = true
					}
					continue
				}
				name := calleeName(c)
				if m, ok := lookupModel(name); ok && m.Pure {
					continue
				}
				li.nonLocal = true
				for _, a := range c.Args {
					if al, ok := addrRootAlloc(stripIface(a)); ok {
						li.locals[al] = true
					}
				}
			}
		}
	}
	loopCache[h] = li
	return li
}

func allocLoc(x *ssa.Alloc) string {
	loc := "L:" + x.Parent().Name() + "." + x.Name()
	if x.Comment != "" {
		loc += "(" + x.Comment + ")"
	}
	return loc
}

// widenMemory forgets what the loop may have written.
func (e *Engine) widenMemory(st *State, li *loopInfo) {
	st.epoch++
	for al := range li.locals {
		e.havocPointee(st, AV{Kind: KAddr, Loc: allocLoc(al)}, "loop")
	}
	if li.nonLocal {
		e.havocAll(st)
	}
}

// widenPhi gives a φ-node of a generalised loop header a fresh value; for a
// monotone induction variable (constant start, constant positive/negative
// step) the start bounds it from below/above.
func (e *Engine) widenPhi(st *State, phi *ssa.Phi) AV {
	name := fmt.Sprintf("φ%s.%s@%d", phi.Parent().Name(), phi.Name(), st.epoch)
	a := e.typed(st, name, phi.Type())
	if a.Kind != KLin {
		return a
	}
	h := phi.Block()
	lo, hi := int64(minI), int64(maxI)
	haveInit, up, down := false, true, true
	for i, ed := range phi.Edges {
		if h.Dominates(h.Preds[i]) {
			bo, ok := ed.(*ssa.BinOp)
			if !ok || bo.X != ssa.Value(phi) {
				up, down = false, false
				continue
			}
			k, isK := constInt(bo.Y)
			switch {
			case isK && bo.Op == token.ADD && k >= 0, isK && bo.Op == token.SUB && k <= 0:
				down = false
			case isK && bo.Op == token.ADD && k < 0, isK && bo.Op == token.SUB && k > 0:
				up = false
			default:
				up, down = false, false
			}
		} else {
			v, isLin := e.linRange(st, e.eval(st, ed))
			if !isLin || v.empty() {
				up, down = false, false
				continue
			}
			if !haveInit || v.min() < lo {
				lo = v.min()
			}
			if !haveInit || v.max() > hi {
				hi = v.max()
			}
			haveInit = true
		}
	}
	if haveInit {
		switch {
		case up:
			st.terms[name] = inter(st.terms[name], iset{{lo, maxI}})
		case down:
			st.terms[name] = inter(st.terms[name], iset{{minI, hi}})
		}
	}
	return a
}

// refineParent: a derived term "(X>>k)" or "(X/k)" (X non-negative) has been
// restricted to `set`; restrict X to the pre-image. Exact for these monotone
// operators.
func refineParent(st *State, term string, set iset) {
	if !strings.HasPrefix(term, "(") || !strings.HasSuffix(term, ")") {
		return
	}
	body := term[1 : len(term)-1]
	var x string
	var k int64
	var mul int64
	if i := strings.LastIndex(body, ">>"); i > 0 {
		if _, err := fmt.Sscanf(body[i+2:], "%d", &k); err != nil || k < 0 || k > 40 || fmt.Sprint(k) != body[i+2:] {
			return
		}
		x, mul = body[:i], int64(1)<<uint(k)
	} else if i := strings.LastIndex(body, "/"); i > 0 {
		if _, err := fmt.Sscanf(body[i+1:], "%d", &k); err != nil || k <= 0 || fmt.Sprint(k) != body[i+1:] {
			return
		}
		x, mul = body[:i], k
	} else if i := strings.LastIndex(body, "&"); i > 0 {
		var m int64
		if _, err := fmt.Sscanf(body[i+1:], "%d", &m); err != nil || m <= 0 || fmt.Sprint(m) != body[i+1:] {
			return
		}
		refineMasked(st, body[:i], m, set)
		return
	} else {
		return
	}
	cur, ok := st.terms[x]
	if !ok || cur.empty() || cur.min() < 0 {
		return
	}
	var pre iset
	for _, iv0 := range set {
		lo, hi := iv0.lo, iv0.hi
		if lo < 0 {
			lo = 0
		}
		if hi < lo {
			continue
		}
		plo := lo * mul
		phi := int64(maxI)
		if hi < maxI/mul-1 {
			phi = (hi+1)*mul - 1
		}
		pre = append(pre, iv{plo, phi})
	}
	st.terms[x] = inter(cur, norm(pre))
}

// parseSliceName: "slice(X,lo,hi)" with constant (or empty) bounds.
func parseSliceName(n string) (root string, lo, hi int64, ok bool) {
	if !strings.HasPrefix(n, "slice(") || !strings.HasSuffix(n, ")") {
		return "", 0, 0, false
	}
	body := n[len("slice(") : len(n)-1]
	j := strings.LastIndexByte(body, ',')
	if j < 0 {
		return "", 0, 0, false
	}
	i := strings.LastIndexByte(body[:j], ',')
	if i < 0 {
		return "", 0, 0, false
	}
	root, los, his := body[:i], body[i+1:j], body[j+1:]
	if strings.Count(root, "(") != strings.Count(root, ")") {
		return "", 0, 0, false
	}
	hi = -1
	if los != "" {
		v, err := parseInt(los)
		if err != nil || v < 0 {
			return "", 0, 0, false
		}
		lo = v
	}
	if his != "" {
		v, err := parseInt(his)
		if err != nil || v < lo {
			return "", 0, 0, false
		}
		hi = v
	}
	return root, lo, hi, true
}

// byteRun: the term denotes bytes [i,j) of X read big-endian: a byte element
// "X[i]" (its range within 0..255) or "beN(slice(X,i,j))".
func byteRun(st *State, term string) (root string, i, j int64, ok bool) {
	if strings.HasPrefix(term, "be") {
		k := strings.IndexByte(term, '(')
		if k > 2 && strings.HasSuffix(term, ")") {
			bits, err := parseInt(term[2:k])
			if err == nil && bits%8 == 0 {
				if r, lo, hi, ok := parseSliceName(term[k+1 : len(term)-1]); ok && hi-lo == bits/8 {
					return r, lo, hi, true
				}
			}
		}
		return "", 0, 0, false
	}
	if !strings.HasSuffix(term, "]") {
		return "", 0, 0, false
	}
	k := strings.LastIndexByte(term, '[')
	if k <= 0 {
		return "", 0, 0, false
	}
	idx, err := parseInt(term[k+1 : len(term)-1])
	if err != nil || idx < 0 {
		return "", 0, 0, false
	}
	set, has := st.terms[term]
	if !has || set.empty() || set.min() < 0 || set.max() > 255 {
		return "", 0, 0, false
	}
	return term[:k], idx, idx + 1, true
}

// beCompose: (run(X,i,j) << 8) | byte X[j]  =  run(X,i,j+1), for runs of up to
// seven bytes — the hand-written form of encoding/binary's big-endian reads,
// given the same name as their model so that both spell one value.
func (e *Engine) beCompose(st *State, hiPart, loPart AV, t types.Type) (AV, bool) {
	if hiPart.Kind != KLin || hiPart.K != 0 || loPart.Kind != KLin || loPart.K != 0 {
		return AV{}, false
	}
	ht := hiPart.Term
	if !strings.HasPrefix(ht, "(") || !strings.HasSuffix(ht, "<<8)") {
		return AV{}, false
	}
	r1, i, j, ok1 := byteRun(st, ht[1:len(ht)-len("<<8)")])
	r2, j2, j3, ok2 := byteRun(st, loPart.Term)
	if !ok1 || !ok2 || r1 != r2 || j2 != j || j3 != j+1 || j+1-i > 7 {
		return AV{}, false
	}
	// the shifted part must not have been truncated by the operand type
	if tr := typeRange(t); tr.empty() || tr.max() < int64(1)<<uint(8*(j+1-i))-1 {
		return AV{}, false
	}
	los := ""
	if i != 0 {
		los = fmt.Sprint(i)
	}
	name := fmt.Sprintf("be%d(slice(%s,%s,%d))", 8*(j+1-i), r1, los, j+1)
	if _, ok := st.terms[name]; !ok {
		st.terms[name] = iset{{0, int64(1)<<uint(8*(j+1-i)) - 1}}
	}
	return AV{Kind: KLin, Term: name}, true
}

// forkTableIndex: an element address of a package-level constant table (base
// memory: written only by its initialiser) with an index that is not constant
// but ranges over at most 16 values. The state is split per index value, so
// that what is read from the table stays correlated with what the index was
// computed from (table-driven dispatch). Index values outside the table are
// left to one residual state with a symbolic element, where the bounds site is
// judged as before.
func (e *Engine) forkTableIndex(st *State, x *ssa.IndexAddr, base, idx AV) []*State {
	if idx.Kind != KLin || !(base.Kind == KAddr || base.Kind == KSliceOf) || !strings.HasPrefix(base.Loc, "G:") {
		return nil
	}
	n := int64(-1)
	switch base.Kind {
	case KSliceOf:
		n = int64(base.N)
	case KAddr:
		if pt, ok := x.X.Type().Underlying().(*types.Pointer); ok {
			if at, ok := pt.Elem().Underlying().(*types.Array); ok {
				n = at.Len()
			}
		}
	}
	if n <= 0 || !hasChildren(st, ensureSel(base.Loc)) {
		return nil
	}
	cur, ok := st.terms[idx.Term]
	if !ok || cur.empty() {
		return nil
	}
	// index values = term values + K
	var vals []int64
	many := false
	for _, iv0 := range cur {
		if iv0.hi-iv0.lo > 16 {
			many = true
			break
		}
		for v := iv0.lo; v <= iv0.hi; v++ {
			vals = append(vals, v)
		}
		if len(vals) > 16 {
			many = true
			break
		}
	}
	if many {
		return e.forkTableRuns(st, x, base, idx, cur, n)
	}
	if len(vals) < 2 {
		return nil
	}
	var out []*State
	var rest iset
	for _, v := range vals {
		k := v + idx.K
		if k < 0 || k >= n {
			rest = append(rest, iv{v, v})
			continue
		}
		s2 := st.clone()
		s2.terms[idx.Term] = iset{{v, v}}
		refineParent(s2, idx.Term, iset{{v, v}})
		s2.env[x] = AV{Kind: KAddr, Loc: locJoin(ensureSel(base.Loc), fmt.Sprintf("[%d]", k))}
		out = append(out, s2)
	}
	if len(out) == 0 {
		return nil
	}
	if len(rest) > 0 {
		s2 := st.clone()
		s2.terms[idx.Term] = norm(rest)
		s2.env[x] = AV{Kind: KAddr, Loc: locJoin(ensureSel(base.Loc), "[?"+idx.name()+"]")}
		out = append(out, s2)
	}
	return out
}

// forkTableRuns: like forkTableIndex for an index that ranges over many
// values (a 256-entry table indexed by a byte of the argument): when every
// element the index can select is a known scalar constant, the state is split
// per maximal run of indices holding the same constant. Within a run the
// element read does not depend on the index, so the first element of the run
// stands for all of them (the table is base memory: nothing stores into it).
func (e *Engine) forkTableRuns(st *State, x *ssa.IndexAddr, base, idx AV, cur iset, n int64) []*State {
	if cur.min()+idx.K < 0 || cur.max()+idx.K >= n || cur.max()-cur.min() > 4096 {
		return nil
	}
	elem := func(k int64) (AV, bool) {
		v, ok := st.mem[locJoin(ensureSel(base.Loc), fmt.Sprintf("[%d]", k))]
		if !ok {
			return AV{}, false
		}
		switch v.Kind {
		case KInt, KStr, KBool, KNil:
			return v, true
		}
		return AV{}, false
	}
	type run struct{ lo, hi int64 }
	var runs []run
	for _, iv0 := range cur {
		var prev AV
		for v := iv0.lo; v <= iv0.hi; v++ {
			a, ok := elem(v + idx.K)
			if !ok {
				return nil
			}
			if v > iv0.lo && a.Kind == prev.Kind && a.K == prev.K && a.S == prev.S && a.B == prev.B {
				runs[len(runs)-1].hi = v
			} else {
				runs = append(runs, run{v, v})
			}
			prev = a
		}
	}
	if len(runs) < 2 || len(runs) > 64 {
		return nil
	}
	var out []*State
	for _, r := range runs {
		s2 := st.clone()
		s2.terms[idx.Term] = iset{{r.lo, r.hi}}
		refineParent(s2, idx.Term, iset{{r.lo, r.hi}})
		s2.env[x] = AV{Kind: KAddr, Loc: locJoin(ensureSel(base.Loc), fmt.Sprintf("[%d]", r.lo+idx.K))}
		out = append(out, s2)
	}
	return out
}

// derivedExact: term is a derived term "(X>>k)", "(X/k)" or "(X&m)" whose
// restriction is carried over exactly to X by refineParent in state st, so the
// term adds nothing to a description of the state in terms of X.
func derivedExact(st *State, term string) bool {
	if !strings.HasPrefix(term, "(") || !strings.HasSuffix(term, ")") {
		return false
	}
	body := term[1 : len(term)-1]
	num := func(t string) (int64, bool) {
		var k int64
		if _, err := fmt.Sscanf(t, "%d", &k); err != nil || fmt.Sprint(k) != t {
			return 0, false
		}
		return k, true
	}
	parent := func(x string) (iset, bool) {
		cur, ok := st.terms[x]
		return cur, ok && !cur.empty() && cur.min() >= 0
	}
	if i := strings.LastIndex(body, ">>"); i > 0 {
		k, ok := num(body[i+2:])
		_, okp := parent(body[:i])
		return ok && k >= 0 && k <= 40 && okp
	}
	if i := strings.LastIndex(body, "/"); i > 0 {
		k, ok := num(body[i+1:])
		_, okp := parent(body[:i])
		return ok && k > 0 && okp
	}
	if i := strings.LastIndex(body, "&"); i > 0 {
		m, ok := num(body[i+1:])
		cur, okp := parent(body[:i])
		if !ok || !okp || m <= 0 || cur.max() >= 1<<40 {
			return false
		}
		low := m & -m
		switch {
		case m&(m+1) == 0:
			return cur.max()/(m+1) <= 4096
		case (m+low)&(m+low-1) == 0 && cur.max() < m+low:
			return true
		case ((m/low)+1)&(m/low) == 0:
			return (cur.max()/(m+low)+1)*((m+low)/low) <= 1<<16
		}
	}
	return false
}

func isLoopHeader(b *ssa.BasicBlock) bool {
	for _, p := range b.Preds {
		if b.Dominates(p) {
			return true
		}
	}
	return false
}

// insideLoop: b belongs to the natural loop of some header.
func insideLoop(b *ssa.BasicBlock) bool {
	for _, h := range b.Parent().Blocks {
		if h != b && isLoopHeader(h) && h.Dominates(b) && loopInfoOf(h).blocks[b] {
			return true
		}
	}
	return false
}

// refineMasked: the derived term (X&m) has been restricted to `set`; restrict
// X (known non-negative and bounded) to the exact pre-image. Two mask shapes
// are handled: a run of high bits (m = 2^w − 2^k with X < 2^w: X&m clears the
// low k bits, the pre-image of each multiple c of 2^k is [c, c+2^k−1]) and a
// run of low bits (m = 2^k − 1: X&m = X mod 2^k, a periodic pre-image that is
// enumerated when it has at most 4096 pieces).
func refineMasked(st *State, x string, m int64, set iset) {
	cur, ok := st.terms[x]
	if !ok || cur.empty() || cur.min() < 0 || cur.max() >= 1<<40 {
		return
	}
	low := m & -m // lowest set bit = 2^k
	var pre iset
	switch {
	case m&(m+1) == 0:
		// low-bit mask 2^k − 1
		period := m + 1
		if cur.max()/period > 4096 {
			return
		}
		for base := int64(0); base <= cur.max(); base += period {
			for _, iv0 := range set {
				lo, hi := iv0.lo, iv0.hi
				if lo < 0 {
					lo = 0
				}
				if hi > m {
					hi = m
				}
				if hi >= lo {
					pre = append(pre, iv{base + lo, base + hi})
				}
			}
		}
	case (m+low)&(m+low-1) == 0 && cur.max() < m+low:
		// high-bit mask 2^w − 2^k and X < 2^w
		for _, iv0 := range set {
			lo, hi := iv0.lo, iv0.hi
			if lo < 0 {
				lo = 0
			}
			if hi > m {
				hi = m
			}
			first := (lo + low - 1) / low * low
			last := hi / low * low
			if hi >= lo && last >= first {
				pre = append(pre, iv{first, last + low - 1})
			}
		}
	case ((m/low)+1)&(m/low) == 0:
		// contiguous mid-bit mask 2^j − 2^k: in every period of 2^j, the
		// blocks of 2^k whose index (times 2^k) lies in the set
		period := m + low
		nq := period / low
		if (cur.max()/period+1)*nq > 1<<16 {
			return
		}
		for base := int64(0); base <= cur.max(); base += period {
			for q := int64(0); q < nq; q++ {
				if set.contains(q * low) {
					pre = append(pre, iv{base + q*low, base + q*low + low - 1})
				}
			}
		}
	default:
		return
	}
	st.terms[x] = inter(cur, norm(pre))
}

// ---------- aggregates with known parts, base memory ----------

func isAggregate(t types.Type) bool {
	switch t.Underlying().(type) {
	case *types.Struct, *types.Array:
		return true
	}
	return false
}

// childPrefix: the prefix under which the parts of the aggregate at loc live.
func childPrefix(loc string) string {
	if strings.IndexByte(loc, '|') < 0 {
		return loc + "|"
	}
	return loc
}

func hasChildren(st *State, loc string) bool {
	p := childPrefix(loc)
	for k := range st.mem {
		if len(k) > len(p) && strings.HasPrefix(k, p) && (k[len(p)] == '.' || k[len(p)] == '[') {
			return true
		}
	}
	return false
}

// RootState: a fresh state seeded with the constant contents of package-level
// tables that only their initialiser writes.
func (e *Engine) RootState() *State {
	st := newState()
	for k, v := range e.w.BaseMem() {
		st.mem[k] = v
	}
	return st
}

// headerDecided: with the φ-nodes of the loop header taking their incoming
// values, the header's exit condition is a constant. Only φ, arithmetic,
// conversions and len are evaluated; anything else makes it "not decided".
func (e *Engine) headerDecided(it workItem) bool {
	b := it.b
	ifi, ok := b.Instrs[len(b.Instrs)-1].(*ssa.If)
	if !ok || it.pred == nil {
		return false
	}
	probe := it.st.clone()
	for _, in := range b.Instrs[:len(b.Instrs)-1] {
		switch x := in.(type) {
		case *ssa.Phi:
			for i, p := range b.Preds {
				if p == it.pred {
					probe.env[x] = e.eval(probe, x.Edges[i])
				}
			}
		case *ssa.BinOp:
			probe.env[x] = e.binop(probe, x)
		case *ssa.Convert:
			probe.env[x] = e.convert(probe, e.eval(probe, x.X), x.X.Type(), x.Type())
		case *ssa.Call:
			bi, isB := x.Call.Value.(*ssa.Builtin)
			if !isB || bi.Name() != "len" {
				return false
			}
			probe.env[x] = e.builtin(probe, x, bi)
		case *ssa.DebugRef:
		default:
			return false
		}
	}
	c := e.toBool(probe, e.eval(probe, ifi.Cond))
	return c.Kind == KBool
}
