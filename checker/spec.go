package main

// Spec tables transcribed from the property statements (C01, C04, C10, C11,
// C12, C13) and the two PSA token specifications they refer to. These are
// behavioural facts (which claim is mandatory in which profile, accepted
// lengths, wire keys, JSON names); nothing here copies source text of /repo.

type presence int

const (
	mandatory presence = iota
	optional
	defaulted // absent => a default value is reported, no error (P1 profile)
)

type valueRule int

const (
	ruleAny        valueRule = iota
	ruleLen32                // byte string, length exactly 32
	ruleLen8to32             // byte string, 8..32
	ruleHash                 // byte string, 32 | 48 | 64
	ruleUEID                 // 33 bytes, first byte 0x01
	ruleLifecycle            // seven ranges
	ruleEAN13or5             // EAN-13 or EAN-13+5
	ruleEAN13p5              // EAN-13+5 only
	ruleNonEmpty             // non-empty text
	ruleProfile              // equals the canonical profile name
	ruleComponents           // software component list
)

type claimRow struct {
	Claim  string // short name used in obligation keys
	Field  string // exported struct field name (API)
	Getter string
	Setter string // "" = none
	Pres   presence
	Rule   valueRule
	CBOR   int64  // wire key
	JSON   string // JSON member name
	Omit   bool   // absent optional claim is omitted (omitempty) on the wire
	Kind   string // wire kind: "text", "bytes", "int32", "uint16", "uint", "components", "eat.Nonce", "eat.UEID", "eat.Profile"
}

var p1Spec = []claimRow{
	{"profile", "Profile", "GetProfile", "", defaulted, ruleProfile, -75000, "psa-profile", true, "text"},
	{"client-id", "ClientID", "GetClientID", "SetClientID", mandatory, ruleAny, -75001, "psa-client-id", false, "int32"},
	{"security-lifecycle", "SecurityLifeCycle", "GetSecurityLifeCycle", "SetSecurityLifeCycle", mandatory, ruleLifecycle, -75002, "psa-security-lifecycle", false, "uint16"},
	{"implementation-id", "ImplID", "GetImplID", "SetImplID", mandatory, ruleLen32, -75003, "psa-implementation-id", false, "bytes"},
	{"boot-seed", "BootSeed", "GetBootSeed", "SetBootSeed", mandatory, ruleLen32, -75004, "psa-boot-seed", false, "bytes"},
	{"certification-reference", "CertificationReference", "GetCertificationReference", "SetCertificationReference", optional, ruleEAN13or5, -75005, "psa-hwver", true, "text"},
	{"software-components", "SwComponents", "GetSoftwareComponents", "SetSoftwareComponents", mandatory, ruleComponents, -75006, "psa-software-components", true, "components"},
	{"no-software-measurements", "NoSwMeasurements", "", "", optional, ruleAny, -75007, "psa-no-software-measurements", true, "uint"},
	{"nonce", "Nonce", "GetNonce", "SetNonce", mandatory, ruleHash, -75008, "psa-nonce", false, "bytes"},
	{"instance-id", "InstID", "GetInstID", "SetInstID", mandatory, ruleUEID, -75009, "psa-instance-id", false, "bytes"},
	{"verification-service-indicator", "VSI", "GetVSI", "SetVSI", optional, ruleNonEmpty, -75010, "psa-verification-service-indicator", true, "text"},
}

var p2Spec = []claimRow{
	{"profile", "Profile", "GetProfile", "", mandatory, ruleProfile, 265, "eat-profile", false, "eat.Profile"},
	{"client-id", "ClientID", "GetClientID", "SetClientID", mandatory, ruleAny, 2394, "psa-client-id", false, "int32"},
	{"security-lifecycle", "SecurityLifeCycle", "GetSecurityLifeCycle", "SetSecurityLifeCycle", mandatory, ruleLifecycle, 2395, "psa-security-lifecycle", false, "uint16"},
	{"implementation-id", "ImplID", "GetImplID", "SetImplID", mandatory, ruleLen32, 2396, "psa-implementation-id", false, "bytes"},
	{"boot-seed", "BootSeed", "GetBootSeed", "SetBootSeed", optional, ruleLen8to32, 2397, "psa-boot-seed", true, "bytes"},
	{"certification-reference", "CertificationReference", "GetCertificationReference", "SetCertificationReference", optional, ruleEAN13p5, 2398, "psa-certification-reference", true, "text"},
	{"software-components", "SwComponents", "GetSoftwareComponents", "SetSoftwareComponents", mandatory, ruleComponents, 2399, "psa-software-components", false, "components"},
	{"nonce", "Nonce", "GetNonce", "SetNonce", mandatory, ruleHash, 10, "psa-nonce", false, "eat.Nonce"},
	{"instance-id", "InstID", "GetInstID", "SetInstID", mandatory, ruleUEID, 256, "psa-instance-id", false, "eat.UEID"},
	{"verification-service-indicator", "VSI", "GetVSI", "SetVSI", optional, ruleNonEmpty, 2400, "psa-verification-service-indicator", true, "text"},
}

var swcSpec = []claimRow{
	{"measurement-type", "MeasurementType", "GetMeasurementType", "SetMeasurementType", optional, ruleAny, 1, "measurement-type", true, "text"},
	{"measurement-value", "MeasurementValue", "GetMeasurementValue", "SetMeasurementValue", mandatory, ruleHash, 2, "measurement-value", false, "bytes"},
	{"version", "Version", "GetVersion", "SetVersion", optional, ruleAny, 4, "version", true, "text"},
	{"signer-id", "SignerID", "GetSignerID", "SetSignerID", mandatory, ruleHash, 5, "signer-id", false, "bytes"},
	{"measurement-description", "MeasurementDesc", "GetMeasurementDesc", "SetMeasurementDesc", optional, ruleAny, 6, "measurement-description", true, "text"},
}

// builtinSpecs maps the exported type names of the built-in profiles and of
// the library's component type to their tables.
var builtinSpecs = map[string][]claimRow{
	"P1Claims":    p1Spec,
	"P2Claims":    p2Spec,
	"SwComponent": swcSpec,
}

const (
	profile1Name = "PSA_IOT_PROFILE_1"
	profile2Name = "http://arm.com/psa/2.0.0"
)

// documented sentinel classes (C13)
const (
	clsMissingOptional  = "ErrMissingOptional"
	clsMissingMandatory = "ErrMissingMandatory"
	clsNotInProfile     = "ErrNotInProfile"
	clsWrongProfile     = "ErrWrongProfile"
	clsWrongSyntax      = "ErrWrongSyntax"
)

var baseSentinels = []string{clsMissingOptional, clsMissingMandatory, clsNotInProfile, clsWrongProfile, clsWrongSyntax}

// derived sentinel -> documented base it must wrap
var derivedSentinels = map[string]string{
	"ErrOptionalClaimMissing":  clsMissingOptional,
	"ErrMandatoryClaimMissing": clsMissingMandatory,
	"ErrClaimNotInProfile":     clsNotInProfile,
	"ErrOptionalFieldMissing":  clsMissingOptional,
	"ErrMandatoryFieldMissing": clsMissingMandatory,
	"ErrFieldNotInProfile":     clsNotInProfile,
}
