package main

// E8 — panic sites. Every panic-capable instruction of in-repo code is
// observed, with the abstract state in which the path engine reaches it, in
// every context (standalone with symbolic parameters, or inlined into a
// caller). A site is discharged only if it is safe in every observed state.

import (
	"fmt"
	"go/token"
	"go/types"
	"sort"
	"strings"

	"golang.org/x/tools/go/ssa"
)

type Site struct {
	Instr      ssa.Instruction
	Fn         *ssa.Function
	Kind       string // nil-deref | index | slice | invoke | assert | mapupdate | div | makeslice | panic
	What       string // operand description
	Safe       int    // contexts in which the site was proved safe
	Unsafe     int
	How        map[string]bool
	Witness    string // a state in which the site is not proved safe
	Definite   bool   // some state makes the failure definite (e.g. known-nil pointer)
	defWitness bool
	// UnsafeWhat: the operand descriptions of the contexts not proved safe
	UnsafeWhat map[string]bool
}

type siteCollector struct {
	w     *World
	e     *Engine
	sites map[ssa.Instruction]*Site
	// scope: functions whose sites are recorded
	scope func(fn *ssa.Function) bool
}

func (c *siteCollector) site(in ssa.Instruction, kind, what string) *Site {
	s := c.sites[in]
	if s == nil {
		s = &Site{Instr: in, Fn: in.Parent(), Kind: kind, What: what, How: map[string]bool{}}
		c.sites[in] = s
	}
	return s
}

func (c *siteCollector) judge(in ssa.Instruction, kind, what string, ok bool, how string, st *State, definite bool) {
	s := c.site(in, kind, what)
	if ok {
		s.Safe++
		s.How[how] = true
		return
	}
	s.Unsafe++
	if s.UnsafeWhat == nil {
		s.UnsafeWhat = map[string]bool{}
	}
	s.UnsafeWhat[what] = true
	if definite {
		s.Definite = true
	}
	if s.Witness == "" || (definite && !s.defWitness) {
		s.defWitness = definite
		d := st.Describe()
		if len(d) > 300 {
			d = d[:300] + "…"
		}
		s.Witness = how + " [state: " + d + "]"
	}
}

// holds evaluates a boolean abstract value in a state: (value, known).
func (e *Engine) holds(st *State, b AV) (bool, bool) {
	b = e.toBool(st, b)
	switch b.Kind {
	case KBool:
		return b.B, true
	case KCmp:
		cur, ok := st.terms[b.Term]
		if !ok {
			cur = fullSet
		}
		set := cmpSet(b.Op, b.K)
		if cur.subsetOf(set) {
			return true, true
		}
		if inter(cur, set).empty() {
			return false, true
		}
		return false, false
	case KAtom:
		if v, ok := st.atoms[b.Sym]; ok {
			return v != b.Neg, true
		}
		if v, ok := relEntailed(st, b); ok {
			return v, true
		}
	}
	return false, false
}

// linName parses "(term+k)" / "(term-k)" / "term" into (term, k).
func linName(s string) (string, int64) {
	if strings.HasPrefix(s, "(") && strings.HasSuffix(s, ")") {
		body := s[1 : len(s)-1]
		for i := len(body) - 1; i > 0; i-- {
			if body[i] == '+' || body[i] == '-' {
				var k int64
				if _, err := fmt.Sscanf(body[i:], "%d", &k); err == nil && fmt.Sprintf("%+d", k) == body[i:] {
					// the prefix must be a balanced term
					if strings.Count(body[:i], "(") == strings.Count(body[:i], ")") {
						return body[:i], k
					}
				}
				break
			}
		}
	}
	var k int64
	if _, err := fmt.Sscanf(s, "%d", &k); err == nil && fmt.Sprint(k) == s {
		return "", k
	}
	return s, 0
}

func splitLt(sym string) (a, b string, ok bool) {
	if !strings.HasPrefix(sym, "lt(") || !strings.HasSuffix(sym, ")") {
		return "", "", false
	}
	body := sym[3 : len(sym)-1]
	depth := 0
	for i, c := range body {
		switch c {
		case '(', '[':
			depth++
		case ')', ']':
			depth--
		case ',':
			if depth == 0 {
				return body[:i], body[i+1:], true
			}
		}
	}
	return "", "", false
}

// relEntailed decides a relational atom lt(A,B) (possibly negated) from the
// other relational atoms of the state by difference-bound reasoning over
// integers: X+c1 < Y+c2 gives X-Y <= c2-c1-1.
func relEntailed(st *State, q AV) (bool, bool) {
	qa, qb, ok := splitLt(q.Sym)
	if !ok {
		return false, false
	}
	ta, ka := linName(qa)
	tb, kb := linName(qb)
	// upper bounds on (x - y) known from facts
	bound := func(x, y string) (int64, bool) {
		best, have := int64(0), false
		upd := func(v int64) {
			if !have || v < best {
				best, have = v, true
			}
		}
		if x == y {
			upd(0)
		}
		for sym, val := range st.atoms {
			fa, fb, ok := splitLt(sym)
			if !ok {
				continue
			}
			t1, c1 := linName(fa)
			t2, c2 := linName(fb)
			if val && t1 == x && t2 == y { // t1+c1 < t2+c2
				upd(c2 - c1 - 1)
			}
			if !val && t2 == x && t1 == y { // t2+c2 <= t1+c1
				upd(c1 - c2)
			}
		}
		// interval facts
		if sx, okx := st.terms[x]; okx && !sx.empty() && sx.max() != maxI {
			if sy, oky := st.terms[y]; oky && !sy.empty() && sy.min() != minI {
				upd(sx.max() - sy.min())
			}
		}
		return best, have
	}
	// query lt(A,B): ta+ka < tb+kb  <=>  ta - tb <= kb - ka - 1
	if b, have := bound(ta, tb); have && b <= kb-ka-1 {
		return !q.Neg, true
	}
	// refutation: tb+kb <= ta+ka <=> tb - ta <= ka - kb
	if b, have := bound(tb, ta); have && b <= ka-kb {
		return q.Neg, true
	}
	return false, false
}

var intT = types.Typ[types.Int]

func (c *siteCollector) nonNil(st *State, a AV) (ok bool, definite bool) {
	if a.Kind == KSym && strings.HasSuffix(a.Sym, ".Type") && strings.Contains(a.Sym, "reflect.Type.Field(") {
		return true, false // reflect docs: StructField.Type is never nil
	}
	switch st.NilOf(a) {
	case 1:
		return true, false
	case -1:
		return false, true
	}
	return false, false
}

// observe is installed as the engine's Observe hook.
func (c *siteCollector) observe(in ssa.Instruction, st *State, depth int) {
	fn := in.Parent()
	if c.scope != nil && !c.scope(fn) {
		return
	}
	e := c.e
	ptrCheck := func(p ssa.Value, kind string) {
		a := e.eval(st, p)
		if _, isAlloc := p.(*ssa.Alloc); isAlloc {
			return // address of a local: never nil (structural)
		}
		if _, isGlobal := p.(*ssa.Global); isGlobal {
			return
		}
		if _, isFA := p.(*ssa.FieldAddr); isFA {
			return // a field address is non-nil once computed (its own site covers the base)
		}
		if _, isIA := p.(*ssa.IndexAddr); isIA {
			return
		}
		ok, def := c.nonNil(st, a)
		c.judge(in, kind, a.name(), ok, "pointer "+a.name()+" not known to be non-nil", st, def)
	}
	switch x := in.(type) {
	case *ssa.UnOp:
		if x.Op == token.MUL {
			ptrCheck(x.X, "nil-deref")
		}
	case *ssa.Store:
		ptrCheck(x.Addr, "nil-deref")
	case *ssa.FieldAddr:
		ptrCheck(x.X, "nil-deref")
	case *ssa.IndexAddr:
		base := e.eval(st, x.X)
		idx := e.eval(st, x.Index)
		var lenAV AV
		if pt, ok := x.X.Type().Underlying().(*types.Pointer); ok {
			if at, ok := pt.Elem().Underlying().(*types.Array); ok {
				lenAV = avInt(at.Len())
				if _, isAlloc := x.X.(*ssa.Alloc); !isAlloc {
					ptrCheck(x.X, "nil-deref")
				}
			}
		} else {
			lenAV = e.lenTerm(st, base)
		}
		c.bounds(in, st, "index", base.name()+"["+idx.name()+"]", idx, lenAV, true)
	case *ssa.Index:
		base := e.eval(st, x.X)
		idx := e.eval(st, x.Index)
		limit := e.lenTerm(st, base)
		if at, ok := x.X.Type().Underlying().(*types.Array); ok {
			limit = avInt(at.Len())
		}
		c.bounds(in, st, "index", base.name()+"["+idx.name()+"]", idx, limit, true)
	case *ssa.Lookup:
		// a map lookup panics only for an unhashable interface key; string index does
		if mt, isMap := x.X.Type().Underlying().(*types.Map); isMap && holdsInterface(mt.Key()) {
			ok := c.comparableDyn(st, x.Index)
			c.judge(in, "ifacekey", e.eval(st, x.Index).name(), ok, "map lookup with an interface key not known to hold a hashable dynamic type", st, false)
		}
		if _, isMap := x.X.Type().Underlying().(*types.Map); !isMap {
			base := e.eval(st, x.X)
			idx := e.eval(st, x.Index)
			c.bounds(in, st, "index", base.name()+"["+idx.name()+"]", idx, e.lenTerm(st, base), true)
		}
	case *ssa.Slice:
		base := e.eval(st, x.X)
		var lenAV AV
		if pt, ok := x.X.Type().Underlying().(*types.Pointer); ok {
			if at, ok := pt.Elem().Underlying().(*types.Array); ok {
				lenAV = avInt(at.Len())
			}
		} else {
			lenAV = e.lenTerm(st, base)
		}
		lo := avInt(0)
		if x.Low != nil {
			lo = e.eval(st, x.Low)
		}
		what := base.name() + "[" + lo.name() + ":"
		if x.High != nil {
			hi := e.eval(st, x.High)
			what += hi.name() + "]"
			// 0 <= lo <= hi <= len
			c.bounds(in, st, "slice", what, lo, hi, false)
			c.bounds(in, st, "slice", what, hi, lenAV, false)
		} else {
			what += "]"
			c.bounds(in, st, "slice", what, lo, lenAV, false)
		}
	case *ssa.TypeAssert:
		if !x.CommaOk {
			a := e.eval(st, x.X)
			ok := false
			if a.Kind == KIface && a.Dyn != nil {
				if types.IsInterface(x.AssertedType) {
					ok = types.Implements(a.Dyn, x.AssertedType.Underlying().(*types.Interface))
				} else {
					ok = types.Identical(a.Dyn, x.AssertedType)
				}
			}
			if !ok && types.IsInterface(x.AssertedType) && types.Identical(x.X.Type(), x.AssertedType) {
				// x.(I) with I the static type of x: the nil check the compiler
				// inserts for a method value x.M — fails only for a nil interface
				nn, def := c.nonNil(st, a)
				c.judge(in, "assert", a.name()+".("+x.AssertedType.String()+")", nn, "method value of an interface value "+a.name()+" not known to be non-nil", st, def)
				break
			}
			c.judge(in, "assert", a.name()+".("+x.AssertedType.String()+")", ok, "type assertion without comma-ok on a value of unknown dynamic type", st, false)
		}
	case *ssa.MapUpdate:
		a := e.eval(st, x.Map)
		ok, def := c.nonNil(st, a)
		c.judge(in, "mapupdate", a.name(), ok, "map "+a.name()+" not known to be non-nil", st, def)
	case *ssa.BinOp:
		if (x.Op == token.QUO || x.Op == token.REM) && isIntType(x.Type()) {
			d := e.eval(st, x.Y)
			ok, known := e.holds(st, e.compare(st, token.NEQ, d, avInt(0), x.Y.Type()))
			c.judge(in, "div", d.name(), ok && known, "divisor "+d.name()+" not known to be non-zero", st, known && !ok)
		}
		if (x.Op == token.EQL || x.Op == token.NEQ) && holdsInterface(x.X.Type()) {
			// comparing interface values panics when both hold the same
			// non-comparable dynamic type ([]interface{}, map[string]interface{} …)
			ok := c.comparableDyn(st, x.X) || c.comparableDyn(st, x.Y)
			c.judge(in, "ifacecmp", e.eval(st, x.X).name()+x.Op.String()+e.eval(st, x.Y).name(), ok, "comparison of interface values neither of which is known to hold a comparable dynamic type (same non-comparable dynamic type on both sides panics)", st, false)
		}
	case *ssa.MakeSlice:
		n := e.eval(st, x.Len)
		ok, known := e.holds(st, e.compare(st, token.GEQ, n, avInt(0), intT))
		c.judge(in, "makeslice", n.name(), ok && known, "make with length "+n.name()+" not known to be non-negative", st, false)
	case *ssa.Panic:
		c.judge(in, "panic", "explicit panic", false, "explicit panic reachable", st, true)
	case ssa.CallInstruction:
		cc := x.Common()
		if cc.IsInvoke() {
			a := e.eval(st, cc.Value)
			ok, def := c.nonNil(st, a)
			c.judge(in, "invoke", a.name()+"."+cc.Method.Name(), ok, "interface value "+a.name()+" not known to be non-nil", st, def)
		} else if f := cc.StaticCallee(); f == nil {
			if _, isBuiltin := cc.Value.(*ssa.Builtin); !isBuiltin {
				a := e.eval(st, cc.Value)
				ok, def := c.nonNil(st, a)
				c.judge(in, "invoke", "func value "+a.name(), ok, "function value not known to be non-nil", st, def)
			}
		}
	}
}

// holdsInterface: values of type t are, or contain, interface values (so ==
// on them can panic at run time).
func holdsInterface(t types.Type) bool {
	switch u := t.Underlying().(type) {
	case *types.Interface:
		return true
	case *types.Struct:
		for i := 0; i < u.NumFields(); i++ {
			if holdsInterface(u.Field(i).Type()) {
				return true
			}
		}
	case *types.Array:
		return holdsInterface(u.Elem())
	}
	return false
}

// comparableDyn: the interface value v is nil or holds a value of a type that
// is comparable without reservation (no interface inside): then == with any
// other interface value cannot panic.
func (c *siteCollector) comparableDyn(st *State, v ssa.Value) bool {
	plain := func(t types.Type) bool { return t != nil && types.Comparable(t) && !holdsInterface(t) }
	switch x := v.(type) {
	case *ssa.Const:
		return x.IsNil()
	case *ssa.MakeInterface:
		return plain(x.X.Type())
	case *ssa.ChangeInterface:
		return c.comparableDyn(st, x.X)
	case *ssa.UnOp:
		// a sentinel: package-level variable of type error. In this module its
		// value must come from its initialiser only; elsewhere (io.EOF …) the
		// standard library's sentinels are pointers.
		if g, ok := x.X.(*ssa.Global); ok && x.Op == token.MUL && types.Identical(x.Type(), types.Universe.Lookup("error").Type()) {
			if g.Pkg == nil || !c.e.w.InRepoPath(g.Pkg.Pkg.Path()) {
				return true
			}
			return c.e.w.readOnlyOutsideInit(g)
		}
	}
	if !holdsInterface(v.Type()) {
		return false
	}
	if _, isIface := v.Type().Underlying().(*types.Interface); !isIface {
		return false
	}
	a := c.e.eval(st, v)
	if a.Kind == KIface && a.Dyn != nil {
		return plain(a.Dyn)
	}
	if a.Kind == KNil {
		return true
	}
	return false
}

// bounds judges 0 <= idx (< | <=) limit.
func (c *siteCollector) bounds(in ssa.Instruction, st *State, kind, what string, idx, limit AV, strict bool) {
	e := c.e
	lowOK, lowKnown := e.holds(st, e.compare(st, token.GEQ, idx, avInt(0), intT))
	op := token.LEQ
	if strict {
		op = token.LSS
	}
	var hiOK, hiKnown bool
	if limit.Kind == KUnknown && limit.Sym == "" {
		hiOK, hiKnown = false, false
	} else {
		hiOK, hiKnown = e.holds(st, e.compare(st, op, idx, limit, intT))
	}
	ok := lowOK && lowKnown && hiOK && hiKnown
	definite := (lowKnown && !lowOK) || (hiKnown && !hiOK)
	why := fmt.Sprintf("%s: cannot show 0 <= %s %s %s", what, idx.name(), op, limit.name())
	c.judge(in, kind, what, ok, why, st, definite)
}

// siteKey gives a line-free identification of a site.
func siteKey(s *Site) string {
	n := 0
	for _, b := range s.Fn.Blocks {
		for _, in := range b.Instrs {
			if in == s.Instr {
				return fmt.Sprintf("%s#%s/%d", fnKey(s.Fn), s.Kind, n)
			}
			if fmt.Sprintf("%T", in) == fmt.Sprintf("%T", s.Instr) {
				n++
			}
		}
	}
	return fnKey(s.Fn) + "#" + s.Kind
}

func sortedSites(m map[ssa.Instruction]*Site) []*Site {
	var out []*Site
	for _, s := range m {
		out = append(out, s)
	}
	sort.Slice(out, func(i, j int) bool {
		if out[i].Fn != out[j].Fn {
			return out[i].Fn.String() < out[j].Fn.String()
		}
		return out[i].Instr.Pos() < out[j].Instr.Pos()
	})
	return out
}

func howList(s *Site) string {
	var h []string
	for k := range s.How {
		h = append(h, k)
	}
	sort.Strings(h)
	return strings.Join(h, "; ")
}
