package main

// Package-level variables: who writes them, and what the package initialiser
// establishes about them (error sentinel classes, constant regexp patterns,
// non-nil-ness).

import (
	"fmt"
	"go/constant"
	"go/token"
	"go/types"
	"sort"
	"strings"

	"golang.org/x/tools/go/ssa"
)

var anyType types.Type = types.NewInterfaceType(nil, nil)

func sortStrings(s []string) { sort.Strings(s) }

type GlobalInfo struct {
	G *ssa.Global
	// Writers: functions containing a direct store to the variable.
	Writers []*ssa.Function
	// MapWriters: functions that update or delete from the map held by it.
	MapWriters []*ssa.Function
	// AddrEscapes: the variable's address is used other than by load/store.
	AddrEscapes []ssa.Instruction
	InitOnly    bool // written only by its package initialiser
	NonNil      bool
	Cls         []string // error classes (for error-typed sentinels)
	InitCallee  string   // callee whose result initialises it
	InitConst   string   // constant first argument of that callee (pattern)
	InitVal     ssa.Value
}

func (w *World) buildGlobals() {
	w.globals = map[*ssa.Global]*GlobalInfo{}
	for _, p := range []*ssa.Package{w.Root, w.Enc} {
		for _, m := range p.Members {
			if g, ok := m.(*ssa.Global); ok {
				w.globals[g] = &GlobalInfo{G: g}
			}
		}
	}
	stores := map[*ssa.Global]int{}
	addW := func(l *[]*ssa.Function, f *ssa.Function) {
		for _, x := range *l {
			if x == f {
				return
			}
		}
		*l = append(*l, f)
	}
	for fn := range w.AllFuncs {
		if !w.InRepo(fn) || fn.Blocks == nil {
			continue
		}
		for _, b := range fn.Blocks {
			for _, in := range b.Instrs {
				for _, op := range in.Operands(nil) {
					g, ok := (*op).(*ssa.Global)
					if !ok {
						continue
					}
					gi := w.globals[g]
					if gi == nil {
						continue
					}
					switch x := in.(type) {
					case *ssa.Store:
						if x.Addr == g {
							addW(&gi.Writers, fn)
							stores[g]++
							if fn.Synthetic == "package initializer" || w.initTimeOnly(fn) {
								gi.InitVal = x.Val
							}
						} else {
							gi.AddrEscapes = append(gi.AddrEscapes, in)
						}
					case *ssa.UnOp:
						// load; look for map updates / deletes on the loaded value
						for _, r := range *x.Referrers() {
							switch y := r.(type) {
							case *ssa.MapUpdate:
								if y.Map == x {
									addW(&gi.MapWriters, fn)
								}
							case *ssa.Call:
								if b, ok := y.Call.Value.(*ssa.Builtin); ok && (b.Name() == "delete" || b.Name() == "clear") && len(y.Call.Args) > 0 && y.Call.Args[0] == x {
									addW(&gi.MapWriters, fn)
								}
							}
						}
					default:
						gi.AddrEscapes = append(gi.AddrEscapes, in)
					}
				}
			}
		}
	}
	for _, gi := range w.globals {
		gi.InitOnly = len(gi.AddrEscapes) == 0
		for _, f := range gi.Writers {
			// the package initialiser, or a function that runs only from it (an
			// init function, a helper only they call, a literal run through
			// sync.Once from there)
			if f.Synthetic != "package initializer" && !w.initTimeOnly(f) {
				gi.InitOnly = false
			}
		}
		if len(gi.Writers) > 1 || stores[gi.G] > 1 {
			gi.InitOnly = false
		}
	}
	// classes: resolve in dependency order by iterating to a fixpoint
	for round := 0; round < 6; round++ {
		for _, gi := range w.globals {
			if !gi.InitOnly || gi.InitVal == nil {
				continue
			}
			v := stripIface(gi.InitVal)
			call, ok := v.(*ssa.Call)
			if !ok {
				if ex, ok2 := v.(*ssa.Extract); ok2 {
					if c2, ok3 := ex.Tuple.(*ssa.Call); ok3 {
						gi.InitCallee = calleeName(&c2.Call)
					}
				}
				continue
			}
			name := calleeName(&call.Call)
			gi.InitCallee = name
			if len(call.Call.Args) > 0 {
				if c, ok := call.Call.Args[0].(*ssa.Const); ok && c.Value != nil && c.Value.Kind() == constant.String {
					gi.InitConst = constant.StringVal(c.Value)
				}
			}
			switch name {
			case "errors.New":
				gi.NonNil = true
				gi.Cls = []string{gi.G.Name()}
			case "fmt.Errorf":
				gi.NonNil = true
				cls := map[string]bool{gi.G.Name(): true}
				ops := varargsOperands(call)
				for _, i := range wrapVerbOperands(gi.InitConst) {
					if i >= len(ops) || ops[i] == nil {
						cls["?"] = true
						continue
					}
					o := stripIface(ops[i])
					if ld, ok := o.(*ssa.UnOp); ok {
						if g2, ok := ld.X.(*ssa.Global); ok {
							if gi2 := w.globals[g2]; gi2 != nil && len(gi2.Cls) > 0 {
								for _, c := range gi2.Cls {
									cls[c] = true
								}
								continue
							}
						}
					}
					cls["?"] = true
				}
				gi.Cls = sortedKeys(cls)
			case "regexp.MustCompile":
				gi.NonNil = true
			}
		}
	}
}

func stripIface(v ssa.Value) ssa.Value {
	for {
		switch x := v.(type) {
		case *ssa.MakeInterface:
			v = x.X
		case *ssa.ChangeInterface:
			v = x.X
		case *ssa.ChangeType:
			v = x.X
		default:
			return v
		}
	}
}

// varargsOperands recovers the elements of the variadic slice passed as the
// last argument of a call (nil entries when not statically recoverable).
func varargsOperands(call *ssa.Call) []ssa.Value {
	args := call.Call.Args
	if len(args) == 0 {
		return nil
	}
	return sliceLiteralElems(args[len(args)-1])
}

// sliceLiteralElems: the elements of a slice built from an array literal, or
// of append(<such a slice>, rest...) — the known prefix; what follows it is
// not recoverable and is simply absent from the result.
func sliceLiteralElems(v ssa.Value) []ssa.Value {
	if app, ok := v.(*ssa.Call); ok {
		if b, isB := app.Call.Value.(*ssa.Builtin); isB && b.Name() == "append" && len(app.Call.Args) == 2 {
			return sliceLiteralElems(app.Call.Args[0])
		}
		return nil
	}
	sl, ok := v.(*ssa.Slice)
	if !ok {
		return nil
	}
	al, ok := sl.X.(*ssa.Alloc)
	if !ok {
		return nil
	}
	at, ok := al.Type().Underlying().(*types.Pointer).Elem().Underlying().(*types.Array)
	if !ok {
		return nil
	}
	out := make([]ssa.Value, at.Len())
	for _, r := range *al.Referrers() {
		ia, ok := r.(*ssa.IndexAddr)
		if !ok {
			continue
		}
		c, ok := ia.Index.(*ssa.Const)
		if !ok {
			continue
		}
		k, _ := constant.Int64Val(c.Value)
		for _, rr := range *ia.Referrers() {
			if s, ok := rr.(*ssa.Store); ok && s.Addr == ia && int(k) < len(out) {
				out[k] = s.Val
			}
		}
	}
	return out
}

func (w *World) GlobalInfo(g *ssa.Global) *GlobalInfo {
	if w.globals == nil {
		w.buildGlobals()
	}
	return w.globals[g]
}

// Globals returns all in-repo package-level variables, sorted by name.
func (w *World) Globals() []*GlobalInfo {
	if w.globals == nil {
		w.buildGlobals()
	}
	var out []*GlobalInfo
	for _, gi := range w.globals {
		out = append(out, gi)
	}
	sort.Slice(out, func(i, j int) bool { return globalName(out[i].G) < globalName(out[j].G) })
	return out
}

// initTimeOnly: fn runs only during package initialisation: the package
// initialiser, an init function, an unexported function all of whose callers
// are such, or a function literal that only such a parent runs (directly or
// through sync.Once).
func (w *World) initTimeOnly(fn *ssa.Function) bool {
	if w.initTime == nil {
		w.initTime = map[*ssa.Function]int{}
	}
	switch w.initTime[fn] {
	case 1:
		return true
	case 2, 3:
		return false // decided no, or in progress (a cycle is not init-only)
	}
	w.initTime[fn] = 3
	res := false
	switch {
	case fn.Synthetic == "package initializer":
		res = true
	case fn.Synthetic == "" && fn.Parent() == nil && (fn.Name() == "init" || strings.HasPrefix(fn.Name(), "init#")):
		res = true
	case fn.Parent() != nil:
		res = onlyRunByParent(fn.Parent(), fn) && w.initTimeOnly(fn.Parent())
	case fn.Object() != nil && !fn.Object().Exported() && !w.addressTaken()[fn]:
		node := w.CallGraph().Nodes[fn]
		if node != nil && len(node.In) > 0 {
			res = true
			for _, in := range node.In {
				if in.Site == nil || in.Site.Common().StaticCallee() != fn {
					continue // a CHA edge of a dynamic call: fn's address is not taken
				}
				if !w.initTimeOnly(in.Caller.Func) {
					res = false
				}
			}
		}
	}
	if res {
		w.initTime[fn] = 1
	} else {
		w.initTime[fn] = 2
	}
	return res
}

// nilFuncVar: g is a package-level variable of function type that nothing in
// the repository ever assigns and whose address is never taken (a hook that is
// nil unless a test sets it): every read yields nil.
func (w *World) nilFuncVar(g *ssa.Global) bool {
	if w.nilFuncVars == nil {
		w.nilFuncVars = map[*ssa.Global]bool{}
		cand := map[*ssa.Global]bool{}
		for _, pkg := range []*ssa.Package{w.Root, w.Enc} {
			for _, m := range pkg.Members {
				if gv, ok := m.(*ssa.Global); ok {
					if _, isSig := gv.Type().(*types.Pointer).Elem().Underlying().(*types.Signature); isSig && !gv.Object().Exported() {
						cand[gv] = true
					}
				}
			}
		}
		for fn := range w.AllFuncs {
			if !w.InRepo(fn) {
				continue
			}
			for _, b := range fn.Blocks {
				for _, in := range b.Instrs {
					for _, op := range in.Operands(nil) {
						gv, ok := (*op).(*ssa.Global)
						if !ok || !cand[gv] {
							continue
						}
						if ld, isLd := in.(*ssa.UnOp); isLd && ld.Op == token.MUL && ld.X == ssa.Value(gv) {
							continue // a read
						}
						delete(cand, gv) // stored to, or its address used otherwise
					}
				}
			}
		}
		for gv := range cand {
			w.nilFuncVars[gv] = true
		}
	}
	return w.nilFuncVars[g]
}

// BaseMem: constant contents of package-level arrays / slices / structs that
// are written only by the package initialiser (tables). Keys are abstract
// locations of the engine ("G:pkg.name|[i].field").
func (w *World) BaseMem() map[string]AV {
	if w.baseMem != nil {
		return w.baseMem
	}
	w.baseMem = map[string]AV{}
	eff := w.Effects()
	written := map[*ssa.Global]bool{}
	for fn, ef := range eff {
		if fn.Synthetic == "package initializer" {
			continue
		}
		for g := range ef.WritesGlobals {
			written[g] = true
		}
	}
	for _, pkg := range []*ssa.Package{w.Root, w.Enc} {
		for _, m := range pkg.Members {
			if gv, ok := m.(*ssa.Global); ok && w.nilFuncVar(gv) {
				w.baseMem["G:"+globalName(gv)] = AV{Kind: KNil}
			}
		}
		init := pkg.Func("init")
		if init == nil {
			continue
		}
		// local array literals whose slice is stored into a global
		sliceOf := map[*ssa.Alloc]*ssa.Global{}
		for _, b := range init.Blocks {
			for _, in := range b.Instrs {
				if st, ok := in.(*ssa.Store); ok {
					if g, ok := st.Addr.(*ssa.Global); ok {
						if sl, ok := st.Val.(*ssa.Slice); ok {
							if al, ok := sl.X.(*ssa.Alloc); ok && sl.Low == nil && sl.High == nil {
								sliceOf[al] = g
							}
						}
					}
				}
			}
		}
		for _, b := range init.Blocks {
			for _, in := range b.Instrs {
				st, ok := in.(*ssa.Store)
				if !ok {
					continue
				}
				var cv AV
				switch c := st.Val.(type) {
				case *ssa.Const:
					if c.Value == nil {
						continue
					}
					cv = constAV(c)
				case *ssa.Function:
					// a function literal without free variables, or a named function
					cv = AV{Kind: KFunc, Fn: c}
				default:
					continue
				}
				root, sel, ok := constAddrChain(st.Addr)
				if ok && sel == "" && cv.Kind == KFunc {
					// a package-level function variable that only its initialiser
					// writes: calls through it resolve to that function
					if g, isG := root.(*ssa.Global); isG && !written[g] && w.readOnlyOutsideInit(g) {
						w.baseMem["G:"+globalName(g)] = cv
					}
					continue
				}
				if !ok || sel == "" {
					continue
				}
				switch r := root.(type) {
				case *ssa.Global:
					if written[r] || !isAggregate(r.Type().(*types.Pointer).Elem()) || !w.readOnlyOutsideInit(r) {
						continue
					}
					w.baseMem["G:"+globalName(r)+"|"+sel] = cv
				case *ssa.Alloc:
					g := sliceOf[r]
					if g == nil {
						continue
					}
					if written[g] || !w.readOnlyOutsideInit(g) {
						continue
					}
					loc := allocLoc(r)
					w.baseMem[loc+"|"+sel] = cv
					at := r.Type().Underlying().(*types.Pointer).Elem().Underlying().(*types.Array)
					w.baseMem["G:"+globalName(g)] = AV{Kind: KSliceOf, Loc: loc, N: int(at.Len())}
				}
			}
		}
	}
	return w.baseMem
}

// constAddrChain follows FieldAddr / IndexAddr (constant index) chains to a
// root and renders the selector (".f", "[3]").
func constAddrChain(v ssa.Value) (root ssa.Value, sel string, ok bool) {
	switch x := v.(type) {
	case *ssa.Global, *ssa.Alloc:
		return v, "", true
	case *ssa.FieldAddr:
		r, s, ok := constAddrChain(x.X)
		if !ok {
			return nil, "", false
		}
		return r, s + "." + fieldName(x.X.Type(), x.Field), true
	case *ssa.IndexAddr:
		k, isK := constInt(x.Index)
		if !isK {
			return nil, "", false
		}
		if _, isPtr := x.X.Type().Underlying().(*types.Pointer); !isPtr {
			return nil, "", false
		}
		r, s, ok := constAddrChain(x.X)
		if !ok {
			return nil, "", false
		}
		return r, s + fmt.Sprintf("[%d]", k), true
	}
	return nil, "", false
}

// readOnlyOutsideInit: outside its package initialiser the variable is only
// loaded, or indexed / field-selected and then loaded.
// sliceReadOnly: the slice value v is only read: indexed for loads, measured,
// ranged over, re-sliced, or handed to a function (with a body) whose
// parameter is itself only read.
func sliceReadOnly(v ssa.Value, readOnly func(ssa.Value) bool, depth int) bool {
	if depth > 3 {
		return false
	}
	refs := v.Referrers()
	if refs == nil {
		return true
	}
	for _, r := range *refs {
		switch x := r.(type) {
		case *ssa.DebugRef, *ssa.Range:
		case *ssa.IndexAddr:
			if x.X != v || !readOnly(x) {
				return false
			}
		case *ssa.Index:
		case *ssa.Slice:
			if x.X != v || !sliceReadOnly(x, readOnly, depth+1) {
				return false
			}
		case *ssa.Call:
			if b, ok := x.Call.Value.(*ssa.Builtin); ok {
				if b.Name() == "len" || b.Name() == "cap" {
					continue
				}
				return false
			}
			callee := x.Call.StaticCallee()
			if callee == nil || callee.Blocks == nil {
				return false
			}
			for i, a := range x.Call.Args {
				if a == v {
					if i >= len(callee.Params) || !sliceReadOnly(callee.Params[i], readOnly, depth+1) {
						return false
					}
				}
			}
		default:
			return false
		}
	}
	return true
}

func (w *World) readOnlyOutsideInit(g *ssa.Global) bool {
	var readOnly func(v ssa.Value) bool
	readOnly = func(v ssa.Value) bool {
		refs := v.Referrers()
		if refs == nil {
			return true
		}
		for _, r := range *refs {
			switch x := r.(type) {
			case *ssa.UnOp, *ssa.DebugRef:
			case *ssa.IndexAddr:
				if !readOnly(x) {
					return false
				}
			case *ssa.FieldAddr:
				if !readOnly(x) {
					return false
				}
			default:
				return false
			}
		}
		return true
	}
	for fn := range w.AllFuncs {
		if !w.InRepo(fn) || fn.Blocks == nil || fn.Synthetic == "package initializer" {
			continue
		}
		for _, b := range fn.Blocks {
			for _, in := range b.Instrs {
				for _, op := range in.Operands(nil) {
					if *op != ssa.Value(g) {
						continue
					}
					switch x := in.(type) {
					case *ssa.UnOp:
					case *ssa.IndexAddr:
						if !readOnly(x) {
							return false
						}
					case *ssa.FieldAddr:
						if !readOnly(x) {
							return false
						}
					case *ssa.Slice:
						// g[:] handed around: read-only when every use of the slice only reads
						if x.X != ssa.Value(g) || !sliceReadOnly(x, readOnly, 0) {
							return false
						}
					default:
						return false
					}
				}
			}
		}
	}
	return true
}
