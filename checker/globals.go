package main

// Package-level variables: who writes them, and what the package initialiser
// establishes about them (error sentinel classes, constant regexp patterns,
// non-nil-ness).

import (
	"fmt"
	"go/constant"
	"go/token"
	"go/types"
	"sort"
	"strings"

	"golang.org/x/tools/go/ssa"
)

var anyType types.Type = types.NewInterfaceType(nil, nil)

func sortStrings(s []string) { sort.Strings(s) }

type GlobalInfo struct {
	G *ssa.Global
	// Writers: functions containing a direct store to the variable.
	Writers []*ssa.Function
	// MapWriters: functions that update or delete from the map held by it.
	MapWriters []*ssa.Function
	// AddrEscapes: the variable's address is used other than by load/store.
	AddrEscapes []ssa.Instruction
	InitOnly    bool // written only by its package initialiser
	NonNil      bool
	Cls         []string // error classes (for error-typed sentinels)
	InitCallee  string   // callee whose result initialises it
	InitConst   string   // constant first argument of that callee (pattern)
	InitVal     ssa.Value
}

func (w *World) buildGlobals() {
	w.globals = map[*ssa.Global]*GlobalInfo{}
	for _, p := range []*ssa.Package{w.Root, w.Enc} {
		for _, m := range p.Members {
			if g, ok := m.(*ssa.Global); ok {
				w.globals[g] = &GlobalInfo{G: g}
			}
		}
	}
	stores := map[*ssa.Global]int{}
	addW := func(l *[]*ssa.Function, f *ssa.Function) {
		for _, x := range *l {
			if x == f {
				return
			}
		}
		*l = append(*l, f)
	}
	for fn := range w.AllFuncs {
		if !w.InRepo(fn) || fn.Blocks == nil {
			continue
		}
		for _, b := range fn.Blocks {
			for _, in := range b.Instrs {
				for _, op := range in.Operands(nil) {
					g, ok := (*op).(*ssa.Global)
					if !ok {
						continue
					}
					gi := w.globals[g]
					if gi == nil {
						continue
					}
					switch x := in.(type) {
					case *ssa.Store:
						if x.Addr == g {
							addW(&gi.Writers, fn)
							stores[g]++
							if fn.Synthetic == "package initializer" || w.initTimeOnly(fn) {
								gi.InitVal = x.Val
							}
						} else {
							gi.AddrEscapes = append(gi.AddrEscapes, in)
						}
					case *ssa.UnOp:
						// load; look for map updates / deletes on the loaded value
						for _, r := range *x.Referrers() {
							switch y := r.(type) {
							case *ssa.MapUpdate:
								if y.Map == x {
									addW(&gi.MapWriters, fn)
								}
							case *ssa.Call:
								if b, ok := y.Call.Value.(*ssa.Builtin); ok && (b.Name() == "delete" || b.Name() == "clear") && len(y.Call.Args) > 0 && y.Call.Args[0] == x {
									addW(&gi.MapWriters, fn)
								}
							}
						}
					default:
						gi.AddrEscapes = append(gi.AddrEscapes, in)
					}
				}
			}
		}
	}
	for _, gi := range w.globals {
		gi.InitOnly = len(gi.AddrEscapes) == 0
		for _, f := range gi.Writers {
			// the package initialiser, or a function that runs only from it (an
			// init function, a helper only they call, a literal run through
			// sync.Once from there)
			if f.Synthetic != "package initializer" && !w.initTimeOnly(f) {
				gi.InitOnly = false
			}
		}
		if len(gi.Writers) > 1 || stores[gi.G] > 1 {
			gi.InitOnly = false
		}
	}
	// classes: resolve in dependency order by iterating to a fixpoint
	for round := 0; round < 6; round++ {
		for _, gi := range w.globals {
			if !gi.InitOnly || gi.InitVal == nil {
				continue
			}
			v := stripIface(gi.InitVal)
			call, ok := v.(*ssa.Call)
			if !ok {
				if ex, ok2 := v.(*ssa.Extract); ok2 {
					if c2, ok3 := ex.Tuple.(*ssa.Call); ok3 {
						gi.InitCallee = calleeName(&c2.Call)
					}
				}
				continue
			}
			name := calleeName(&call.Call)
			gi.InitCallee = name
			if len(call.Call.Args) > 0 {
				if c, ok := call.Call.Args[0].(*ssa.Const); ok && c.Value != nil && c.Value.Kind() == constant.String {
					gi.InitConst = constant.StringVal(c.Value)
				}
			}
			switch name {
			case "errors.New":
				gi.NonNil = true
				gi.Cls = []string{gi.G.Name()}
			case "fmt.Errorf":
				gi.NonNil = true
				cls := map[string]bool{gi.G.Name(): true}
				ops := varargsOperands(call)
				for _, i := range wrapVerbOperands(gi.InitConst) {
					if i >= len(ops) || ops[i] == nil {
						cls["?"] = true
						continue
					}
					o := stripIface(ops[i])
					if ld, ok := o.(*ssa.UnOp); ok {
						if g2, ok := ld.X.(*ssa.Global); ok {
							if gi2 := w.globals[g2]; gi2 != nil && len(gi2.Cls) > 0 {
								for _, c := range gi2.Cls {
									cls[c] = true
								}
								continue
							}
						}
					}
					cls["?"] = true
				}
				gi.Cls = sortedKeys(cls)
			case "regexp.MustCompile":
				gi.NonNil = true
			}
		}
	}
}

func stripIface(v ssa.Value) ssa.Value {
	for {
		switch x := v.(type) {
		case *ssa.MakeInterface:
			v = x.X
		case *ssa.ChangeInterface:
			v = x.X
		case *ssa.ChangeType:
			v = x.X
		default:
			return v
		}
	}
}

// varargsOperands recovers the elements of the variadic slice passed as the
// last argument of a call (nil entries when not statically recoverable).
func varargsOperands(call *ssa.Call) []ssa.Value {
	args := call.Call.Args
	if len(args) == 0 {
		return nil
	}
	return sliceLiteralElems(args[len(args)-1])
}

// sliceLiteralElems: the elements of a slice built from an array literal, or
// of append(<such a slice>, rest...) — the known prefix; what follows it is
// not recoverable and is simply absent from the result.
func sliceLiteralElems(v ssa.Value) []ssa.Value {
	if app, ok := v.(*ssa.Call); ok {
		if b, isB := app.Call.Value.(*ssa.Builtin); isB && b.Name() == "append" && len(app.Call.Args) == 2 {
			return sliceLiteralElems(app.Call.Args[0])
		}
		return nil
	}
	sl, ok := v.(*ssa.Slice)
	if !ok {
		return nil
	}
	al, ok := sl.X.(*ssa.Alloc)
	if !ok {
		return nil
	}
	at, ok := al.Type().Underlying().(*types.Pointer).Elem().Underlying().(*types.Array)
	if !ok {
		return nil
	}
	out := make([]ssa.Value, at.Len())
	for _, r := range *al.Referrers() {
		ia, ok := r.(*ssa.IndexAddr)
		if !ok {
			continue
		}
		c, ok := ia.Index.(*ssa.Const)
		if !ok {
			continue
		}
		k, _ := constant.Int64Val(c.Value)
		for _, rr := range *ia.Referrers() {
			if s, ok := rr.(*ssa.Store); ok && s.Addr == ia && int(k) < len(out) {
				out[k] = s.Val
			}
		}
	}
	return out
}

func (w *World) GlobalInfo(g *ssa.Global) *GlobalInfo {
	if w.globals == nil {
		w.buildGlobals()
	}
	return w.globals[g]
}

// Globals returns all in-repo package-level variables, sorted by name.
func (w *World) Globals() []*GlobalInfo {
	if w.globals == nil {
		w.buildGlobals()
	}
	var out []*GlobalInfo
	for _, gi := range w.globals {
		out = append(out, gi)
	}
	sort.Slice(out, func(i, j int) bool { return globalName(out[i].G) < globalName(out[j].G) })
	return out
}

// initTimeOnly: fn runs only during package initialisation: the package
// initialiser, an init function, an unexported function all of whose callers
// are such, or a function literal that only such a parent runs (directly or
// through sync.Once).
func (w *World) initTimeOnly(fn *ssa.Function) bool {
	if w.initTime == nil {
		w.initTime = map[*ssa.Function]int{}
	}
	switch w.initTime[fn] {
	case 1:
		return true
	case 2, 3:
		return false // decided no, or in progress (a cycle is not init-only)
	}
	w.initTime[fn] = 3
	res := false
	switch {
	case fn.Synthetic == "package initializer":
		res = true
	case w.onceOfBody(fn) != nil:
		// the body of a recognised lazy initialisation: what it writes is
		// written before, and never after, anything reads it
		res = true
	case fn.Synthetic == "" && fn.Parent() == nil && (fn.Name() == "init" || strings.HasPrefix(fn.Name(), "init#")):
		res = true
	case fn.Parent() != nil:
		res = onlyRunByParent(fn.Parent(), fn) && w.initTimeOnly(fn.Parent())
	case fn.Object() != nil && !fn.Object().Exported() && !w.addressTaken()[fn]:
		node := w.CallGraph().Nodes[fn]
		if node != nil && len(node.In) > 0 {
			res = true
			for _, in := range node.In {
				if in.Site == nil || in.Site.Common().StaticCallee() != fn {
					continue // a CHA edge of a dynamic call: fn's address is not taken
				}
				if !w.initTimeOnly(in.Caller.Func) {
					res = false
				}
			}
		}
	}
	if res {
		w.initTime[fn] = 1
	} else {
		w.initTime[fn] = 2
	}
	return res
}

// nilFuncVar: g is a package-level variable of function type that nothing in
// the repository ever assigns and whose address is never taken (a hook that is
// nil unless a test sets it): every read yields nil.
func (w *World) nilFuncVar(g *ssa.Global) bool {
	if w.nilFuncVars == nil {
		w.nilFuncVars = map[*ssa.Global]bool{}
		cand := map[*ssa.Global]bool{}
		for _, pkg := range []*ssa.Package{w.Root, w.Enc} {
			for _, m := range pkg.Members {
				if gv, ok := m.(*ssa.Global); ok {
					if _, isSig := gv.Type().(*types.Pointer).Elem().Underlying().(*types.Signature); isSig && !gv.Object().Exported() {
						cand[gv] = true
					}
				}
			}
		}
		for fn := range w.AllFuncs {
			if !w.InRepo(fn) {
				continue
			}
			for _, b := range fn.Blocks {
				for _, in := range b.Instrs {
					for _, op := range in.Operands(nil) {
						gv, ok := (*op).(*ssa.Global)
						if !ok || !cand[gv] {
							continue
						}
						if ld, isLd := in.(*ssa.UnOp); isLd && ld.Op == token.MUL && ld.X == ssa.Value(gv) {
							continue // a read
						}
						delete(cand, gv) // stored to, or its address used otherwise
					}
				}
			}
		}
		for gv := range cand {
			w.nilFuncVars[gv] = true
		}
	}
	return w.nilFuncVars[g]
}

// BaseMem: constant contents of package-level arrays / slices / structs that
// are written only by the package initialiser (tables). Keys are abstract
// locations of the engine ("G:pkg.name|[i].field").
func (w *World) BaseMem() map[string]AV {
	if w.baseMem != nil {
		return w.baseMem
	}
	w.baseMem = map[string]AV{}
	eff := w.Effects()
	written := map[*ssa.Global]bool{}
	for fn, ef := range eff {
		if fn.Synthetic == "package initializer" || w.onceOfBody(fn) != nil {
			continue
		}
		for g := range ef.WritesGlobals {
			written[g] = true
		}
	}
	// what recognised lazy initialisations build: run F in the engine from the
	// state the initialisers leave and keep the constants it stores
	defer func() {
		for _, oi := range w.onceInits() {
			w.onceBuilding = true
			e := NewEngine(w)
			e.MaxSteps = 2000000
			paths := e.Run(oi.F, nil, nil)
			w.onceBuilding = false
			var ret []Path
			for _, p := range paths {
				if p.Ret != nil {
					ret = append(ret, p)
				}
			}
			if e.Err != nil || len(paths) != 1 || len(ret) != 1 || ret[0].St.unsupported != "" {
				continue // not a straight-line construction: contents stay unknown
			}
			for g := range oi.Globals {
				pre := "G:" + globalName(g)
				for loc, v := range ret[0].St.mem {
					if loc != pre && !strings.HasPrefix(loc, pre+"|") {
						continue
					}
					switch v.Kind {
					case KInt, KStr, KBool, KNil, KFunc:
						w.baseMem[loc] = v
					}
				}
			}
		}
	}()
	for _, pkg := range []*ssa.Package{w.Root, w.Enc} {
		for _, m := range pkg.Members {
			if gv, ok := m.(*ssa.Global); ok && w.nilFuncVar(gv) {
				w.baseMem["G:"+globalName(gv)] = AV{Kind: KNil}
			}
		}
		init := pkg.Func("init")
		if init == nil {
			continue
		}
		// local array literals whose slice is stored into a global
		sliceOf := map[*ssa.Alloc]*ssa.Global{}
		for _, b := range init.Blocks {
			for _, in := range b.Instrs {
				if st, ok := in.(*ssa.Store); ok {
					if g, ok := st.Addr.(*ssa.Global); ok {
						if sl, ok := st.Val.(*ssa.Slice); ok {
							if al, ok := sl.X.(*ssa.Alloc); ok && sl.Low == nil && sl.High == nil {
								sliceOf[al] = g
							}
						}
					}
				}
			}
		}
		for _, b := range init.Blocks {
			for _, in := range b.Instrs {
				st, ok := in.(*ssa.Store)
				if !ok {
					continue
				}
				var cv AV
				switch c := st.Val.(type) {
				case *ssa.Const:
					if c.Value == nil {
						continue
					}
					cv = constAV(c)
				case *ssa.Function:
					// a function literal without free variables, or a named function
					cv = AV{Kind: KFunc, Fn: c}
				default:
					continue
				}
				root, sel, ok := constAddrChain(st.Addr)
				if ok && sel == "" && cv.Kind == KFunc {
					// a package-level function variable that only its initialiser
					// writes: calls through it resolve to that function
					if g, isG := root.(*ssa.Global); isG && !written[g] && w.readOnlyOutsideInit(g) {
						w.baseMem["G:"+globalName(g)] = cv
					}
					continue
				}
				if !ok || sel == "" {
					continue
				}
				switch r := root.(type) {
				case *ssa.Global:
					if written[r] || !isAggregate(r.Type().(*types.Pointer).Elem()) || !w.readOnlyOutsideInit(r) {
						continue
					}
					w.baseMem["G:"+globalName(r)+"|"+sel] = cv
				case *ssa.Alloc:
					g := sliceOf[r]
					if g == nil {
						continue
					}
					if written[g] || !w.readOnlyOutsideInit(g) {
						continue
					}
					loc := allocLoc(r)
					w.baseMem[loc+"|"+sel] = cv
					at := r.Type().Underlying().(*types.Pointer).Elem().Underlying().(*types.Array)
					w.baseMem["G:"+globalName(g)] = AV{Kind: KSliceOf, Loc: loc, N: int(at.Len())}
				}
			}
		}
	}
	return w.baseMem
}

// constAddrChain follows FieldAddr / IndexAddr (constant index) chains to a
// root and renders the selector (".f", "[3]").
func constAddrChain(v ssa.Value) (root ssa.Value, sel string, ok bool) {
	switch x := v.(type) {
	case *ssa.Global, *ssa.Alloc:
		return v, "", true
	case *ssa.FieldAddr:
		r, s, ok := constAddrChain(x.X)
		if !ok {
			return nil, "", false
		}
		return r, s + "." + fieldName(x.X.Type(), x.Field), true
	case *ssa.IndexAddr:
		k, isK := constInt(x.Index)
		if !isK {
			return nil, "", false
		}
		if _, isPtr := x.X.Type().Underlying().(*types.Pointer); !isPtr {
			return nil, "", false
		}
		r, s, ok := constAddrChain(x.X)
		if !ok {
			return nil, "", false
		}
		return r, s + fmt.Sprintf("[%d]", k), true
	}
	return nil, "", false
}

// readOnlyOutsideInit: outside its package initialiser the variable is only
// loaded, or indexed / field-selected and then loaded.
// sliceReadOnly: the slice value v is only read: indexed for loads, measured,
// ranged over, re-sliced, or handed to a function (with a body) whose
// parameter is itself only read.
func sliceReadOnly(v ssa.Value, readOnly func(ssa.Value) bool, depth int) bool {
	if depth > 3 {
		return false
	}
	refs := v.Referrers()
	if refs == nil {
		return true
	}
	for _, r := range *refs {
		switch x := r.(type) {
		case *ssa.DebugRef, *ssa.Range:
		case *ssa.IndexAddr:
			if x.X != v || !readOnly(x) {
				return false
			}
		case *ssa.Index:
		case *ssa.Slice:
			if x.X != v || !sliceReadOnly(x, readOnly, depth+1) {
				return false
			}
		case *ssa.Call:
			if b, ok := x.Call.Value.(*ssa.Builtin); ok {
				if b.Name() == "len" || b.Name() == "cap" {
					continue
				}
				return false
			}
			callee := x.Call.StaticCallee()
			if callee == nil || callee.Blocks == nil {
				return false
			}
			for i, a := range x.Call.Args {
				if a == v {
					if i >= len(callee.Params) || !sliceReadOnly(callee.Params[i], readOnly, depth+1) {
						return false
					}
				}
			}
		default:
			return false
		}
	}
	return true
}

func (w *World) readOnlyOutsideInit(g *ssa.Global) bool {
	var readOnly func(v ssa.Value) bool
	readOnly = func(v ssa.Value) bool {
		refs := v.Referrers()
		if refs == nil {
			return true
		}
		for _, r := range *refs {
			switch x := r.(type) {
			case *ssa.UnOp, *ssa.DebugRef:
			case *ssa.IndexAddr:
				if !readOnly(x) {
					return false
				}
			case *ssa.FieldAddr:
				if !readOnly(x) {
					return false
				}
			default:
				return false
			}
		}
		return true
	}
	oi := w.onceOfGlobal(g)
	for fn := range w.AllFuncs {
		if !w.InRepo(fn) || fn.Blocks == nil || fn.Synthetic == "package initializer" || (oi != nil && oi.Body[fn]) {
			continue
		}
		for _, b := range fn.Blocks {
			for _, in := range b.Instrs {
				for _, op := range in.Operands(nil) {
					if *op != ssa.Value(g) {
						continue
					}
					switch x := in.(type) {
					case *ssa.UnOp:
					case *ssa.IndexAddr:
						if !readOnly(x) {
							return false
						}
					case *ssa.FieldAddr:
						if !readOnly(x) {
							return false
						}
					case *ssa.Slice:
						// g[:] handed around: read-only when every use of the slice only reads
						if x.X != ssa.Value(g) || !sliceReadOnly(x, readOnly, 0) {
							return false
						}
					default:
						return false
					}
				}
			}
		}
	}
	return true
}

// ---------- lazily initialised package state (sync.Once) ----------

// onceInit: a package-level sync.Once O whose only use is O.Do(F) with one
// function F, together with the package-level variables that F (and the
// functions only F runs) initialises. It is recognised only when nothing else
// writes those variables and every read of them outside F's body is dominated
// by a call O.Do(F) in the same function: then every reader sees the fully
// initialised value (Once gives the happens-before edge), the value never
// changes afterwards, and the initialisation is, for every observer, the same
// as if it had happened in the package initialiser.
type onceInit struct {
	O       *ssa.Global
	F       *ssa.Function
	Body    map[*ssa.Function]bool
	Globals map[*ssa.Global]bool
}

func isOnceDoCall(c *ssa.CallCommon) bool {
	f := c.StaticCallee()
	return f != nil && f.String() == "(*sync.Once).Do" && len(c.Args) == 2
}

func funcValue(v ssa.Value) *ssa.Function {
	for {
		if ct, ok := v.(*ssa.ChangeType); ok {
			v = ct.X
			continue
		}
		break
	}
	switch x := v.(type) {
	case *ssa.Function:
		if len(x.FreeVars) == 0 {
			return x
		}
	case *ssa.MakeClosure:
		if f, ok := x.Fn.(*ssa.Function); ok && len(x.Bindings) == 0 {
			return f
		}
	}
	return nil
}

// onceInits recognises the lazily initialised state of the repository.
func (w *World) onceInits() []*onceInit {
	if w.onceDone {
		return w.onceMemo
	}
	w.onceDone = true
	type use struct {
		fn *ssa.Function
		in ssa.Instruction
	}
	uses := map[*ssa.Global][]use{}
	fuses := map[*ssa.Function][]ssa.Instruction{}
	for fn := range w.AllFuncs {
		if !w.InRepo(fn) || fn.Blocks == nil {
			continue
		}
		for _, b := range fn.Blocks {
			for _, in := range b.Instrs {
				for _, op := range in.Operands(nil) {
					switch x := (*op).(type) {
					case *ssa.Global:
						if pt, ok := x.Type().(*types.Pointer); ok && pt.Elem().String() == "sync.Once" {
							uses[x] = append(uses[x], use{fn, in})
						}
					case *ssa.Function:
						fuses[x] = append(fuses[x], in)
					}
				}
			}
		}
	}
	var out []*onceInit
	var os []*ssa.Global
	for o := range uses {
		os = append(os, o)
	}
	sort.Slice(os, func(i, j int) bool { return globalName(os[i]) < globalName(os[j]) })
nextOnce:
	for _, o := range os {
		if !w.InRepoPath(o.Pkg.Pkg.Path()) {
			continue
		}
		var f *ssa.Function
		doSites := map[ssa.Instruction]bool{}
		for _, u := range uses[o] {
			ci, ok := u.in.(ssa.CallInstruction)
			if !ok || !isOnceDoCall(ci.Common()) || ci.Common().Args[0] != ssa.Value(o) {
				continue nextOnce
			}
			if _, isCall := u.in.(*ssa.Call); !isCall {
				continue nextOnce // deferred or spawned: not a plain "initialise, then use"
			}
			g := funcValue(ci.Common().Args[1])
			if g == nil || !w.InRepo(g) || g.Blocks == nil || (f != nil && g != f) {
				continue nextOnce
			}
			f = g
			doSites[u.in] = true
		}
		if f == nil {
			continue
		}
		// F is used for nothing else
		for _, in := range fuses[f] {
			if !doSites[in] {
				if mc, ok := in.(*ssa.MakeClosure); ok && mc.Fn == ssa.Value(f) {
					continue
				}
				continue nextOnce
			}
		}
		// the body: F and the unexported functions only the body calls
		body := map[*ssa.Function]bool{f: true}
		cg := w.CallGraph()
		for changed := true; changed; {
			changed = false
			for h := range body {
				node := cg.Nodes[h]
				if node == nil {
					continue
				}
				for _, e := range node.Out {
					c := e.Callee.Func
					if c == nil || body[c] || !w.InRepo(c) || c.Blocks == nil || e.Site == nil || e.Site.Common().StaticCallee() != c {
						continue
					}
					if c.Object() == nil || c.Object().Exported() || w.addressTaken()[c] {
						continue
					}
					only := true
					if cn := cg.Nodes[c]; cn != nil {
						for _, in := range cn.In {
							if in.Site != nil && in.Site.Common().StaticCallee() == c && !body[in.Caller.Func] {
								only = false
							}
						}
					}
					if only {
						body[c] = true
						changed = true
					}
				}
			}
		}
		// the variables the body writes
		oi := &onceInit{O: o, F: f, Body: body, Globals: map[*ssa.Global]bool{}}
		for h := range body {
			for _, b := range h.Blocks {
				for _, in := range b.Instrs {
					for _, op := range in.Operands(nil) {
						g, ok := (*op).(*ssa.Global)
						if !ok || g == o {
							continue
						}
						if !w.InRepoPath(g.Pkg.Pkg.Path()) {
							continue
						}
						if !globalUseReadOnly(in, g) {
							oi.Globals[g] = true
						}
					}
				}
			}
		}
		if len(oi.Globals) == 0 {
			continue
		}
		// nothing else writes them, and every read outside the body follows O.Do(F)
		for g := range oi.Globals {
			for fn := range w.AllFuncs {
				if !w.InRepo(fn) || fn.Blocks == nil || body[fn] {
					continue
				}
				for _, b := range fn.Blocks {
					for i, in := range b.Instrs {
						for _, op := range in.Operands(nil) {
							if *op != ssa.Value(g) {
								continue
							}
							if !globalUseReadOnly(in, g) {
								continue nextOnce // written elsewhere (the package initialiser included)
							}
							dominated := false
							for _, b2 := range fn.Blocks {
								for j, in2 := range b2.Instrs {
									if doSites[in2] && (b2 != b && b2.Dominates(b) || b2 == b && j < i) {
										dominated = true
									}
								}
							}
							if !dominated {
								continue nextOnce
							}
						}
					}
				}
			}
		}
		out = append(out, oi)
	}
	w.onceMemo = out
	return out
}

// globalUseReadOnly: instruction in uses the package-level variable g only to
// read it (a load, or an element / field address that is only loaded from).
func globalUseReadOnly(in ssa.Instruction, g *ssa.Global) bool {
	var readOnly func(v ssa.Value) bool
	readOnly = func(v ssa.Value) bool {
		refs := v.Referrers()
		if refs == nil {
			return true
		}
		for _, r := range *refs {
			switch x := r.(type) {
			case *ssa.UnOp, *ssa.DebugRef:
			case *ssa.IndexAddr:
				if !readOnly(x) {
					return false
				}
			case *ssa.FieldAddr:
				if !readOnly(x) {
					return false
				}
			default:
				return false
			}
		}
		return true
	}
	switch x := in.(type) {
	case *ssa.UnOp:
		if x.Op != token.MUL || x.X != ssa.Value(g) {
			return false
		}
		// a loaded map / slice that is updated is a write of the variable's contents
		for _, r := range *x.Referrers() {
			switch y := r.(type) {
			case *ssa.MapUpdate:
				if y.Map == ssa.Value(x) {
					return false
				}
			case *ssa.Call:
				if b, ok := y.Call.Value.(*ssa.Builtin); ok && (b.Name() == "delete" || b.Name() == "clear") {
					return false
				}
			case *ssa.IndexAddr:
				if !readOnly(y) {
					return false
				}
			}
		}
		return true
	case *ssa.IndexAddr:
		return readOnly(x)
	case *ssa.FieldAddr:
		return readOnly(x)
	case *ssa.Slice:
		// g[:] handed around: read-only when every use of the slice only reads
		return x.X == ssa.Value(g) && sliceReadOnly(x, readOnly, 0)
	case *ssa.DebugRef:
		return true
	}
	return false
}

// onceOfBody: fn belongs to the body of a recognised lazy initialisation.
func (w *World) onceOfBody(fn *ssa.Function) *onceInit {
	for _, oi := range w.onceInits() {
		if oi.Body[fn] {
			return oi
		}
	}
	return nil
}

// onceOfDo: the call is O.Do(F) of a recognised lazy initialisation.
func (w *World) onceOfDo(c *ssa.CallCommon) *onceInit {
	if !isOnceDoCall(c) {
		return nil
	}
	for _, oi := range w.onceInits() {
		if c.Args[0] == ssa.Value(oi.O) {
			return oi
		}
	}
	return nil
}

// onceOfGlobal: g is initialised by a recognised lazy initialisation.
func (w *World) onceOfGlobal(g *ssa.Global) *onceInit {
	for _, oi := range w.onceInits() {
		if oi.Globals[g] || oi.O == g {
			return oi
		}
	}
	return nil
}
