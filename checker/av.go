package main

// Abstract values and states of the E3 engine (disjunctive interval
// summaries with trace partitioning).

import (
	"fmt"
	"go/token"
	"go/types"
	"sort"
	"strconv"
	"strings"

	"golang.org/x/tools/go/ssa"
)

type AVKind int

const (
	KUnknown AVKind = iota // opaque value named Sym
	KInt                   // constant integer K
	KStr                   // constant string S
	KBool                  // constant bool B
	KNil                   // nil
	KLin                   // integer Term + K
	KCmp                   // boolean: Term Op K
	KAtom                  // boolean atom Sym (negated if Neg)
	KSym                   // symbolic non-numeric value Sym
	KAddr                  // address of abstract location Loc
	KTuple                 // Elems
	KZero                  // zero value (of a local)
	KIface                 // interface holding *Inner of dynamic type Dyn
	KSeq                   // statically known sequence Elems (slices built by append / literals)
	KSliceOf               // slice covering N elements of the array at Loc
	KFunc                  // function value Fn
	KAgg                   // aggregate (struct/array) value whose parts are stored under Loc
)

type AV struct {
	Kind   AVKind
	K      int64
	S      string
	B      bool
	Term   string
	Op     token.Token
	Sym    string
	Neg    bool
	NonNil bool
	Loc    string
	N      int
	Elems  []AV
	Inner  *AV
	Dyn    types.Type
	Fn     *ssa.Function
	// Cls: for error values, the sentinel classes reachable through %w
	// chains ("fresh" = an error with no sentinel, "external" = error of a
	// library call, "?" = not resolved).
	Cls []string
	// Src is the SSA value the abstract value was created from.
	Src ssa.Value
}

func avInt(k int64) AV  { return AV{Kind: KInt, K: k} }
func avBool(b bool) AV  { return AV{Kind: KBool, B: b} }
func avStr(s string) AV { return AV{Kind: KStr, S: s} }
func avNil() AV         { return AV{Kind: KNil} }
func avSym(s string) AV { return AV{Kind: KSym, Sym: s} }

// name gives the canonical spelling of a value, used to build larger terms.
func (a AV) name() string {
	switch a.Kind {
	case KInt:
		return strconv.FormatInt(a.K, 10)
	case KStr:
		return strconv.Quote(a.S)
	case KBool:
		return strconv.FormatBool(a.B)
	case KNil:
		return "nil"
	case KLin:
		if a.K == 0 {
			return a.Term
		}
		return fmt.Sprintf("(%s%+d)", a.Term, a.K)
	case KCmp:
		return fmt.Sprintf("(%s%s%d)", a.Term, a.Op, a.K)
	case KAtom:
		if a.Neg {
			return "!" + a.Sym
		}
		return a.Sym
	case KSym, KUnknown:
		return a.Sym
	case KAddr:
		return "&" + a.Loc
	case KTuple, KSeq:
		var p []string
		for _, e := range a.Elems {
			p = append(p, e.name())
		}
		if a.Kind == KSeq {
			return "[" + strings.Join(p, " ") + "]"
		}
		return "(" + strings.Join(p, ", ") + ")"
	case KZero:
		return "zero"
	case KIface:
		if a.Inner != nil {
			return "iface(" + a.Inner.name() + ")"
		}
		return "iface(?)"
	case KSliceOf:
		return fmt.Sprintf("%s[:%d]", a.Loc, a.N)
	case KFunc:
		if a.Fn != nil {
			return "func:" + a.Fn.String()
		}
	case KAgg:
		return "agg:" + a.Loc
	}
	return "?"
}

func (a AV) String() string {
	s := a.name()
	if len(a.Cls) > 0 {
		s += "{" + strings.Join(a.Cls, ",") + "}"
	}
	return s
}

// nilness: +1 known non-nil, -1 known nil, 0 unknown (before consulting atoms).
func (a AV) nilness() int {
	switch a.Kind {
	case KNil:
		return -1
	case KAddr, KIface, KSliceOf, KFunc:
		return 1
	case KSeq:
		return 1
	case KZero:
		return -1
	case KStr:
		return 1
	}
	if a.NonNil {
		return 1
	}
	return 0
}

// Event is something a path did that a rule may want to see.
type Event struct {
	Kind   string // "call" | "store" | "enter"
	Callee string // resolved callee name, or "invoke T.M"
	Method string // bare function/method name
	Recv   *AV
	Args   []AV
	Result AV
	Loc    string // store: location written
	Val    AV     // store: value
	// Parts: map update with an aggregate value: its parts when it was stored
	// (selector below the aggregate -> value)
	Parts  map[string]AV
	Instr  ssa.Instruction
	Fn     *ssa.Function // enclosing function (after inlining: the callee)
	Static *ssa.Function // call: static in-repo/external callee if any
	Depth  int
	// Unmodelled: an external call for which no model exists.
	Unmodelled bool
}

func (e Event) String() string {
	switch e.Kind {
	case "store":
		return fmt.Sprintf("store %s := %s", e.Loc, e.Val)
	case "enter":
		return "enter " + e.Callee
	}
	var as []string
	if e.Recv != nil {
		as = append(as, "recv="+e.Recv.String())
	}
	for _, a := range e.Args {
		as = append(as, a.String())
	}
	return fmt.Sprintf("call %s(%s) -> %s", e.Callee, strings.Join(as, ", "), e.Result)
}

type State struct {
	terms  map[string]iset
	atoms  map[string]bool
	mem    map[string]AV
	env    map[ssa.Value]AV
	events []Event
	epoch  int
	iter   int // bumped whenever a block is entered again on the path (unrolled loop iterations): fresh values get distinct names
	splits int
	depth  int
	trail  []string
	// impl: when the atom (key) becomes true, the listed atoms become false
	// (used for "result is non-nil when the error is nil").
	impl map[string][]string
	// unsupported is set when the path met a construct outside the fragment.
	unsupported string
	// defers: pending deferred calls (all frames; a frame runs its own at RunDefers)
	defers []deferRec
}

func newState() *State {
	return &State{terms: map[string]iset{}, atoms: map[string]bool{}, mem: map[string]AV{}, env: map[ssa.Value]AV{}}
}

func (s *State) clone() *State {
	n := &State{terms: make(map[string]iset, len(s.terms)), atoms: make(map[string]bool, len(s.atoms)),
		mem: make(map[string]AV, len(s.mem)), env: make(map[ssa.Value]AV, len(s.env)),
		epoch: s.epoch, iter: s.iter, splits: s.splits, depth: s.depth, unsupported: s.unsupported,
		defers: append([]deferRec(nil), s.defers...)}
	for k, v := range s.terms {
		n.terms[k] = v
	}
	for k, v := range s.atoms {
		n.atoms[k] = v
	}
	for k, v := range s.mem {
		n.mem[k] = v
	}
	for k, v := range s.env {
		n.env[k] = v
	}
	if len(s.impl) > 0 {
		n.impl = make(map[string][]string, len(s.impl))
		for k, v := range s.impl {
			n.impl[k] = v
		}
	}
	n.events = append([]Event(nil), s.events...)
	n.trail = append([]string(nil), s.trail...)
	return n
}

// TermSet returns the current value set of an integer term.
func (s *State) TermSet(t string) (iset, bool) {
	v, ok := s.terms[t]
	return v, ok
}

// Describe prints the constraints of a state in canonical order.
func (s *State) Describe() string {
	var ts []string
	for k, v := range s.terms {
		ts = append(ts, k+"∈"+v.String())
	}
	sort.Strings(ts)
	var as []string
	for k, v := range s.atoms {
		if v {
			as = append(as, k)
		} else {
			as = append(as, "¬"+k)
		}
	}
	sort.Strings(as)
	return strings.Join(append(ts, as...), " ∧ ")
}

// NilOf reports what the state knows about v being nil: +1 non-nil, -1 nil, 0 unknown.
func (s *State) NilOf(v AV) int {
	if n := v.nilness(); n != 0 {
		return n
	}
	if v.Kind == KSym || v.Kind == KUnknown {
		if b, ok := s.atoms["nil("+v.Sym+")"]; ok {
			if b {
				return -1
			}
			return 1
		}
	}
	return 0
}

// Path is the outcome of one abstract path through a function.
type Path struct {
	St    *State
	Rets  []AV
	Ret   *ssa.Return
	Panic *ssa.Panic
	Cut   *ssa.BasicBlock // non-nil: exploration stopped at a non-deterministic loop re-entry
	Stop  ssa.Instruction // non-nil: stopped at a requested instruction
	// Loop: the path returned to a loop header whose state had already been
	// generalised (the path stands for "and so on for further iterations").
	Loop *ssa.BasicBlock
}
