package main

// E9 — regular-language equality of (*regexp.Regexp).MatchString for a constant
// pattern against a reference language, by subset construction over the
// regexp/syntax instruction program (unanchored search, sticky accept, ^/$
// as text/line assertions). This analyses a constant of the source; no
// matching engine is run on inputs and none of the repository's code runs.

import (
	"fmt"
	"regexp/syntax"
	"sort"
	"strings"
)

type nfa struct{ p *syntax.Prog }

func compileRE(pat string) (*nfa, error) {
	re, err := syntax.Parse(pat, syntax.Perl)
	if err != nil {
		return nil, err
	}
	p, err := syntax.Compile(re.Simplify())
	if err != nil {
		return nil, err
	}
	for _, in := range p.Inst {
		if in.Op == syntax.InstEmptyWidth {
			need := syntax.EmptyOp(in.Arg)
			if need&^(syntax.EmptyBeginText|syntax.EmptyEndText|syntax.EmptyBeginLine|syntax.EmptyEndLine) != 0 {
				return nil, fmt.Errorf("word-boundary assertion is outside the fragment")
			}
		}
	}
	return &nfa{p}, nil
}

// closure of pcs under empty transitions given assertion flags available at this position.
// returns set of pcs sitting on rune-consuming instructions, and whether Match is reachable.
func (n *nfa) closure(pcs []uint32, flags syntax.EmptyOp) ([]uint32, bool) {
	seen := map[uint32]bool{}
	var out []uint32
	match := false
	var visit func(pc uint32)
	visit = func(pc uint32) {
		if seen[pc] {
			return
		}
		seen[pc] = true
		in := &n.p.Inst[pc]
		switch in.Op {
		case syntax.InstAlt, syntax.InstAltMatch:
			visit(in.Out)
			visit(in.Arg)
		case syntax.InstCapture, syntax.InstNop:
			visit(in.Out)
		case syntax.InstEmptyWidth:
			need := syntax.EmptyOp(in.Arg)
			if need&^(syntax.EmptyBeginText|syntax.EmptyEndText|syntax.EmptyBeginLine|syntax.EmptyEndLine) != 0 {
				panic("undecided: word-boundary assertion")
			}
			if need&flags == need {
				visit(in.Out)
			}
		case syntax.InstMatch:
			match = true
		case syntax.InstFail:
		default:
			out = append(out, pc)
		}
	}
	for _, pc := range pcs {
		visit(pc)
	}
	sort.Slice(out, func(i, j int) bool { return out[i] < out[j] })
	return out, match
}

// DFA state: (sorted rune-inst pcs "pending before assertions", matched-sticky, atStart, prevNL)
type dstate struct {
	pcs     string
	matched bool
	start   bool
	prevNL  bool
}

func pcKey(pcs []uint32) string { return fmt.Sprint(pcs) }
func unkey(s string) []uint32 {
	var out []uint32
	s = strings.Trim(s, "[]")
	if s == "" {
		return nil
	}
	for _, f := range strings.Fields(s) {
		var v uint32
		fmt.Sscan(f, &v)
		out = append(out, v)
	}
	return out
}

// "entry" pcs are instruction pcs BEFORE closure (closure depends on flags of the position).
func (n *nfa) initial() dstate { return dstate{pcs: pcKey([]uint32{uint32(n.p.Start)}), start: true} }

func (n *nfa) flagsAt(d dstate, nextIsNL, atEnd bool) syntax.EmptyOp {
	var f syntax.EmptyOp
	if d.start {
		f |= syntax.EmptyBeginText | syntax.EmptyBeginLine
	}
	if d.prevNL {
		f |= syntax.EmptyBeginLine
	}
	if atEnd {
		f |= syntax.EmptyEndText | syntax.EmptyEndLine
	}
	if nextIsNL {
		f |= syntax.EmptyEndLine
	}
	return f
}

func (n *nfa) accepts(d dstate) bool {
	if d.matched {
		return true
	}
	_, m := n.closure(n.entry(d), n.flagsAt(d, false, true))
	return m
}

// unanchored search: a new thread may start at every position
func (n *nfa) entry(d dstate) []uint32 {
	pcs := unkey(d.pcs)
	pcs = append(pcs, uint32(n.p.Start))
	return pcs
}

func (n *nfa) step(d dstate, r rune) dstate {
	if d.matched {
		return dstate{matched: true}
	}
	cl, m := n.closure(n.entry(d), n.flagsAt(d, r == '\n', false))
	if m {
		return dstate{matched: true}
	}
	var next []uint32
	seen := map[uint32]bool{}
	for _, pc := range cl {
		in := &n.p.Inst[pc]
		if in.MatchRune(r) && !seen[in.Out] {
			seen[in.Out] = true
			next = append(next, in.Out)
		}
	}
	sort.Slice(next, func(i, j int) bool { return next[i] < next[j] })
	return dstate{pcs: pcKey(next), prevNL: r == '\n'}
}

// alphabet representatives: boundaries of all rune classes in both programs plus fixed probes
func reps(ns ...*nfa) []rune {
	b := map[rune]bool{0: true, '0': true, '9': true, '-': true, '\n': true, 'a': true, 0x0663: true, 0x10FFFF: true, '/': true, ':': true, ',': true, '.': true}
	for _, n := range ns {
		for _, in := range n.p.Inst {
			for _, r := range in.Rune {
				for _, x := range []rune{r - 1, r, r + 1} {
					if x >= 0 && x <= 0x10FFFF {
						b[x] = true
					}
				}
			}
		}
	}
	var out []rune
	for r := range b {
		out = append(out, r)
	}
	sort.Slice(out, func(i, j int) bool { return out[i] < out[j] })
	return out
}

// equal decides L(a)=L(b) under MatchString semantics; returns shortest distinguishing string otherwise
func langEqual(a, b *nfa) (bool, string) {
	type pair struct{ x, y dstate }
	alpha := reps(a, b)
	start := pair{a.initial(), b.initial()}
	seen := map[pair]bool{start: true}
	type qi struct {
		p pair
		w string
	}
	q := []qi{{start, ""}}
	for len(q) > 0 {
		cur := q[0]
		q = q[1:]
		if a.accepts(cur.p.x) != b.accepts(cur.p.y) {
			return false, cur.w
		}
		for _, r := range alpha {
			np := pair{a.step(cur.p.x, r), b.step(cur.p.y, r)}
			if !seen[np] {
				seen[np] = true
				q = append(q, qi{np, cur.w + string(r)})
			}
		}
	}
	return true, fmt.Sprintf("(%d product states)", len(seen))
}

const (
	refEAN13  = `^[0-9]{13}$`
	refEAN13p = `^[0-9]{13}-[0-9]{5}$`
)

// classifyPattern names the language of MatchString(pattern): "EAN13",
// "EAN13+5", or "other" together with shortest strings distinguishing it from
// both reference languages.
func classifyPattern(pat string) (class string, detail string, err error) {
	n, err := compileRE(pat)
	if err != nil {
		return "", "", err
	}
	r13, _ := compileRE(refEAN13)
	r18, _ := compileRE(refEAN13p)
	if ok, w := langEqual(n, r13); ok {
		return "EAN13", w, nil
	} else if ok2, w2 := langEqual(n, r18); ok2 {
		return "EAN13+5", w2, nil
	} else {
		return "other", fmt.Sprintf("differs from [0-9]{13} on %q and from [0-9]{13}-[0-9]{5} on %q", w, w2), nil
	}
}
