package main

// C08 — validating entry points never let an invalid claims-set through.

import (
	"fmt"
	"go/types"
	"regexp"
	"strings"

	"golang.org/x/tools/go/ssa"
)

func init() { register("C08", checkC08) }

type gateSpec struct {
	Recv    string // "" for package-level functions, else receiver type name
	Name    string
	Sibling string // non-validating counterpart ("" = none)
	Kind    string // attach | encode | sign | decode | decode-evidence
}

var gates = []gateSpec{
	{"Evidence", "SetClaims", "", "attach"},
	{"", "ValidateAndEncodeClaimsToCBOR", "EncodeClaimsToCBOR", "encode"},
	{"", "ValidateAndEncodeClaimsToJSON", "EncodeClaimsToJSON", "encode"},
	{"Evidence", "ValidateAndSign", "Sign", "sign"},
	{"", "DecodeAndValidateClaimsFromCBOR", "DecodeClaimsFromCBOR", "decode"},
	{"", "DecodeAndValidateClaimsFromJSON", "DecodeClaimsFromJSON", "decode"},
	{"", "DecodeAndValidateEvidenceFromCOSE", "DecodeEvidenceFromCOSE", "decode-evidence"},
	{"", "DecodeJSONClaims", "DecodeUnvalidatedJSONClaims", "decode"},
}

// noInlineValidate keeps every in-repo method called Validate opaque, so that
// a gate's summary shows the call (and the nil-ness of its result) rather
// than the ten getters behind it.
func noInlineValidate(w *World) func(e *Engine) {
	return func(e *Engine) {
		e.NoInline = map[*ssa.Function]bool{}
		for _, fn := range w.Funcs {
			if fn.Name() == "Validate" && fn.Signature.Recv() != nil {
				e.NoInline[fn] = true
			}
		}
		for fn := range w.AllFuncs {
			if fn.Name() == "Validate" && w.InRepo(fn) {
				e.NoInline[fn] = true
			}
		}
	}
}

func (w *World) findFunc(recv, name string) *ssa.Function {
	if recv == "" {
		return w.Root.Func(name)
	}
	t := w.NamedType(w.Root, recv)
	if t == nil {
		return nil
	}
	return w.MethodImpl(t, name)
}

func isValidateCall(ev Event) bool {
	return ev.Kind == "call" && ev.Method == "Validate" && (ev.Recv != nil || len(ev.Args) > 0)
}

func validateRecv(ev Event) AV {
	if ev.Recv != nil {
		return *ev.Recv
	}
	return ev.Args[0]
}

func isMarshalCall(ev Event) (AV, bool) {
	if ev.Kind != "call" {
		return AV{}, false
	}
	switch {
	case strings.HasSuffix(ev.Callee, "cbor/v2.EncMode.Marshal") && len(ev.Args) == 1:
		return ev.Args[0], true
	case ev.Callee == "encoding/json.Marshal" && len(ev.Args) == 1:
		return ev.Args[0], true
	}
	return AV{}, false
}

func avSubject(a AV) string {
	if a.Kind == KIface && a.Inner != nil {
		return a.Inner.name()
	}
	return a.name()
}

func checkC08(w *World, r *Recorder) propInfo {
	info := propInfo{
		Explanation: "For each of the seven validating entry points (and the deprecated alias) the path engine enumerates every path of the gate with in-repo callees inlined and every Validate method kept as an opaque call. G1: each path that can return a nil error contains a Validate call on the very value that is attached / encoded / signed / returned, the path condition contains 'that call returned nil', the call precedes the use, and nothing touches the value in between. G2: each path with a non-nil error returns nil for every other result, and SetClaims performs no store to the Evidence on such a path. G3: with the Validate call removed, the success paths of the gate perform the same sequence of calls and stores on the same (parameter-normalised) operands and return the same values as the non-validating sibling. Fully decided for in-repo code; the meaning of Validate itself is C01.",
		Rule:        "one obligation per (gate, path) for G1/G2 and per gate for G3; all are decided by the path engine (non-trivial)",
		Trusted:     []string{"go/packages+go/types+go/ssa (x/tools v0.29.0)", "checker's path engine and library model table (Marshal/Unmarshal/Sign do not validate)"},
		Assumptions: []string{"the exported names of the gates are API"},
	}
	prep := noInlineValidate(w)
	for _, g := range gates {
		c08Gate(w, r, g, prep)
	}
	// G4: like their non-validating siblings, the validating encoders return fresh memory
	for _, n := range []string{"ValidateAndEncodeClaimsToCBOR", "ValidateAndEncodeClaimsToJSON"} {
		if fn := w.Root.Func(n); fn != nil {
			ruleResultFresh(w, r, "C08-G4", fn, n, 0)
		}
	}
	// G5: "accepted by the validating decoder" and "decoded, then validated" are
	// the same verdict only if which profile a JSON document is decoded under is
	// a function of the document: selection inside the register loop is under
	// name equality and conflicting matches are an error (C16-N4 run again under
	// this property) — not whichever entry the map iteration reaches last
	importRules(w, r, checkC16, "C08-G5", func(o *Oblig) bool { return o.Rule == "C16-N4" })
	r.Floor("C08-G1", 8)
	r.Floor("C08-G2", 8)
	r.Floor("C08-G3", 7)
	return info
}

func c08PathKey(p Path) string {
	d := p.St.Describe()
	d = reTmp.ReplaceAllString(d, "")
	if len(d) > 180 {
		d = d[:180]
	}
	return d
}

var reLocal = regexp.MustCompile(`L:[A-Za-z0-9_\[\]\*\./]+?\.(t\d+|[a-z][A-Za-z0-9_]*)`)
var reTmp = regexp.MustCompile(`#[A-Za-z0-9_\[\]\*\./]+\.t\d+(@\d+(~\d+)?)?|@\d+(~\d+)?`)

func c08Mentions(ev Event, subject string) bool {
	if ev.Recv != nil && avSubject(*ev.Recv) == subject {
		return true
	}
	for _, a := range ev.Args {
		if avSubject(a) == subject {
			return true
		}
	}
	return false
}

func c08PureUse(ev Event) bool {
	if _, ok := isMarshalCall(ev); ok {
		return true
	}
	return isValidateCall(ev)
}

// c08Subject: the value that the gate lets through on a success path, and the
// index of the event that uses it (-1: used only by being returned).
func c08Subject(g gateSpec, fn *ssa.Function, p Path) (string, int, string) {
	switch g.Kind {
	case "attach":
		recv := fn.Params[0].Name()
		subj, idx := "", -1
		for i, ev := range p.St.events {
			if ev.Kind == "store" && strings.HasPrefix(ev.Loc, "P:"+recv+"|") {
				if subj != "" && subj != avSubject(ev.Val) {
					return "", -1, "several different values are attached on one path"
				}
				if subj == "" {
					subj, idx = avSubject(ev.Val), i
				}
			}
		}
		if subj == "" {
			return "", -1, "success path attaches nothing"
		}
		return subj, idx, ""
	case "encode", "sign":
		subj, idx := "", -1
		for i, ev := range p.St.events {
			if a, ok := isMarshalCall(ev); ok {
				if subj != "" && subj != avSubject(a) {
					return "", -1, "several different values are encoded on one path"
				}
				if subj == "" {
					subj, idx = avSubject(a), i
				}
			}
		}
		if subj == "" {
			return "", -1, "success path encodes nothing"
		}
		return subj, idx, ""
	case "decode":
		if len(p.Rets) == 0 {
			return "", -1, "no result"
		}
		return avSubject(p.Rets[0]), -1, ""
	case "decode-evidence":
		if len(p.Rets) == 0 {
			return "", -1, "no result"
		}
		a := p.Rets[0]
		if a.Kind != KAddr {
			return "", -1, fmt.Sprintf("returned evidence %s is not an object built in this call", a)
		}
		v, ok := p.St.mem[ensureSel(a.Loc)+".Claims"]
		if !ok {
			return "", -1, "returned evidence has no claims attached on this path"
		}
		return avSubject(v), -1, ""
	}
	return "", -1, "unknown gate kind"
}

// ---- G3 ----

func normEvents(fn *ssa.Function, p Path, dropValidate bool) []string {
	var reps []*regexp.Regexp
	var with []string
	for i, prm := range fn.Params {
		reps = append(reps, regexp.MustCompile(`(^|[^A-Za-z0-9_])`+regexp.QuoteMeta(prm.Name())+`($|[^A-Za-z0-9_])`))
		with = append(with, fmt.Sprintf("${1}$$%d${2}", i))
	}
	norm := func(s string) string {
		s = reTmp.ReplaceAllString(s, "")
		s = reLocal.ReplaceAllString(s, "L:")
		for i, re := range reps {
			s = re.ReplaceAllString(s, with[i])
			s = re.ReplaceAllString(s, with[i])
		}
		return s
	}
	var out []string
	for _, ev := range p.St.events {
		if ev.Kind == "enter" || ev.Kind == "leave" {
			continue
		}
		if dropValidate && isValidateCall(ev) {
			continue
		}
		if ev.Kind == "call" && (ev.Callee == "fmt.Errorf" || ev.Callee == "errors.New") {
			continue
		}
		switch ev.Kind {
		case "store":
			out = append(out, norm("store "+ev.Loc+" := "+ev.Val.name()))
		default:
			var as []string
			if ev.Recv != nil {
				as = append(as, ev.Recv.name())
			}
			for _, a := range ev.Args {
				as = append(as, a.name())
			}
			out = append(out, norm("call "+ev.Callee+"("+strings.Join(as, ",")+")"))
		}
	}
	// resetting a field to a fresh object twice in a row (with nothing but the
	// dropped validation in between) is the same as doing it once
	for i := 0; i+3 < len(out); {
		if out[i] == out[i+2] && out[i+1] == out[i+3] && strings.HasPrefix(out[i], "call "+cNewMsg+"(") && strings.HasPrefix(out[i+1], "store ") && strings.Contains(out[i+1], ":= fresh:") {
			out = append(out[:i], out[i+2:]...)
			continue
		}
		i++
	}
	var rs []string
	ei := errIndex(fn)
	for i, a := range p.Rets {
		// success projection: an error result that may be nil is nil here
		if p.St.NilOf(a) == -1 || (i == ei && p.St.NilOf(a) == 0) {
			rs = append(rs, "nil")
			continue
		}
		rs = append(rs, a.name())
	}
	out = append(out, norm("return "+strings.Join(rs, ",")))
	return out
}

func c08Sibling(w *World, r *Recorder, g gateSpec, fn *ssa.Function, s *Summary, prep func(*Engine)) {
	gkey := g.Name
	if g.Recv != "" {
		gkey = g.Recv + "." + g.Name
	}
	sib := w.findFunc(g.Recv, g.Sibling)
	if sib == nil {
		r.Undecide("C08-G3", gkey, w.FnPos(fn), "non-validating sibling "+g.Sibling+" not found")
		return
	}
	if !types.Identical(fn.Signature.Params(), sib.Signature.Params()) || !types.Identical(fn.Signature.Results(), sib.Signature.Results()) {
		r.Refute("C08-G3", gkey, w.FnPos(fn), "gate and sibling "+g.Sibling+" have different signatures")
		return
	}
	if c08CallsSibling(fn, sib, s) {
		r.Prove("C08-G3", gkey, w.FnPos(fn), "every success path is: one call of "+g.Sibling+" on the gate's own arguments, Validate on its result, return of that result", true)
		return
	}
	ss := w.SummariseWith(sib, prep)
	if ok, why := ss.Complete(); !ok {
		r.Undecide("C08-G3", gkey, w.FnPos(sib), "sibling: "+why)
		return
	}
	collect := func(f *ssa.Function, sum *Summary, drop bool) map[string]bool {
		out := map[string]bool{}
		ei := errIndex(f)
		for _, p := range sum.Paths {
			if p.Ret == nil {
				continue
			}
			if _, nl := errOf(p, ei); nl == 1 {
				continue
			}
			out[strings.Join(normEvents(f, p, drop), " ; ")] = true
		}
		return out
	}
	a := collect(fn, s, true)
	b := collect(sib, ss, false)
	var diff []string
	for k := range a {
		if !b[k] {
			diff = append(diff, "gate only: "+k)
		}
	}
	for k := range b {
		if !a[k] {
			diff = append(diff, "sibling only: "+k)
		}
	}
	r.Check(len(diff) == 0, "C08-G3", gkey, w.FnPos(fn),
		fmt.Sprintf("minus the Validate call, %d success path(s) equal those of %s", len(a), g.Sibling),
		"after removing the validation step the gate does not behave like "+g.Sibling+": "+joinLimited(diff, 2))
}

// c08CallsSibling: on every success path the gate's own (depth 0) actions
// are exactly one call of the sibling with the gate's parameters in order,
// Validate calls, and the return of the sibling's results.
func c08CallsSibling(fn, sib *ssa.Function, s *Summary) bool {
	ei := errIndex(fn)
	n := 0
	for _, p := range s.Paths {
		if p.Ret == nil {
			continue
		}
		if _, nl := errOf(p, ei); nl == 1 {
			continue
		}
		n++
		calls := 0
		var res []AV
		inside := -1 // depth at which the sibling was entered, -1 = outside
		for _, ev := range p.St.events {
			if inside >= 0 {
				if ev.Kind == "leave" && ev.Static == sib && ev.Depth == inside {
					res = ev.Args
					inside = -1
				}
				continue
			}
			switch {
			case (ev.Kind == "enter" || ev.Kind == "call") && ev.Static == sib:
				calls++
				if len(ev.Args) != len(fn.Params) {
					return false
				}
				for i, a := range ev.Args {
					if a.name() != fn.Params[i].Name() {
						return false
					}
				}
				if ev.Kind == "call" {
					if ev.Result.Kind == KTuple {
						res = ev.Result.Elems
					} else {
						res = []AV{ev.Result}
					}
				} else {
					inside = ev.Depth
				}
			case ev.Kind == "enter" || ev.Kind == "leave": // helpers of the gate
			case isValidateCall(ev):
			case ev.Kind == "call" && (ev.Callee == "fmt.Errorf" || ev.Callee == "errors.New"):
			default:
				return false
			}
		}
		if calls != 1 || len(res) != len(p.Rets) {
			return false
		}
		for i, a := range p.Rets {
			if i == ei {
				continue
			}
			if a.name() != res[i].name() {
				return false
			}
		}
	}
	return n > 0
}

// c08Gate evaluates G1-G3 for one validating entry point.
func c08Gate(w *World, r *Recorder, g gateSpec, prep func(*Engine)) {

	fn := w.findFunc(g.Recv, g.Name)
	gkey := g.Name
	if g.Recv != "" {
		gkey = g.Recv + "." + g.Name
	}
	if fn == nil {
		r.Undecide("C08-anchor", gkey, "-", "validating entry point not found")
		return
	}
	s := w.SummariseWith(fn, prep)
	r.Count("paths", len(s.Paths))
	r.Count("engine_steps", s.Steps)
	if ok, why := s.Complete(); !ok {
		r.Undecide("C08-G1", gkey, w.FnPos(fn), why)
		return
	}
	ei := errIndex(fn)
	successes := 0
	for pi, p := range s.Paths {
		if p.Panic != nil {
			r.Note("%s: path %d panics (%s) — C05's business", gkey, pi, p.St.Describe())
			continue
		}
		_, nl := errOf(p, ei)
		pkey := fmt.Sprintf("%s#%s", gkey, c08PathKey(p))
		if nl == 1 {
			// G2
			ok := true
			why := ""
			for i, a := range p.Rets {
				if i == ei {
					continue
				}
				if a.Kind != KNil {
					ok = false
					why = fmt.Sprintf("result %d is %s on a failing path", i, a)
				}
			}
			if g.Kind == "attach" {
				recv := fn.Params[0].Name()
				for _, ev := range p.St.events {
					if ev.Kind == "store" && strings.HasPrefix(ev.Loc, "P:"+recv+"|") {
						ok = false
						why = fmt.Sprintf("store to %s on a failing path", ev.Loc)
					}
				}
			}
			r.Check(ok, "C08-G2", pkey, w.InstrPos(p.Ret), "failing path returns nil outputs and attaches nothing", why+" ["+p.St.Describe()+"]")
			continue
		}
		successes++
		// G1
		subject, useIdx, err := c08Subject(g, fn, p)
		if err != "" {
			r.Refute("C08-G1", pkey, w.InstrPos(p.Ret), err)
			continue
		}
		found := false
		why := fmt.Sprintf("no Validate() call on %s with a nil result on this path", subject)
		for i, ev := range p.St.events {
			if !isValidateCall(ev) {
				continue
			}
			if avSubject(validateRecv(ev)) != subject {
				continue
			}
			if p.St.NilOf(ev.Result) != -1 {
				why = fmt.Sprintf("Validate() on %s is called but the path does not require its result to be nil", subject)
				continue
			}
			if useIdx >= 0 && i > useIdx {
				why = fmt.Sprintf("Validate() on %s happens after the value is used", subject)
				continue
			}
			// nothing touches the subject between validation and use
			clean := true
			end := len(p.St.events)
			if useIdx >= 0 {
				end = useIdx
			}
			for _, mid := range p.St.events[i+1 : end] {
				if mid.Kind == "call" && c08Mentions(mid, subject) && !c08PureUse(mid) {
					clean = false
					why = fmt.Sprintf("%s is passed to %s between validation and use", subject, mid.Callee)
				}
				if mid.Kind == "store" && strings.Contains(mid.Loc, subject) && g.Kind != "attach" {
					clean = false
					why = fmt.Sprintf("store to %s between validation and use", mid.Loc)
				}
			}
			if clean {
				found = true
				break
			}
		}
		r.Check(found, "C08-G1", pkey, w.InstrPos(p.Ret),
			fmt.Sprintf("success only under Validate(%s)==nil, checked before use", subject), why+" ["+p.St.Describe()+"]")
	}
	if successes == 0 {
		r.Refute("C08-G1", gkey+"#reachable-success", w.FnPos(fn), "the gate has no path that can succeed")
	}
	// G3
	if g.Sibling != "" {
		c08Sibling(w, r, g, fn, s, prep)
	}
}
