package main

// C01 — Validate() accepts a claims-set iff it satisfies its profile's rules.

import (
	"fmt"
	"go/types"
	"sort"
	"strings"

	"golang.org/x/tools/go/ssa"
)

func init() { register("C01", checkC01) }

func checkC01(w *World, r *Recorder) propInfo {
	info := propInfo{
		Explanation: "The biconditional over the product of all claim values is decided by decomposition. R1 (walk): on the path summary of ValidateClaims — getters and FilterError kept opaque — the only path returning nil passes the nil edge of FilterError applied to each of the ten IClaims getters called on the parameter, and every other path returns a non-nil error right after one of them failed; hence ValidateClaims(c)=nil ⇔ every filtered getter result is nil. Each built-in Validate method returns ValidateClaims(&receiver copy) unchanged; likewise ValidateSwComponent with the five ISwComponent getters. FilterError's shape is compared with its specification (as in C13-K4). R2 (getters): each of the 20 profile getters and the 5 component getters is summarised by the interval engine with its validators inlined; the outcome (ok / missing-mandatory / missing-optional / wrong-syntax / wrong-profile) of every cell of the value space — all lengths, not a sample — is compared with the profile table; the two certification-reference patterns are pinned to the languages [0-9]{13} and [0-9]{13}-[0-9]{5} by automaton equality (E9); successful paths return the stored value. R3 (components): the container's Values/Validate walk validates every element from index 0 on every iteration, fails on the first invalid one, succeeds only through the loop exit and copies elements index for index. R4 (reads nothing else): the functions reachable from Validate read only claim fields, CanonicalProfile, container contents, sentinel errors and the two patterns (initialiser-only), write nothing, and call no clock / randomness / environment API.",
		Rule:        "obligations: per walker path, per getter (cell-wise comparison), per container walk, per global read; non-trivial = decided by engine / automaton / dominance analysis",
		Trusted:     []string{"go/types+go/ssa", "interval engine, cube comparison", "regexp/syntax (pattern parsing)", "model table: eat.Nonce/eat.Profile accessors, regexp.MatchString is a pure function of (pattern, input)"},
		Assumptions: []string{"only the two built-in profiles and the library's component type are covered; third-party implementations are outside the quantifier"},
	}
	root := w.Root
	ic := w.iface(root, "IClaims")
	isc := w.iface(root, "ISwComponent")
	if ic == nil || isc == nil {
		r.Undecide("C01-anchor", "IClaims/ISwComponent", "-", "interfaces not found")
		return info
	}

	// ---------- R1 ----------
	c01Walker(w, r, "ValidateClaims", ic)
	c01Walker(w, r, "ValidateSwComponent", isc)
	c13FilterErrorRule(w, r, "C01-R1")
	for _, t := range append(w.Implementations(ic), w.Implementations(isc)...) {
		if builtinSpecs[t.Obj().Name()] == nil {
			continue
		}
		walker := "ValidateClaims"
		if t.Obj().Name() == "SwComponent" {
			walker = "ValidateSwComponent"
		}
		c01ValidateForwards(w, r, t, walker)
	}

	// ---------- R2 ----------
	for _, t := range append(w.Implementations(ic), w.Implementations(isc)...) {
		rows := builtinSpecs[t.Obj().Name()]
		if rows == nil {
			r.Note("no table for in-repo implementation %s: not checked", t.Obj().Name())
			continue
		}
		for i := range rows {
			row := &rows[i]
			if row.Getter == "" {
				continue
			}
			fn := w.MethodImpl(t, row.Getter)
			if fn == nil {
				r.Undecide("C01-R2", t.Obj().Name()+"."+row.Getter, "-", "getter not found")
				continue
			}
			if row.Rule == ruleComponents {
				c01ComponentsGetter(w, r, t, fn, row)
				continue
			}
			c01Getter(w, r, t, fn, row)
		}
	}

	// ---------- R3 ----------
	n := 0
	for _, fn := range w.Funcs {
		if fn.Signature.Recv() == nil || len(fn.TypeArgs()) == 0 {
			continue
		}
		if baseName(fn) != "Values" && baseName(fn) != "Validate" {
			continue
		}
		if !strings.Contains(fn.Signature.Recv().Type().String(), "SwComponents[") {
			continue
		}
		n++
		rep := validatingWalk(w, fn, func(s ssa.Value) bool { return loadsField(s, "values") }, baseName(fn) == "Values")
		if !rep.OK && baseName(fn) == "Values" {
			if alt := validatedThenCopied(w, fn, func(s ssa.Value) bool { return loadsField(s, "values") }); alt.OK {
				rep = alt
			}
		}
		pos := w.FnPos(fn)
		if rep.Pos != nil {
			pos = w.InstrPos(rep.Pos)
		}
		r.Check(rep.OK, "C01-R3", fnKey(fn), pos, rep.Detail, "container walk: "+rep.Why)
	}
	ruleIsEmptyMeansNoEntries(w, r, "C01-R3")
	ruleNullEntryIsNilTest(w, r, "C01-R3")
	if f := root.Func("ValidateSwComponents"); f != nil {
		rep := validatingWalk(w, f, func(s ssa.Value) bool { return s == ssa.Value(f.Params[0]) }, false)
		pos := w.FnPos(f)
		if rep.Pos != nil {
			pos = w.InstrPos(rep.Pos)
		}
		r.Check(rep.OK, "C01-R3", fnKey(f), pos, rep.Detail, "list walk: "+rep.Why)
	}

	// ---------- R4 ----------
	c01ReadsNothingElse(w, r, ic)

	r.Floor("C01-R1", 4)
	r.Floor("C01-R2", 25)
	r.Floor("C01-R3", 3)
	r.Floor("C01-R4", 3)
	return info
}

func loadsField(v ssa.Value, field string) bool {
	u, ok := v.(*ssa.UnOp)
	if !ok {
		return false
	}
	fa, ok := u.X.(*ssa.FieldAddr)
	if !ok {
		return false
	}
	st, ok := fa.X.Type().Underlying().(*types.Pointer).Elem().Underlying().(*types.Struct)
	return ok && st.Field(fa.Field).Name() == field
}

// getterNames lists the getters of an interface: methods without parameters
// returning (T, error).
func getterNames(it *types.Interface) []string {
	var out []string
	for i := 0; i < it.NumMethods(); i++ {
		m := it.Method(i)
		sig := m.Type().(*types.Signature)
		if sig.Params().Len() == 0 && sig.Results().Len() == 2 && isErrorType(sig.Results().At(1).Type()) {
			out = append(out, m.Name())
		}
	}
	sort.Strings(out)
	return out
}

// c01Walker: R1 on ValidateClaims / ValidateSwComponent.
func c01Walker(w *World, r *Recorder, name string, it *types.Interface) {
	fn := w.Root.Func(name)
	if fn == nil || len(fn.Params) != 1 {
		r.Undecide("C01-R1", name, "-", "walker not found")
		return
	}
	c01WalkerFn(w, r, fn, name, it)
}

// c01WalkerFn: the walker rule on fn, whose first parameter (or receiver) is
// the object validated. Getters reached by static calls are kept opaque like
// the interface invokes of the generic walkers.
func c01WalkerFn(w *World, r *Recorder, fn *ssa.Function, name string, it *types.Interface) {
	filter := w.Root.Func("FilterError")
	getters := map[string]bool{}
	for _, g := range getterNames(it) {
		getters[g] = true
	}
	s := w.SummariseWith(fn, func(e *Engine) {
		e.NoInline = map[*ssa.Function]bool{}
		if filter != nil {
			e.NoInline[filter] = true
		}
		for _, f := range w.Funcs {
			if f.Signature.Recv() != nil && getters[f.Name()] {
				e.NoInline[f] = true
			}
		}
	})
	r.Count("paths", len(s.Paths))
	if ok, why := s.Complete(); !ok {
		r.Undecide("C01-R1", name, w.FnPos(fn), why)
		return
	}
	param := fn.Params[0].Name()
	want := getterNames(it)
	for _, p := range s.Paths {
		if p.Ret == nil {
			r.Refute("C01-R1", name+"#panic", w.FnPos(fn), "a path of the walker panics")
			continue
		}
		_, nl := errOf(p, 0)
		// replay: getter invoke → FilterError(its results) → nil test
		type step struct {
			getter string
			res    AV
		}
		var steps []step
		var lastGet *Event
		bad := ""
		for i := range p.St.events {
			ev := p.St.events[i]
			if ev.Kind != "call" {
				continue
			}
			switch {
			case ev.Recv != nil && strings.HasPrefix(ev.Method, "Get"):
				if avSubject(*ev.Recv) != param {
					bad = "getter " + ev.Method + " is called on " + avSubject(*ev.Recv) + ", not on the claims being validated"
				}
				e := ev
				lastGet = &e
			case ev.Recv == nil && ev.Static != nil && ev.Static.Signature.Recv() != nil && getters[ev.Method] && len(ev.Args) > 0:
				// the getter called statically on the object (or on a copy of it)
				subj := avSubject(ev.Args[0])
				if a := ev.Args[0]; a.Kind == KAddr {
					if v, has := p.St.mem[a.Loc]; has {
						subj = v.name()
					}
				}
				if subj != param {
					bad = "getter " + ev.Method + " is called on " + subj + ", not on the claims being validated"
				}
				e := ev
				e.Args = e.Args[1:]
				lastGet = &e
			case ev.Static == filter && filter != nil:
				if lastGet == nil || len(ev.Args) != 2 || ev.Args[1].name() != resultElem(*lastGet, 1).name() {
					bad = "FilterError is not applied to the error of the getter just called"
				} else {
					steps = append(steps, step{lastGet.Method, ev.Result})
				}
				lastGet = nil
			case ev.Callee == "fmt.Errorf" || ev.Callee == "errors.New":
			default:
				bad = "unexpected call in the walker: " + ev.Callee
			}
		}
		pkey := fmt.Sprintf("%s#after-%d-getters/%s", name, len(steps), map[int]string{-1: "nil", 0: "maybe", 1: "error"}[nl])
		if bad != "" {
			r.Refute("C01-R1", pkey, w.InstrPos(p.Ret), bad)
			continue
		}
		if nl != 1 {
			// success: all getters, each filtered result nil
			var seen []string
			okNil := true
			for _, st := range steps {
				seen = append(seen, st.getter)
				if p.St.NilOf(st.res) != -1 {
					okNil = false
				}
			}
			sort.Strings(seen)
			missing := diffStrings(want, seen)
			r.Check(okNil && len(missing) == 0 && len(seen) == len(want), "C01-R1", pkey, w.InstrPos(p.Ret),
				fmt.Sprintf("nil only after FilterError(%s)==nil for all %d getters", strings.Join(want, ","), len(want)),
				fmt.Sprintf("the walker can return nil without a nil filtered result of every getter (missing: %v; all-nil: %v)", missing, okNil))
			continue
		}
		// failure: the last filtered result is non-nil, all earlier ones nil
		okF := len(steps) > 0 && p.St.NilOf(steps[len(steps)-1].res) == 1
		for _, st := range steps[:max(0, len(steps)-1)] {
			if p.St.NilOf(st.res) != -1 {
				okF = false
			}
		}
		r.Check(okF, "C01-R1", pkey, w.InstrPos(p.Ret), "fails exactly when the filtered result of "+lastName(steps)+" is non-nil",
			"a failing path of the walker is not caused by a non-nil filtered getter result")
	}
}

func lastName[T any](s []T) string {
	if len(s) == 0 {
		return "?"
	}
	return fmt.Sprint(s[len(s)-1])
}

func diffStrings(a, b []string) []string {
	m := map[string]bool{}
	for _, x := range b {
		m[x] = true
	}
	var out []string
	for _, x := range a {
		if !m[x] {
			out = append(out, x)
		}
	}
	return out
}

// c01ValidateForwards: T.Validate returns walker(&receiver) unchanged.
func c01ValidateForwards(w *World, r *Recorder, t *types.Named, walker string) {
	fn := w.MethodImpl(t, "Validate")
	wf := w.Root.Func(walker)
	key := t.Obj().Name() + ".Validate"
	if fn == nil || wf == nil {
		r.Undecide("C01-R1", key, "-", "method or walker not found")
		return
	}
	s := w.SummariseWith(fn, func(e *Engine) { e.NoInline = map[*ssa.Function]bool{wf: true} })
	if ok, why := s.Complete(); !ok {
		r.Undecide("C01-R1", key, w.FnPos(fn), why)
		return
	}
	recv := fn.Params[0].Name()
	ok := len(s.Paths) == 1
	why := fmt.Sprintf("%d paths", len(s.Paths))
	if !ok {
		// not a forwarder: the method may walk the getters itself — the
		// walker rule applies to it directly
		var it *types.Interface
		for _, cand := range []string{"IClaims", "ISwComponent"} {
			if i := w.iface(w.Root, cand); i != nil && (types.Implements(t, i) || types.Implements(types.NewPointer(t), i)) {
				it = i
			}
		}
		if it != nil {
			sub := NewRecorder(r.Property)
			c01WalkerFn(w, sub, fn, key, it)
			good := len(sub.Obs) > 0
			for _, o := range sub.Obs {
				if o.Verdict != "proved" {
					good = false
				}
			}
			if good {
				for _, o := range sub.Obs {
					r.add(o)
				}
				return
			}
		}
	}
	if ok {
		p := s.Paths[0]
		var call *Event
		n := 0
		for i := range p.St.events {
			if p.St.events[i].Kind == "call" {
				n++
				if p.St.events[i].Static == wf {
					call = &p.St.events[i]
				}
			}
		}
		switch {
		case call == nil || n != 1:
			ok, why = false, "does not consist of exactly one call of "+walker
		case p.Rets[0].name() != call.Result.name():
			ok, why = false, "does not return the walker's result unchanged"
		default:
			a := call.Args[0]
			subj := avSubject(a)
			if a.Kind == KIface && a.Inner != nil && a.Inner.Kind == KAddr {
				if v, has := p.St.mem[a.Inner.Loc]; has {
					subj = v.name()
				}
			}
			if subj != recv {
				ok, why = false, "validates "+subj+", not the receiver"
			}
		}
	}
	r.Check(ok, "C01-R1", key, w.FnPos(fn), "returns "+walker+"(&receiver) unchanged", why)
}

// c01Getter: R2 for a scalar / byte-string / text claim.
func c01Getter(w *World, r *Recorder, t *types.Named, fn *ssa.Function, row *claimRow) {
	key := t.Obj().Name() + "." + row.Getter
	cn := &canon{w: w, recv: fn.Params[0].Name(), notes: map[string]string{}}
	got, paths, why := accessorCubes(w, fn, cn)
	if why != "" {
		r.Undecide("C01-R2", key, w.FnPos(fn), why)
		return
	}
	r.Count("paths", len(paths))
	F := "$." + row.Field
	N := "nil(" + F + ")"
	V := "*" + F
	absent := map[presence]string{mandatory: "missing-mandatory", optional: "missing-optional", defaulted: "ok"}[row.Pres]
	var want []Cube
	want = append(want, Cube{Atoms: map[string]bool{N: true}, Tag: absent})
	retWant := map[string]string{} // tag "ok" under atom → expected returned value
	switch {
	case row.Rule == ruleProfile && row.Kind == "text":
		eq := "eq(" + V + ",$.CanonicalProfile)"
		want = append(want,
			Cube{Atoms: map[string]bool{N: false, eq: true}, Tag: "ok"},
			Cube{Atoms: map[string]bool{N: false, eq: false}, Tag: "wrong-profile"})
	case row.Rule == ruleProfile: // eat.Profile
		g0, g1 := "(eat.Profile).Get("+V+")#0", "nil((eat.Profile).Get("+V+")#1)"
		eq := "eq(" + g0 + ",$.CanonicalProfile)"
		if eq2 := "eq($.CanonicalProfile," + g0 + ")"; eq2 < eq {
			eq = eq2
		}
		want = append(want,
			Cube{Atoms: map[string]bool{N: false, g1: true, eq: true}, Tag: "ok"},
			Cube{Atoms: map[string]bool{N: false, g1: true, eq: false}, Tag: "wrong-profile"},
			Cube{Atoms: map[string]bool{N: false, g1: false}, Tag: "error()"}) // library error, C13 exception
		V = g0
	case row.Kind == "eat.Nonce":
		ln := "(eat.Nonce).Len(" + V + ")"
		gi := "(eat.Nonce).GetI(" + V + ",0)"
		want = append(want, Cube{Atoms: map[string]bool{N: false}, Terms: map[string]iset{ln: minus(fullSet, iset{{1, 1}})}, Tag: "wrong-syntax"})
		for _, c := range ruleCubes(row.Rule, gi, map[string]bool{N: false}) {
			c.Terms[ln] = iset{{1, 1}}
			want = append(want, c)
		}
		V = gi
	default:
		want = append(want, ruleCubes(row.Rule, V, map[string]bool{N: false})...)
	}
	_ = retWant
	// eq atom ordering: relAtom sorts operands
	for i := range want {
		for a, b := range want[i].Atoms {
			if strings.HasPrefix(a, "eq(") {
				if alt := swapEq(a); alt != a && hasAtom(got, alt) {
					delete(want[i].Atoms, a)
					want[i].Atoms[alt] = b
				}
			}
		}
	}
	mm, n, err := compareAccessor(got, want)
	r.Count("cells", n)
	if err != nil {
		r.Undecide("C01-R2", key, w.FnPos(fn), err.Error())
		return
	}
	for g, note := range cn.notes {
		if strings.HasPrefix(note, "other") || strings.HasPrefix(note, "?") {
			mm = append(mm, "pattern "+g+" "+note)
		}
	}
	r.Check(len(mm) == 0, "C01-R2", key, w.FnPos(fn),
		fmt.Sprintf("%d paths, %d cells: outcome per cell equals the %s table row (%s)", len(paths), n, t.Obj().Name(), row.Claim),
		"getter disagrees with the profile table: "+joinLimited(mm, 3))
	// fidelity: successful paths return the stored value
	ei := errIndex(fn)
	for _, p := range paths {
		if p.Ret == nil || outcomeTag(p, ei) != "ok" {
			continue
		}
		gotV := cn.rename(p.Rets[0].name())
		wantV := V
		if b, ok := p.St.atoms["nil("+cn.recv+"."+row.Field+")"]; ok && b && row.Pres == defaulted {
			wantV = "$.CanonicalProfile"
		}
		if gotV != wantV {
			r.Refute("C01-R2", key+"#returns", w.InstrPos(p.Ret), fmt.Sprintf("a successful path returns %s, not the stored value %s", gotV, wantV))
		}
	}
}

func swapEq(a string) string {
	// eq(x,y) -> eq(y,x) at the top-level comma
	body := strings.TrimSuffix(strings.TrimPrefix(a, "eq("), ")")
	depth := 0
	for i, c := range body {
		switch c {
		case '(':
			depth++
		case ')':
			depth--
		case ',':
			if depth == 0 {
				return "eq(" + body[i+1:] + "," + body[:i] + ")"
			}
		}
	}
	return a
}

func hasAtom(cs []Cube, a string) bool {
	for _, c := range cs {
		if _, ok := c.Atoms[a]; ok {
			return true
		}
	}
	return false
}

// c01ComponentsGetter: R2 for GetSoftwareComponents.
func c01ComponentsGetter(w *World, r *Recorder, t *types.Named, fn *ssa.Function, row *claimRow) {
	key := t.Obj().Name() + "." + row.Getter
	cn := &canon{w: w, recv: fn.Params[0].Name()}
	s := w.Summarise(fn)
	if ok, why := s.Complete(); !ok {
		r.Undecide("C01-R2", key, w.FnPos(fn), why)
		return
	}
	A := "nil($." + row.Field + ")"
	E := "IsEmpty()"
	var got []Cube
	for _, p := range s.Paths {
		if p.Ret == nil {
			r.Refute("C01-R2", key+"#panic", w.FnPos(fn), "a path panics: "+p.St.Describe())
			return
		}
		cb := cubeOfR(p.St, cn.rename)
		tag := outcomeTag(p, 1)
		// pass-through of Values() on the container
		if strings.HasPrefix(tag, "unknown") {
			var vals *Event
			for i := range p.St.events {
				ev := p.St.events[i]
				if ev.Kind == "call" && ev.Method == "Values" && ev.Recv != nil && cn.rename(avSubject(*ev.Recv)) == "$."+row.Field {
					vals = &p.St.events[i]
				}
			}
			if vals != nil && p.Rets[0].name() == resultElem(*vals, 0).name() && p.Rets[1].name() == resultElem(*vals, 1).name() {
				tag = "values"
			}
		}
		if tag == "ok" && p.Rets[0].Kind != KNil {
			tag = "ok-with-" + p.Rets[0].name()
		}
		// IsEmpty must be asked of the claim's own container
		for _, ev := range p.St.events {
			if ev.Kind == "call" && ev.Method == "IsEmpty" && (ev.Recv == nil || cn.rename(avSubject(*ev.Recv)) != "$."+row.Field) {
				tag = "IsEmpty-on-other-object"
			}
		}
		cb.Tag = tag
		got = append(got, cb)
	}
	var want []Cube
	if t.Obj().Name() == "P1Claims" {
		F := "nil($.NoSwMeasurements)"
		want = []Cube{
			{Atoms: map[string]bool{A: true, F: false}, Tag: "ok"},
			{Atoms: map[string]bool{A: false, E: true, F: false}, Tag: "ok"},
			{Atoms: map[string]bool{A: true, F: true}, Tag: "missing-mandatory"},
			{Atoms: map[string]bool{A: false, E: true, F: true}, Tag: "missing-mandatory"},
			{Atoms: map[string]bool{A: false, E: false, F: false}, Tag: "wrong-syntax"},
			{Atoms: map[string]bool{A: false, E: false, F: true}, Tag: "values"},
		}
	} else {
		want = []Cube{
			{Atoms: map[string]bool{A: true}, Tag: "missing-mandatory"},
			{Atoms: map[string]bool{A: false, E: true}, Tag: "missing-mandatory"},
			{Atoms: map[string]bool{A: false, E: false}, Tag: "values"},
		}
	}
	mm, n, err := compareAccessor(got, want)
	r.Count("cells", n)
	if err != nil {
		r.Undecide("C01-R2", key, w.FnPos(fn), err.Error())
		return
	}
	r.Check(len(mm) == 0, "C01-R2", key, w.FnPos(fn),
		fmt.Sprintf("%d paths, %d cells over {list nil, list empty, flag}: outcome equals the table (list-or-flag, never both; Values() decides a non-empty list)", len(s.Paths), n),
		"software-components getter disagrees with the profile table: "+joinLimited(mm, 3))
}

// c01ReadsNothingElse: R4.
func c01ReadsNothingElse(w *World, r *Recorder, ic *types.Interface) {
	var roots []*ssa.Function
	for _, t := range w.Implementations(ic) {
		if fn := w.MethodImpl(t, "Validate"); fn != nil {
			roots = append(roots, fn)
		}
	}
	reach := w.Reachable(roots)
	eff := w.Effects()
	r.Count("functions_reachable_from_Validate", len(reach))
	forbidden := []string{"time.", "os.", "math/rand", "crypto/rand", "runtime.", "syscall."}
	allowedFieldOwners := map[string]bool{"P1Claims": true, "P2Claims": true, "SwComponent": true, "SwComponents": true, "p1Claims": true, "p2Claims": true}
	globalsRead := map[string]bool{}
	okCalls, okWrites, okFields := true, true, true
	for fn := range reach {
		ef := eff[fn]
		if ef == nil {
			continue
		}
		for c := range ef.Calls {
			for _, f := range forbidden {
				if strings.HasPrefix(strings.TrimPrefix(strings.TrimPrefix(c, "("), "*"), f) {
					r.Refute("C01-R4", "call:"+fnKey(fn)+"->"+c, w.FnPos(fn), "validation reaches "+c+": the verdict would depend on something other than the claims")
					okCalls = false
				}
			}
		}
		if ef.Writes() {
			for _, s := range ef.Sites {
				r.Refute("C01-R4", "write:"+fnKey(fn)+":"+s.What, w.InstrPos(s.Instr), "a function reachable from Validate writes non-local memory ("+s.What+" "+s.Field+")")
				okWrites = false
			}
		}
		for f := range ef.FieldReads {
			owner := strings.SplitN(f, ".", 2)[0]
			if !allowedFieldOwners[owner] {
				if owner == "Evidence" || owner == "profileEntry" {
					r.Refute("C01-R4", "field:"+f, w.FnPos(fn), "validation reads "+f)
					okFields = false
				}
			}
		}
		for g := range ef.GlobalReads {
			globalsRead[g.Name()] = true
			gi := w.GlobalInfo(g)
			if gi == nil {
				continue
			}
			isErr := isErrorType(g.Type().(*types.Pointer).Elem())
			isRE := strings.Contains(g.Type().String(), "regexp.Regexp")
			constTable := w.readOnlyOutsideInit(g) && len(gi.Writers) <= 1
			for _, wf := range gi.Writers {
				if wf.Synthetic != "package initializer" {
					constTable = false
				}
			}
			switch {
			case constTable && !isErr && !isRE:
				r.Prove("C01-R4", "global:"+g.Name(), w.Pos(g.Pos()), "constant table: written only by its initialiser, only read elsewhere", true)
			case !gi.InitOnly:
				r.Refute("C01-R4", "global:"+g.Name(), w.Pos(g.Pos()), "validation reads package variable "+g.Name()+", which is written outside its initialiser")
			case isErr || isRE:
				r.Prove("C01-R4", "global:"+g.Name(), w.Pos(g.Pos()), "initialiser-only sentinel/pattern", true)
			default:
				r.Refute("C01-R4", "global:"+g.Name(), w.Pos(g.Pos()), "validation reads package variable "+g.Name()+" (neither a sentinel error nor a pattern)")
			}
		}
	}
	r.Check(okCalls, "C01-R4", "no-environment-calls", "-", "no clock/randomness/os call reachable from Validate", "see call: obligations")
	r.Check(okWrites, "C01-R4", "no-writes", "-", "nothing reachable from Validate writes non-local memory", "see write: obligations")
	r.Check(okFields, "C01-R4", "fields", "-", "only claim/container/component fields are read", "see field: obligations")
}

// c13FilterErrorRule re-uses the FilterError shape check under another rule id.
func c13FilterErrorRule(w *World, r *Recorder, rule string) {
	sub := NewRecorder(r.Property)
	c13FilterError(w, sub)
	for _, o := range sub.Obs {
		o.Rule = rule
		r.add(o)
	}
	for k, v := range sub.Analysed {
		r.Count(k, v)
	}
}
