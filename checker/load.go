package main

// E1 — program facts: loading, SSA construction, indexes over in-repo code.

import (
	"bufio"
	"fmt"
	"go/token"
	"go/types"
	"os"
	"path/filepath"
	"sort"
	"strings"

	"golang.org/x/tools/go/callgraph"
	"golang.org/x/tools/go/callgraph/cha"
	"golang.org/x/tools/go/callgraph/vta"
	"golang.org/x/tools/go/packages"
	"golang.org/x/tools/go/ssa"
	"golang.org/x/tools/go/ssa/ssautil"
)

// World is everything the rules know about the program under analysis.
type World struct {
	RepoDir string
	ModPath string // module path of the repository (from go.mod)
	Tier    string
	Fset    *token.FileSet
	Pkgs    []*packages.Package
	Prog    *ssa.Program
	Root    *ssa.Package // <mod>
	Enc     *ssa.Package // <mod>/encoding
	// Funcs lists every in-repo function with a body (declared, anonymous,
	// instantiated generic), excluding un-instantiated generic bodies and
	// synthetic wrappers/thunks/bounds.
	Funcs    []*ssa.Function
	byName   map[string]*ssa.Function
	AllFuncs map[*ssa.Function]bool
	cg       *callgraph.Graph
	vta      *callgraph.Graph
	Whole    bool // LoadAllSyntax: dependency bodies are available

	globals       map[*ssa.Global]*GlobalInfo
	effects       map[*ssa.Function]*Effects
	effectRounds  int
	errRes        *errResolver
	addrTaken     map[*ssa.Function]bool
	fieldFuncs    map[string]map[*ssa.Function]bool
	fieldFuncsBad map[string]bool
	envField      string
	nilFuncVars   map[*ssa.Global]bool
	initTime      map[*ssa.Function]int
	onceMemo      []*onceInit
	onceDone      bool
	onceBuilding  bool
	baseMem       map[string]AV
}

func readModPath(dir string) (string, error) {
	f, err := os.Open(filepath.Join(dir, "go.mod"))
	if err != nil {
		return "", err
	}
	defer f.Close()
	sc := bufio.NewScanner(f)
	for sc.Scan() {
		l := strings.TrimSpace(sc.Text())
		if strings.HasPrefix(l, "module ") {
			return strings.TrimSpace(strings.TrimPrefix(l, "module ")), nil
		}
	}
	return "", fmt.Errorf("no module line in %s/go.mod", dir)
}

// Load type-checks the repository's current working tree and builds SSA.
// whole=true loads dependency sources as well (thorough tier).
func Load(dir, tier string, whole bool) (*World, error) {
	mod, err := readModPath(dir)
	if err != nil {
		return nil, err
	}
	mode := packages.LoadSyntax
	if whole {
		mode = packages.LoadAllSyntax
	}
	env := append(os.Environ(), "GOFLAGS=-mod=mod", "GOPROXY=off", "GOSUMDB=off", "GOWORK=off", "GOTOOLCHAIN=local")
	cfg := &packages.Config{Mode: mode, Dir: dir, Env: env}
	// "slices" is loaded with its sources as well: its generic helpers
	// (IndexFunc, ContainsFunc, …) take callbacks from this repository, and
	// their instantiations are analysed like in-repo code where no model exists
	pkgs, err := packages.Load(cfg, "./...", "slices")
	if err != nil {
		return nil, fmt.Errorf("packages.Load: %w", err)
	}
	if len(pkgs) == 0 {
		return nil, fmt.Errorf("no packages loaded from %s", dir)
	}
	var errs []string
	for _, p := range pkgs {
		for _, e := range p.Errors {
			errs = append(errs, e.Error())
		}
	}
	if len(errs) > 0 {
		return nil, fmt.Errorf("type-check errors: %s", strings.Join(errs, "; "))
	}
	var prog *ssa.Program
	var spkgs []*ssa.Package
	if whole {
		prog, spkgs = ssautil.AllPackages(pkgs, ssa.InstantiateGenerics)
	} else {
		prog, spkgs = ssautil.Packages(pkgs, ssa.InstantiateGenerics)
	}
	prog.Build()
	w := &World{RepoDir: dir, ModPath: mod, Tier: tier, Fset: prog.Fset, Pkgs: pkgs, Prog: prog, Whole: whole, byName: map[string]*ssa.Function{}}
	for i, p := range pkgs {
		if spkgs[i] == nil {
			return nil, fmt.Errorf("no SSA package for %s", p.PkgPath)
		}
		switch p.PkgPath {
		case mod:
			w.Root = spkgs[i]
		case mod + "/encoding":
			w.Enc = spkgs[i]
		}
	}
	if w.Root == nil || w.Enc == nil {
		return nil, fmt.Errorf("anchor packages %s and %s/encoding not both found", mod, mod)
	}
	w.AllFuncs = ssautil.AllFunctions(prog)
	for fn := range w.AllFuncs {
		if !w.InRepo(fn) || fn.Blocks == nil {
			continue
		}
		if fn.TypeParams().Len() > 0 && len(fn.TypeArgs()) == 0 {
			continue // generic body; its instantiations are analysed instead
		}
		if fn.Synthetic != "" && !strings.HasPrefix(fn.Synthetic, "instance of") && fn.Synthetic != "package initializer" {
			continue // wrappers, thunks, bound methods
		}
		w.Funcs = append(w.Funcs, fn)
		w.byName[fn.String()] = fn
	}
	sort.Slice(w.Funcs, func(i, j int) bool { return w.Funcs[i].String() < w.Funcs[j].String() })
	if len(w.Funcs) < 50 {
		return nil, fmt.Errorf("only %d in-repo functions found; loader is not seeing the repository", len(w.Funcs))
	}
	return w, nil
}

func fnPkg(fn *ssa.Function) *ssa.Package {
	if fn.Pkg != nil {
		return fn.Pkg
	}
	if o := fn.Origin(); o != nil && o.Pkg != nil {
		return o.Pkg
	}
	if fn.Parent() != nil {
		return fnPkg(fn.Parent())
	}
	return nil
}

// Inlinable: in-repo code, or an instantiation of a generic helper of the
// standard slices package (loaded with sources) for which no model exists.
func (w *World) Inlinable(fn *ssa.Function) bool {
	if w.InRepo(fn) {
		return true
	}
	if fn.Blocks == nil {
		return false
	}
	p := fnPkg(fn)
	if p == nil || p.Pkg == nil || p.Pkg.Path() != "slices" {
		return false
	}
	if _, has := lookupModel(fn.String()); has {
		return false
	}
	return true
}

func (w *World) InRepoPath(path string) bool {
	return path == w.ModPath || strings.HasPrefix(path, w.ModPath+"/")
}

func (w *World) InRepo(fn *ssa.Function) bool {
	p := fnPkg(fn)
	if p != nil && p.Pkg != nil {
		return w.InRepoPath(p.Pkg.Path())
	}
	// synthetic wrappers without package: judge by receiver/object
	if fn.Object() != nil && fn.Object().Pkg() != nil {
		return w.InRepoPath(fn.Object().Pkg().Path())
	}
	return false
}

// Func finds an in-repo function by its ssa String() name.
func (w *World) Func(name string) *ssa.Function { return w.byName[name] }

// PkgFunc finds a package-level function of the root or encoding package.
func (w *World) PkgFunc(pkg *ssa.Package, name string) *ssa.Function {
	return pkg.Func(name)
}

// Method returns the SSA function of method `name` on named type T (or *T if
// ptr) declared in package pkg; nil if absent.
func (w *World) Method(pkg *ssa.Package, typeName, name string, ptr bool) *ssa.Function {
	m := pkg.Members[typeName]
	tn, ok := m.(*ssa.Type)
	if !ok {
		return nil
	}
	var t types.Type = tn.Type()
	if ptr {
		t = types.NewPointer(t)
	}
	return w.methodOf(t, name)
}

func (w *World) methodOf(t types.Type, name string) *ssa.Function {
	ms := w.Prog.MethodSets.MethodSet(t)
	for i := 0; i < ms.Len(); i++ {
		sel := ms.At(i)
		if sel.Obj().Name() == name {
			return w.Prog.MethodValue(sel)
		}
	}
	return nil
}

// DeclaredMethod returns method `name` declared with receiver T or *T,
// reporting whether the receiver is a pointer. Wrappers are looked through.
func (w *World) DeclaredMethod(t types.Type, name string) (fn *ssa.Function, ptrRecv bool) {
	if p, ok := t.(*types.Pointer); ok {
		t = p.Elem()
	}
	if f := w.methodOf(t, name); f != nil {
		return f, false
	}
	if f := w.methodOf(types.NewPointer(t), name); f != nil {
		return f, true
	}
	return nil, false
}

func (w *World) NamedType(pkg *ssa.Package, name string) *types.Named {
	m := pkg.Members[name]
	tn, ok := m.(*ssa.Type)
	if !ok {
		return nil
	}
	n, _ := tn.Type().(*types.Named)
	return n
}

func (w *World) Global(pkg *ssa.Package, name string) *ssa.Global {
	g, _ := pkg.Members[name].(*ssa.Global)
	return g
}

func (w *World) Pos(p token.Pos) string {
	if !p.IsValid() {
		return "-"
	}
	pos := w.Fset.Position(p)
	rel, err := filepath.Rel(w.RepoDir, pos.Filename)
	if err != nil {
		rel = pos.Filename
	}
	return fmt.Sprintf("%s:%d", rel, pos.Line)
}

func (w *World) FnPos(fn *ssa.Function) string {
	if fn == nil {
		return "-"
	}
	return w.Pos(fn.Pos())
}

// InstrPos gives the best position for an instruction (falls back to the
// enclosing function).
func (w *World) InstrPos(in ssa.Instruction) string {
	if in == nil {
		return "-"
	}
	if p := in.Pos(); p.IsValid() {
		return w.Pos(p)
	}
	if v, ok := in.(ssa.Value); ok {
		for _, r := range *v.Referrers() {
			if p := r.Pos(); p.IsValid() {
				return w.Pos(p)
			}
		}
	}
	return w.FnPos(in.Parent()) + "(fn)"
}

// CallGraph returns the CHA call graph.
func (w *World) CallGraph() *callgraph.Graph {
	if w.cg != nil {
		return w.cg
	}
	// CHA is the sound choice for a library: an exported function's interface
	// parameters can hold any implementation. (VTA has no flows into them
	// without a main program and would resolve such invokes to nothing.)
	g := cha.CallGraph(w.Prog)
	w.refineTableCalls(g)
	w.cg = g
	return g
}

// refineTableCalls: CHA resolves a call through a function value to every
// function of that signature. When the value is read from a package-level
// table that only its initialiser writes (a slice/array of closures walked by
// a loop), the possible callees are exactly the functions the initialiser
// stored there; the other CHA edges of that site are removed.
func (w *World) refineTableCalls(g *callgraph.Graph) {
	for fn, node := range g.Nodes {
		if fn == nil || !w.InRepo(fn) || fn.Blocks == nil {
			continue
		}
		allowed := map[ssa.CallInstruction]map[*ssa.Function]bool{}
		seen := map[ssa.CallInstruction]bool{}
		for _, e := range node.Out {
			if e.Site == nil || seen[e.Site] {
				continue
			}
			seen[e.Site] = true
			c := e.Site.Common()
			if c.IsInvoke() || c.StaticCallee() != nil {
				continue
			}
			if _, isB := c.Value.(*ssa.Builtin); isB {
				continue
			}
			// a call through a hook variable that is never assigned: no callee
			if ld, ok := c.Value.(*ssa.UnOp); ok {
				if gv, ok := ld.X.(*ssa.Global); ok && w.nilFuncVar(gv) {
					allowed[e.Site] = map[*ssa.Function]bool{}
				}
			}
			if tg := tableOrigin(c.Value, 0); tg != nil && w.readOnlyOutsideInit(tg) {
				if fs := w.tableFuncs(tg); fs != nil {
					allowed[e.Site] = fs
				}
			}
			// a call through an unexported function-typed field of an in-repo
			// struct type: the callees are the functions the package stores
			// into that field
			if fs := w.fieldCallFuncs(c.Value); fs != nil {
				allowed[e.Site] = fs
			}
			// a call through a function-typed parameter of an unexported
			// function whose address is never taken: the callees are the
			// functions its (static) callers pass
			if prm, ok := c.Value.(*ssa.Parameter); ok {
				if fs := w.paramFuncs(g, fn, prm, 0); fs != nil {
					allowed[e.Site] = fs
				}
			}
		}
		if len(allowed) == 0 {
			continue
		}
		var keep []*callgraph.Edge
		for _, e := range node.Out {
			if fs, ok := allowed[e.Site]; ok && !fs[e.Callee.Func] {
				var in []*callgraph.Edge
				for _, x := range e.Callee.In {
					if x != e {
						in = append(in, x)
					}
				}
				e.Callee.In = in
				continue
			}
			keep = append(keep, e)
		}
		node.Out = keep
	}
}

// paramFuncs: the functions that can be bound to the function-typed parameter
// prm of fn, when fn is unexported, never used as a value, and every call of it
// is a static call passing a function constant (or, recursively, such a
// parameter of its own). nil: cannot tell.
func (w *World) paramFuncs(g *callgraph.Graph, fn *ssa.Function, prm *ssa.Parameter, depth int) map[*ssa.Function]bool {
	if depth > 3 || fn.Object() == nil || fn.Object().Exported() || w.addressTaken()[fn] {
		return nil
	}
	idx := -1
	for i, p := range fn.Params {
		if p == prm {
			idx = i
		}
	}
	node := g.Nodes[fn]
	if idx < 0 || node == nil || len(node.In) == 0 {
		return nil
	}
	out := map[*ssa.Function]bool{}
	for _, in := range node.In {
		if in.Site == nil {
			return nil
		}
		cc := in.Site.Common()
		if cc.StaticCallee() != fn {
			continue // a CHA edge from some dynamic call: fn's address is not taken, so it cannot be real
		}
		args := cc.Args
		if idx >= len(args) {
			return nil
		}
		av := args[idx]
		if ct, ok := av.(*ssa.ChangeType); ok {
			av = ct.X
		}
		switch a := av.(type) {
		case *ssa.Const:
			if !a.IsNil() {
				return nil
			}
			// a nil function value binds no callee
		case *ssa.Function:
			out[a] = true
		case *ssa.MakeClosure:
			if f, ok := a.Fn.(*ssa.Function); ok {
				out[f] = true
			} else {
				return nil
			}
		case *ssa.Parameter:
			sub := w.paramFuncs(g, in.Caller.Func, a, depth+1)
			if sub == nil {
				return nil
			}
			for f := range sub {
				out[f] = true
			}
		default:
			return nil
		}
	}
	return out
}

// fieldCallFuncs: v is the value of an unexported function-typed field of a
// named in-repo struct type (only this repository's packages can write it).
// Returns the functions stored into that field anywhere in the repository;
// nil when v is not such a field or something other than a function constant,
// a closure or nil is stored into it.
func (w *World) fieldCallFuncs(v ssa.Value) map[*ssa.Function]bool {
	var st types.Type
	idx := -1
	switch x := v.(type) {
	case *ssa.Field:
		st, idx = x.X.Type(), x.Field
	case *ssa.UnOp:
		if fa, ok := x.X.(*ssa.FieldAddr); ok && x.Op == token.MUL {
			st, idx = fa.X.Type().Underlying().(*types.Pointer).Elem(), fa.Field
		}
	}
	if idx < 0 {
		return nil
	}
	// a named struct type of this repository, or an anonymous struct type:
	// with an unexported field it belongs to the package that wrote it down
	str, ok := st.Underlying().(*types.Struct)
	if !ok || idx >= str.NumFields() || str.Field(idx).Exported() {
		return nil
	}
	if fp := str.Field(idx).Pkg(); fp == nil || !w.InRepoPath(fp.Path()) {
		return nil
	}
	key := fmt.Sprintf("%s.%d", st.String(), idx)
	if w.fieldFuncs == nil {
		w.fieldFuncs = map[string]map[*ssa.Function]bool{}
		w.fieldFuncsBad = map[string]bool{}
		for fn := range w.AllFuncs {
			if !w.InRepo(fn) {
				continue
			}
			for _, b := range fn.Blocks {
				for _, in := range b.Instrs {
					if ct, ok := in.(*ssa.ChangeType); ok {
						// a struct converted from another struct type brings fields
						// written under the other type's name: give up on this type
						if n, ok := ct.Type().(*types.Named); ok {
							if str, ok := n.Underlying().(*types.Struct); ok {
								for i := 0; i < str.NumFields(); i++ {
									w.fieldFuncsBad[fmt.Sprintf("%s.%d", n.String(), i)] = true
								}
							}
						}
						continue
					}
					sto, ok := in.(*ssa.Store)
					if !ok {
						continue
					}
					fa, ok := sto.Addr.(*ssa.FieldAddr)
					if !ok {
						continue
					}
					if _, isSig := sto.Val.Type().Underlying().(*types.Signature); !isSig {
						continue
					}
					k := fmt.Sprintf("%s.%d", fa.X.Type().Underlying().(*types.Pointer).Elem().String(), fa.Field)
					val := sto.Val
					if ct, ok := val.(*ssa.ChangeType); ok {
						val = ct.X
					}
					switch f := val.(type) {
					case *ssa.Function:
						if w.fieldFuncs[k] == nil {
							w.fieldFuncs[k] = map[*ssa.Function]bool{}
						}
						w.fieldFuncs[k][f] = true
					case *ssa.MakeClosure:
						if g, ok := f.Fn.(*ssa.Function); ok {
							if w.fieldFuncs[k] == nil {
								w.fieldFuncs[k] = map[*ssa.Function]bool{}
							}
							w.fieldFuncs[k][g] = true
						} else {
							w.fieldFuncsBad[k] = true
						}
					case *ssa.Const:
						if !f.IsNil() {
							w.fieldFuncsBad[k] = true
						}
					default:
						w.fieldFuncsBad[k] = true
					}
				}
			}
		}
	}
	if w.fieldFuncsBad[key] {
		return nil
	}
	return w.fieldFuncs[key]
}

// addressTaken: functions used as values (stored, passed, returned, bound in a
// closure) anywhere in the loaded program, as opposed to only being called.
func (w *World) addressTaken() map[*ssa.Function]bool {
	if w.addrTaken != nil {
		return w.addrTaken
	}
	w.addrTaken = map[*ssa.Function]bool{}
	for fn := range w.AllFuncs {
		for _, b := range fn.Blocks {
			for _, in := range b.Instrs {
				var callee ssa.Value
				if c, ok := in.(ssa.CallInstruction); ok {
					callee = c.Common().Value
				}
				for _, op := range in.Operands(nil) {
					if f, ok := (*op).(*ssa.Function); ok {
						if callee != nil && *op == callee {
							// in call position — but the same function may also be an argument
							n := 0
							for _, op2 := range in.Operands(nil) {
								if *op2 == ssa.Value(f) {
									n++
								}
							}
							if n == 1 {
								continue
							}
						}
						w.addrTaken[f] = true
					}
				}
			}
		}
	}
	return w.addrTaken
}

// tableOrigin: v is loaded (possibly through a local copy of an element) from
// memory rooted at one package-level variable.
func tableOrigin(v ssa.Value, depth int) *ssa.Global {
	if depth > 8 {
		return nil
	}
	var addr func(a ssa.Value, d int) *ssa.Global
	addr = func(a ssa.Value, d int) *ssa.Global {
		if d > 8 {
			return nil
		}
		switch x := a.(type) {
		case *ssa.Global:
			return x
		case *ssa.FieldAddr:
			return addr(x.X, d+1)
		case *ssa.IndexAddr:
			return addr(x.X, d+1)
		case *ssa.UnOp:
			// element of a slice held in a package-level variable
			if g, ok := x.X.(*ssa.Global); ok && x.Op == token.MUL {
				return g
			}
			return nil
		case *ssa.Alloc:
			var g *ssa.Global
			for _, ref := range *x.Referrers() {
				if st, ok := ref.(*ssa.Store); ok && st.Addr == ssa.Value(x) {
					o := tableOrigin(st.Val, d+1)
					if o == nil || (g != nil && o != g) {
						return nil
					}
					g = o
				}
			}
			return g
		}
		return nil
	}
	switch x := v.(type) {
	case *ssa.UnOp:
		if x.Op == token.MUL {
			return addr(x.X, depth+1)
		}
	case *ssa.Field:
		return tableOrigin(x.X, depth+1)
	case *ssa.Index:
		return tableOrigin(x.X, depth+1)
	}
	return nil
}

// tableFuncs: the functions the package initialiser stores into memory rooted
// at g; nil when something other than a function constant is stored into a
// function-typed slot of g.
func (w *World) tableFuncs(g *ssa.Global) map[*ssa.Function]bool {
	if g.Pkg == nil {
		return nil
	}
	init := g.Pkg.Func("init")
	if init == nil {
		return nil
	}
	out := map[*ssa.Function]bool{}
	// backing arrays of slice literals stored into g
	backing := map[ssa.Value]bool{}
	for _, b := range init.Blocks {
		for _, in := range b.Instrs {
			if st, ok := in.(*ssa.Store); ok && st.Addr == ssa.Value(g) {
				if sl, ok := st.Val.(*ssa.Slice); ok {
					if al, ok := sl.X.(*ssa.Alloc); ok {
						backing[al] = true
					}
				}
			}
		}
	}
	for _, b := range init.Blocks {
		for _, in := range b.Instrs {
			st, ok := in.(*ssa.Store)
			if !ok {
				continue
			}
			if _, isSig := st.Val.Type().Underlying().(*types.Signature); !isSig {
				continue
			}
			root, _, ok := constAddrChain(st.Addr)
			if !ok {
				// a function stored through a non-constant address: cannot attribute
				return nil
			}
			if root != ssa.Value(g) && !backing[root] {
				continue
			}
			f, isFn := st.Val.(*ssa.Function)
			if !isFn {
				return nil
			}
			out[f] = true
		}
	}
	if len(out) == 0 {
		return nil
	}
	return out
}

// VTAGraph: the more precise whole-program graph, used only to bound which
// dependency functions are scanned in the thorough tier (never to resolve
// in-repo interface calls).
func (w *World) VTAGraph() *callgraph.Graph {
	if w.vta != nil {
		return w.vta
	}
	w.vta = vta.CallGraph(w.AllFuncs, w.CallGraph())
	return w.vta
}

// Callees returns the possible in-repo callees (with bodies) of a call site:
// the static callee, or for an interface invoke every in-repo method
// implementing it (CHA over in-repo types).
func (w *World) Callees(site ssa.CallInstruction) []*ssa.Function {
	c := site.Common()
	if f := c.StaticCallee(); f != nil {
		return []*ssa.Function{f}
	}
	g := w.CallGraph()
	n := g.Nodes[site.Parent()]
	if n == nil {
		return nil
	}
	var out []*ssa.Function
	seen := map[*ssa.Function]bool{}
	for _, e := range n.Out {
		if e.Site == site && !seen[e.Callee.Func] {
			seen[e.Callee.Func] = true
			out = append(out, e.Callee.Func)
		}
	}
	sort.Slice(out, func(i, j int) bool { return out[i].String() < out[j].String() })
	return out
}

// Reachable returns the set of in-repo functions reachable from the roots via
// the call graph (through in-repo and synthetic functions only).
func (w *World) Reachable(roots []*ssa.Function) map[*ssa.Function]bool {
	g := w.CallGraph()
	seen := map[*ssa.Function]bool{}
	var stack []*ssa.Function
	for _, r := range roots {
		if r != nil && !seen[r] {
			seen[r] = true
			stack = append(stack, r)
		}
	}
	for len(stack) > 0 {
		f := stack[len(stack)-1]
		stack = stack[:len(stack)-1]
		n := g.Nodes[f]
		if n == nil {
			continue
		}
		for _, e := range n.Out {
			c := e.Callee.Func
			if seen[c] {
				continue
			}
			if !w.InRepo(c) {
				continue
			}
			seen[c] = true
			stack = append(stack, c)
		}
		// anonymous functions are reachable when their parent is
		for _, af := range f.AnonFuncs {
			if !seen[af] {
				seen[af] = true
				stack = append(stack, af)
			}
		}
	}
	return seen
}

func relFile(w *World, fn *ssa.Function) string {
	p := w.Fset.Position(fn.Pos())
	rel, err := filepath.Rel(w.RepoDir, p.Filename)
	if err != nil {
		return p.Filename
	}
	return rel
}
