package main

// C05 — no input bytes can make a decode entry point (or what it returns) panic.

import (
	"fmt"
	"go/token"
	"go/types"
	"os"
	"runtime"
	"sort"
	"strings"
	"time"

	"golang.org/x/tools/go/ssa"
)

func init() { register("C05", checkC05) }

type c05Root struct {
	fn   *ssa.Function
	name string
	// after: run the root from every successful final state of this function
	after *ssa.Function
}

func c05Roots(w *World, r *Recorder) []c05Root {
	var out []c05Root
	add := func(fn *ssa.Function, name string) {
		if fn == nil {
			r.Undecide("C05-anchor", name, "-", "entry point not found")
			return
		}
		out = append(out, c05Root{fn: fn, name: name})
	}
	root := w.Root
	for _, n := range []string{"DecodeEvidenceFromCOSE", "DecodeAndValidateEvidenceFromCOSE", "DecodeClaimsFromCBOR", "DecodeAndValidateClaimsFromCBOR",
		"DecodeClaimsFromJSON", "DecodeAndValidateClaimsFromJSON", "DecodeJSONClaims", "DecodeUnvalidatedJSONClaims",
		"EncodeClaimsToCBOR", "ValidateAndEncodeClaimsToCBOR", "EncodeClaimsToJSON", "ValidateAndEncodeClaimsToJSON",
		"ValidateClaims", "ValidateSwComponent", "FilterError"} {
		add(root.Func(n), n)
	}
	add(w.findFunc("Evidence", "UnmarshalCOSE"), "Evidence.UnmarshalCOSE")
	um := w.findFunc("Evidence", "UnmarshalCOSE")
	for _, n := range []string{"MarshalJSON", "Verify", "GetInstanceID", "GetImplementationID"} {
		if fn := w.findFunc("Evidence", n); fn != nil {
			out = append(out, c05Root{fn: fn, name: "Evidence." + n + " (after UnmarshalCOSE)", after: um})
		} else {
			r.Undecide("C05-anchor", "Evidence."+n, "-", "not found")
		}
	}
	for _, in := range []string{"IClaims", "ISwComponent"} {
		it := w.iface(root, in)
		if it == nil {
			r.Undecide("C05-anchor", in, "-", "interface not found")
			continue
		}
		for _, t := range w.Implementations(it) {
			for i := 0; i < it.NumMethods(); i++ {
				m := it.Method(i).Name()
				if strings.HasPrefix(m, "Get") || m == "Validate" {
					add(w.MethodImpl(t, m), t.Obj().Name()+"."+m)
				}
			}
			for _, m := range []string{"MarshalCBOR", "MarshalJSON", "UnmarshalCBOR", "UnmarshalJSON"} {
				if fn := w.MethodImpl(t, m); fn != nil {
					add(fn, t.Obj().Name()+"."+m)
				}
			}
		}
	}
	for _, fn := range w.Funcs {
		if len(fn.TypeArgs()) == 0 || fn.Signature.Recv() == nil || !strings.Contains(fn.Signature.Recv().Type().String(), "SwComponents[") {
			continue
		}
		switch baseName(fn) {
		case "Validate", "Values", "IsEmpty", "MarshalCBOR", "MarshalJSON", "UnmarshalCBOR", "UnmarshalJSON":
			add(fn, "SwComponents."+baseName(fn))
		}
	}
	for _, n := range []string{"PopulateStructFromCBOR", "PopulateStructFromJSON", "SerializeStructToCBOR", "SerializeStructToJSON"} {
		add(w.Enc.Func(n), "encoding."+n)
	}
	return out
}

// libraryFile: test helpers that live in non-test files are not library code.
func libraryFile(w *World, fn *ssa.Function) bool {
	f := relFile(w, fn)
	return !strings.HasPrefix(f, "test_common") && !strings.HasPrefix(f, "pretty_test_vectors")
}

// assumeParams: caller-supplied receivers, pointers, interfaces and function
// values are non-nil (recorded as an assumption of the property).
func assumeParams(e *Engine, fn *ssa.Function, st *State) {
	for _, p := range fn.Params {
		switch p.Type().Underlying().(type) {
		case *types.Pointer, *types.Interface, *types.Signature, *types.Map:
			st.atoms["nil("+p.Name()+")"] = false
		}
	}
}

func checkC05(w *World, r *Recorder) propInfo {
	info := propInfo{
		Explanation: "Every panic-capable instruction of in-repo library code reachable from the decode entry points and from the post-decode API (Validate, all getters, Encode*/ValidateAndEncode*, Marshal*, Evidence.{MarshalJSON,Verify,GetInstanceID,GetImplementationID} entered from the final states of a successful UnmarshalCOSE, the embedding-aware populate/serialise helpers) is enumerated from SSA: slice/string index and slice expressions, loads/stores/field addresses through pointers (including the implicit load when a value-receiver method is called through a pointer element), interface invokes, non-comma-ok type assertions, map updates, integer division, make with a computed size, explicit panic. The path engine (in-repo callees inlined, loops generalised by widening so that a state stands for an arbitrary iteration) reaches each site with an abstract state in every calling context; a site is discharged only if in every such state the state's facts prove it safe: 0 <= index < len / lo <= hi <= len from interval sets and relational guard atoms (i < len(x) established by the loop condition, len tests before returns), non-nil from nil tests, allocations, address-of, non-nil-on-success summaries of in-repo callees, and modelled library results. Remaining sites are discharged only by a named lemma whose premises are themselves checked in the same run (shared codec modes are non-nil because the initialiser panics otherwise; register entries hold non-nil profiles because the writer invoked them; the CBOR ordered map holds no duplicate keys, which makes its Delete safe), or because the enclosing function cannot depend on input at all (explicit panic in a parameterless factory). Preconditions recorded as assumptions: caller-supplied receivers / pointer / interface arguments are non-nil; the destination of the populate helpers is a pointer to a struct (reflect kind preconditions depend on static types only). Not decided: panics inside fxamacker/cbor, go-cose, encoding/json, eat on hostile bytes; stack exhaustion.",
		Rule:        "one obligation per panic-capable instruction (site); non-trivial = discharged by state facts or a checked lemma rather than structurally",
		Trusted:     []string{"go/types+go/ssa", "path engine with loop widening; interval and relational guard facts", "library model table (strings.Split result has >= 1 element; reflect accessors are total on the kinds the code has tested; decoders write only their destination)"},
		Assumptions: []string{"caller-supplied receivers and pointer/interface/function arguments are non-nil", "dest of PopulateStructFrom* is a pointer to a struct (documented precondition)", "third-party IClaims / ISwComponent / IProfile implementations do not return nil objects with a nil error"},
	}
	roots := c05Roots(w, r)
	r.Count("entry_points", len(roots))
	col := &siteCollector{w: w, sites: map[ssa.Instruction]*Site{}}
	col.scope = func(fn *ssa.Function) bool {
		if !w.InRepo(fn) || !libraryFile(w, fn) {
			return false
		}
		// synthetic pointer-receiver wrappers of value methods only add the
		// nil-receiver check, which is the caller's precondition
		return fn.Synthetic == "" || strings.HasPrefix(fn.Synthetic, "instance of")
	}
	observedFns := map[*ssa.Function]bool{}
	// walkers and Validate methods multiply paths when inlined (each getter
	// has several outcomes); they are analysed on their own instead
	noInline := map[*ssa.Function]bool{}
	for _, fn := range w.Funcs {
		if baseName(fn) == "Validate" || baseName(fn) == "FilterError" || (c13IsWalker(w, fn) && strings.HasPrefix(baseName(fn), "Validate")) {
			noInline[fn] = true
		}
	}
	for fn := range w.AllFuncs {
		if w.InRepo(fn) && baseName(fn) == "Validate" {
			noInline[fn] = true
		}
	}
	debug := os.Getenv("PSACHECK_DEBUG") != ""
	runRoot := func(fn *ssa.Function, init *State, args []AV, lean bool) []Path {
		e := NewEngine(w)
		e.Effects = w.EffectsOracle()
		e.ErrClasses = w.errClassOracle()
		e.NonNilResult = w.nonNilOracle()
		e.NonNilOnSuccess = w.nonNilOnSuccessOracle()
		e.MaxSteps = 150000
		e.Lean = lean
		e.NoInline = noInline
		col.e = e
		e.Observe = func(in ssa.Instruction, st *State, depth int) {
			observedFns[in.Parent()] = true
			col.observe(in, st, depth)
		}
		if init == nil {
			init = e.RootState()
		}
		assumeParams(e, fn, init)
		t0 := time.Now()
		paths := e.Run(fn, init, args)
		if debug {
			var ms runtime.MemStats
			runtime.ReadMemStats(&ms)
			fmt.Fprintf(os.Stderr, "root %s: %d steps, %d paths, %v heap=%dMB\n", fnKey(fn), e.steps, len(paths), time.Since(t0), ms.HeapAlloc>>20)
		}
		r.Count("engine_steps", e.steps)
		r.Count("paths", len(paths))
		if e.Err != nil {
			r.Undecide("C05-engine", fnKey(fn), w.FnPos(fn), e.Err.Error())
		}
		for _, p := range paths {
			if p.Cut != nil {
				why := p.St.unsupported
				if why == "" {
					why = "irreducible control flow"
				}
				r.Undecide("C05-engine", fnKey(fn)+"#cut@b"+fmt.Sprint(p.Cut.Index), w.FnPos(fn), "path left the engine's fragment: "+why)
			}
		}
		return paths
	}
	successStates := map[*ssa.Function][]*State{}
	if only := os.Getenv("PSACHECK_ONLY"); only != "" {
		var rs []c05Root
		for _, rt := range roots {
			if strings.Contains(rt.name, only) {
				rs = append(rs, rt)
			}
		}
		roots = rs
	}
	for _, rt := range roots {
		if rt.after != nil {
			states, ok := successStates[rt.after]
			if !ok {
				paths := runRoot(rt.after, nil, nil, false)
				ei := errIndex(rt.after)
				for _, p := range paths {
					if p.Ret == nil {
						continue
					}
					if _, nl := errOf(p, ei); nl != 1 {
						states = append(states, p.St)
					}
				}
				successStates[rt.after] = states
			}
			if len(states) == 0 {
				r.Undecide("C05-engine", rt.name, w.FnPos(rt.fn), "no successful final state of "+fnKey(rt.after)+" to start from")
			}
			for _, st := range states {
				s2 := st.clone()
				s2.events = nil
				recv := AV{Kind: KSym, Sym: rt.after.Params[0].Name()}
				runRoot(rt.fn, s2, []AV{recv}, true)
			}
			continue
		}
		runRoot(rt.fn, nil, nil, true)
	}
	// functions reachable through calls the engine kept opaque are analysed on their own
	var rootFns []*ssa.Function
	for _, rt := range roots {
		rootFns = append(rootFns, rt.fn)
	}
	reach := w.Reachable(rootFns)
	for pass := 0; pass < 3; pass++ {
		n := 0
		for _, fn := range sortedFuncs(reach) {
			if observedFns[fn] || !col.scope(fn) || fn.Synthetic == "package initializer" {
				continue
			}
			if fn.TypeParams().Len() > 0 && len(fn.TypeArgs()) == 0 {
				continue
			}
			n++
			runRoot(fn, nil, nil, true)
		}
		if n == 0 {
			break
		}
	}
	r.Count("functions_reachable", len(reach))
	r.Count("functions_observed", len(observedFns))

	// static enumeration, to detect sites the engine never reached
	static := 0
	for _, fn := range sortedFuncs(reach) {
		if !col.scope(fn) || fn.Synthetic == "package initializer" || (fn.TypeParams().Len() > 0 && len(fn.TypeArgs()) == 0) {
			continue
		}
		for _, b := range fn.Blocks {
			for _, in := range b.Instrs {
				if !panicCapable(in) {
					continue
				}
				static++
				if _, seen := col.sites[in]; !seen && !structurallySafe(in) {
					if unreachableBlock(b) {
						continue
					}
					col.site(in, "unreached", "").Witness = "the engine never reached this instruction (its path was cut or its guard is infeasible in every explored state)"
				}
			}
		}
	}
	r.Count("panic_capable_instructions", static)

	lem := newLemmas(w, r)
	lem.register() // the non-nil-on-success summaries may lean on it too: its premise is always recorded
	open := 0
	for _, s := range sortedSites(col.sites) {
		key := siteKey(s)
		pos := w.InstrPos(s.Instr)
		switch {
		case s.Kind == "unreached":
			// unreached code cannot panic in the explored semantics; report only
			// when the whole function was never entered
			if !observedFns[s.Fn] {
				r.Undecide("C05-E8", key, pos, s.Witness)
				open++
			}
		case s.Unsafe == 0:
			r.Prove("C05-E8", key, pos, fmt.Sprintf("%s %s safe in all %d observed contexts", s.Kind, s.What, s.Safe), true)
		default:
			if why, ok := lem.discharge(s); ok {
				r.Prove("C05-E8", key, pos, "lemma: "+why, true)
				continue
			}
			open++
			verb := "may fail"
			if s.Definite {
				verb = "fails"
			}
			r.Refute("C05-E8", key, pos, fmt.Sprintf("%s site %s in %d of %d contexts: %s", s.Kind, verb, s.Unsafe, s.Safe+s.Unsafe, s.Witness))
		}
	}
	r.Count("sites_observed", len(col.sites))
	ruleNoReflectAssign(w, r, "C05-E9")
	r.Floor("C05-E8", 50)
	return info
}

func unreachableBlock(b *ssa.BasicBlock) bool {
	return b.Index != 0 && len(b.Preds) == 0
}

func panicCapable(in ssa.Instruction) bool {
	switch x := in.(type) {
	case *ssa.UnOp:
		return x.Op == token.MUL
	case *ssa.Store, *ssa.FieldAddr, *ssa.IndexAddr, *ssa.Index, *ssa.Slice, *ssa.MapUpdate, *ssa.Panic:
		return true
	case *ssa.TypeAssert:
		return !x.CommaOk
	case *ssa.Lookup:
		_, isMap := x.X.Type().Underlying().(*types.Map)
		return !isMap
	case *ssa.MakeSlice:
		_, isConst := x.Len.(*ssa.Const)
		return !isConst
	case *ssa.BinOp:
		return (x.Op == token.QUO || x.Op == token.REM) && isIntType(x.Type())
	case ssa.CallInstruction:
		return x.Common().IsInvoke()
	}
	return false
}

// structurallySafe: sites the collector skips without judging (addresses of
// locals/globals/fields).
func structurallySafe(in ssa.Instruction) bool {
	isAddr := func(v ssa.Value) bool {
		switch v.(type) {
		case *ssa.Alloc, *ssa.Global, *ssa.FieldAddr, *ssa.IndexAddr:
			return true
		}
		return false
	}
	switch x := in.(type) {
	case *ssa.UnOp:
		return isAddr(x.X)
	case *ssa.Store:
		return isAddr(x.Addr)
	case *ssa.FieldAddr:
		return isAddr(x.X)
	}
	return false
}

// ---------------------------------------------------------------- lemmas ----

type lemmas struct {
	w *World
	r *Recorder
	// premises evaluated lazily, once
	modesNonNil   *bool
	regNonNil     *bool
	cborNoDupKeys *bool
	notes         map[string]string
}

func newLemmas(w *World, r *Recorder) *lemmas { return &lemmas{w: w, r: r, notes: map[string]string{}} }

func (l *lemmas) discharge(s *Site) (string, bool) {
	w := l.w
	switch s.Kind {
	case "assert":
		// the nil check of a method value taken from a shared codec mode
		if ta, ok := s.Instr.(*ssa.TypeAssert); ok && types.Identical(ta.X.Type(), ta.AssertedType) {
			if ld, ok := ta.X.(*ssa.UnOp); ok {
				if g, ok := ld.X.(*ssa.Global); ok {
					t := g.Type().(*types.Pointer).Elem().String()
					if (t == pCBOR+".EncMode" || t == pCBOR+".DecMode") && l.modes() {
						return "shared codec mode " + g.Name() + " is non-nil: written only by the initialiser from (mode, err) and the package init panics when err != nil", true
					}
				}
			}
		}
	case "invoke":
		// invoke on a shared codec mode
		if c, ok := s.Instr.(ssa.CallInstruction); ok {
			if ld, ok := c.Common().Value.(*ssa.UnOp); ok {
				if g, ok := ld.X.(*ssa.Global); ok {
					t := g.Type().(*types.Pointer).Elem().String()
					if (t == pCBOR+".EncMode" || t == pCBOR+".DecMode") && l.modes() {
						return "shared codec mode " + g.Name() + " is non-nil: written only by the initialiser from (mode, err) and the package init panics when err != nil", true
					}
				}
			}
			// invoke on the Profile of a register entry
			// invoke on a codec mode that reached this function as an argument:
			// every unproved context names a shared mode variable as the value
			modeNames := map[string]bool{}
			for _, gi := range w.Globals() {
				t := gi.G.Type().(*types.Pointer).Elem().String()
				if t == pCBOR+".EncMode" || t == pCBOR+".DecMode" {
					modeNames["g:"+globalName(gi.G)] = true
				}
			}
			allModes := len(s.UnsafeWhat) > 0
			for what := range s.UnsafeWhat {
				v := what
				if i := strings.LastIndex(v, "."); i > 0 && !strings.Contains(v[i:], "/") {
					// strip the method name
					if j := strings.Index(v, "@"); j > 0 && j < i {
						v = v[:j]
					} else {
						v = v[:i]
					}
				}
				if j := strings.Index(v, "@"); j > 0 {
					v = v[:j]
				}
				if !modeNames[v] {
					allModes = false
				}
			}
			if allModes && l.modes() {
				return "the value is a shared codec mode handed down as an argument: non-nil because the initialiser panics otherwise", true
			}
			isEntry := func(what string) bool {
				return strings.Contains(what, "lookup(g:"+l.regName()) || strings.Contains(what, "v:next#") || strings.Contains(what, "(entry)")
			}
			all := len(s.UnsafeWhat) > 0
			for what := range s.UnsafeWhat {
				all = all && isEntry(what)
			}
			if all {
				if l.register() {
					return "register entries hold non-nil profiles: the only writer invoked the profile before storing it", true
				}
			}
		}
	case "slice", "index":
		if t := w.encMapType("CBOR"); t != nil && strings.HasSuffix(fnKey(s.Fn), t.Obj().Name()+").Delete") && l.noDupKeys() {
			return "structFieldsCBOR.Keys holds no duplicates (only Add extends it, guarded by !Has(key), and Add inserts the key into Fields), so at most one iteration removes an element and no later iteration slices again", true
		}
	case "panic":
		if inputIndependent(w, s.Fn) {
			return "explicit panic in " + fnKey(s.Fn) + ", a function without parameters that reads no mutable state: it panics on every call or on none (the pinned tests call it)", true
		}
	}
	return "", false
}

func (l *lemmas) regName() string {
	if g := registerGlobal(l.w); g != nil {
		return regMemName(g)
	}
	return "?"
}

// modes: every package-level EncMode/DecMode is init-only, comes from result
// 0 of a call whose result 1 initialises an error variable, and an in-repo
// init function panics when that error variable is non-nil.
func (l *lemmas) modes() bool {
	if l.modesNonNil != nil {
		return *l.modesNonNil
	}
	w := l.w
	ok := true
	n := 0
	for _, gi := range w.Globals() {
		t := gi.G.Type().(*types.Pointer).Elem().String()
		if t != pCBOR+".EncMode" && t != pCBOR+".DecMode" {
			continue
		}
		n++
		if !gi.InitOnly || gi.InitVal == nil {
			ok = false
			continue
		}
		ex, isEx := gi.InitVal.(*ssa.Extract)
		if !isEx {
			// the other accepted form: mode = must(constructor()) with an in-repo
			// helper that returns its first argument and panics unless its
			// second (the error) is nil
			if call, isCall := gi.InitVal.(*ssa.Call); isCall && mustHelperCall(w, call) {
				continue
			}
		}
		if !isEx || ex.Index != 0 {
			ok = false
			continue
		}
		// the sibling error global
		var errG *ssa.Global
		for _, ref := range *ex.Tuple.Referrers() {
			if e2, isEx2 := ref.(*ssa.Extract); isEx2 && e2.Index == 1 {
				for _, r2 := range *e2.Referrers() {
					if st, isSt := r2.(*ssa.Store); isSt {
						if g, isG := st.Addr.(*ssa.Global); isG {
							errG = g
						}
					}
				}
			}
		}
		if errG == nil || !initPanicsOn(w, errG) {
			// third form: the error is a local of the (init-time) writer and is
			// tested there, the non-nil edge ending in a panic
			if !localErrPanics(ex) {
				ok = false
			}
		}
		// the constructor returns a non-nil mode when err is nil (model: EncMode()/DecMode())
		if call, isCall := ex.Tuple.(*ssa.Call); isCall {
			if f := call.Call.StaticCallee(); f != nil && w.InRepo(f) {
				// in-repo wrapper: must return the library constructor's results unchanged
				if !returnsCallResults(f, "EncMode", "DecMode") {
					ok = false
				}
			}
		}
	}
	ok = ok && n >= 2
	l.r.Check(ok, "C05-lemma", "codec-modes-non-nil", "-", "premises hold: init-only modes, paired error checked by a panicking init", "premise fails: a shared codec mode may be nil when used")
	l.modesNonNil = &ok
	return ok
}

// localErrPanics: the error result of the tuple ex comes from is tested
// against nil in the same function and the non-nil edge ends in a panic.
func localErrPanics(ex *ssa.Extract) bool {
	for _, ref := range *ex.Tuple.Referrers() {
		e1, ok := ref.(*ssa.Extract)
		if !ok || e1.Index != 1 {
			continue
		}
		// the error may be spilled to a local (closures): follow stores and loads
		vals := []ssa.Value{e1}
		for _, r2 := range *e1.Referrers() {
			if st, ok := r2.(*ssa.Store); ok {
				if al, ok := st.Addr.(*ssa.Alloc); ok {
					for _, r3 := range *al.Referrers() {
						if ld, ok := r3.(*ssa.UnOp); ok && ld.Op == token.MUL && ld.Block() == st.Block() {
							vals = append(vals, ld)
						}
					}
				}
			}
		}
		for _, v := range vals {
			for _, r2 := range *v.Referrers() {
				bo, ok := r2.(*ssa.BinOp)
				if !ok || bo.Op != token.NEQ || !(isNilConst(bo.X) || isNilConst(bo.Y)) {
					continue
				}
				for _, r3 := range *bo.Referrers() {
					if ifi, ok := r3.(*ssa.If); ok {
						t := ifi.Block().Succs[0]
						if _, isPanic := t.Instrs[len(t.Instrs)-1].(*ssa.Panic); isPanic {
							return true
						}
					}
				}
			}
		}
	}
	return false
}

// mustHelperCall: call is h(x, err) with (x, err) the two results of one
// constructor call (the library's EncMode()/DecMode() or an in-repo wrapper
// returning them unchanged), and h returns its first parameter only on paths
// where its second is nil (it panics otherwise).
func mustHelperCall(w *World, call *ssa.Call) bool {
	h := call.Call.StaticCallee()
	if h == nil || h.Blocks == nil || !w.InRepo(h) || len(h.Params) != 2 || len(call.Call.Args) != 2 {
		return false
	}
	e0, ok0 := call.Call.Args[0].(*ssa.Extract)
	e1, ok1 := call.Call.Args[1].(*ssa.Extract)
	if !ok0 || !ok1 || e0.Tuple != e1.Tuple || e0.Index != 0 || e1.Index != 1 {
		return false
	}
	ctor, ok := e0.Tuple.(*ssa.Call)
	if !ok {
		return false
	}
	if f := ctor.Call.StaticCallee(); f != nil && w.InRepo(f) {
		if !returnsCallResults(f, "EncMode", "DecMode") {
			return false
		}
	} else {
		n := calleeName(&ctor.Call)
		if !strings.HasSuffix(n, "Options).EncMode") && !strings.HasSuffix(n, "Options).DecMode") {
			return false
		}
	}
	rets := 0
	for _, b := range h.Blocks {
		ret, ok := b.Instrs[len(b.Instrs)-1].(*ssa.Return)
		if !ok {
			continue
		}
		rets++
		if len(ret.Results) != 1 || ret.Results[0] != ssa.Value(h.Params[0]) || !knownNilAt(h.Params[1], b) {
			return false
		}
	}
	return rets > 0
}

func returnsCallResults(f *ssa.Function, names ...string) bool {
	for _, b := range f.Blocks {
		ret, ok := b.Instrs[len(b.Instrs)-1].(*ssa.Return)
		if !ok {
			continue
		}
		if len(ret.Results) != 2 {
			return false
		}
		e0, ok0 := ret.Results[0].(*ssa.Extract)
		e1, ok1 := ret.Results[1].(*ssa.Extract)
		if !ok0 || !ok1 || e0.Tuple != e1.Tuple || e0.Index != 0 || e1.Index != 1 {
			return false
		}
		c, ok := e0.Tuple.(*ssa.Call)
		if !ok {
			return false
		}
		n := calleeName(&c.Call)
		hit := false
		for _, x := range names {
			if strings.HasSuffix(n, "Options)."+x) {
				hit = true
			}
		}
		if !hit {
			return false
		}
	}
	return true
}

func initPanicsOn(w *World, errG *ssa.Global) bool {
	for _, fn := range w.Funcs {
		if !(fn.Name() == "init" || strings.HasPrefix(fn.Name(), "init#")) || fn.Synthetic != "" {
			continue
		}
		for _, b := range fn.Blocks {
			ifi, ok := b.Instrs[len(b.Instrs)-1].(*ssa.If)
			if !ok {
				continue
			}
			x, nilSucc, ok := nilGuard(ifi)
			if !ok {
				continue
			}
			ld, ok := x.(*ssa.UnOp)
			if !ok || ld.X != ssa.Value(errG) {
				continue
			}
			nn := b.Succs[1-nilSucc]
			if _, isPanic := nn.Instrs[len(nn.Instrs)-1].(*ssa.Panic); isPanic {
				return true
			}
		}
	}
	return false
}

// register: every update of the register stores an entry whose Profile was
// the receiver of an invoke that dominates the update.
func (l *lemmas) register() bool {
	if l.regNonNil != nil {
		return *l.regNonNil
	}
	ok := l.w.registerEntriesNonNil()
	l.r.Check(ok, "C05-lemma", "register-entries-non-nil", "-", "premise holds: the register's writer invokes the profile before storing it", "premise fails: a register entry may hold a nil profile")
	l.regNonNil = &ok
	return ok
}

var regNonNilMemo = map[*World]bool{}

// registerEntriesNonNil: the premise of the register lemma, without recording.
func (w *World) registerEntriesNonNil() bool {
	if v, ok := regNonNilMemo[w]; ok {
		return v
	}
	reg := registerGlobal(w)
	ok := reg != nil
	n := 0
	if ok {
		for _, fn := range w.Funcs {
			for _, b := range fn.Blocks {
				for _, in := range b.Instrs {
					mu, isMU := in.(*ssa.MapUpdate)
					if !isMU || !loadsGlobal(mu.Map, reg) {
						continue
					}
					n++
					good := w.entryProfileInvoked(fn, mu.Value, b, 0)
					if !good {
						ok = false
					}
				}
			}
		}
	}
	ok = ok && n > 0
	regNonNilMemo[w] = ok
	return ok
}

// registerEntryValue: the abstract value is (a field of) an entry read from
// the profile register, by lookup or by iteration.
func (w *World) registerEntryValue(name string) bool {
	reg := registerGlobal(w)
	if reg == nil {
		return false
	}
	return strings.Contains(name, "lookup(g:"+regMemName(reg)) || strings.Contains(name, "v:next#")
}

// noDupKeys: the CBOR ordered map never holds a key twice: the only writers
// of structFieldsCBOR.Keys are Add and Delete, and Add appends only under
// !Has(key) while inserting the same key into Fields.
func (l *lemmas) noDupKeys() bool {
	if l.cborNoDupKeys != nil {
		return *l.cborNoDupKeys
	}
	w := l.w
	eff := w.Effects()
	ok := true
	writers := map[string]bool{}
	for _, fn := range w.Funcs {
		ef := eff[fn]
		if ef == nil {
			continue
		}
		for _, s := range ef.Sites {
			if t := w.encMapType("CBOR"); t != nil && s.Field == t.Obj().Name()+".Keys" {
				writers[baseName(fn)] = true
			}
		}
	}
	for n := range writers {
		if n != "Add" && n != "Delete" {
			ok = false
		}
	}
	if !writers["Add"] {
		ok = false
	}
	// Add: success path has !Has(key), Fields[key] := val, Keys := append(Keys, key)
	if t := w.encMapType("CBOR"); t != nil {
		if add := w.MethodImpl(t, "Add"); add != nil {
			s := w.Summarise(add)
			if c, _ := s.Complete(); !c {
				ok = false
			}
			recv, key := add.Params[0].Name(), add.Params[1].Name()
			for _, p := range s.Paths {
				if p.Ret == nil {
					continue
				}
				_, nl := errOf(p, 0)
				var mapKey, appended string
				for _, ev := range p.St.events {
					if ev.Kind == "store" && strings.HasPrefix(ev.Loc, "M:") && strings.Contains(ev.Loc, recv+".Fields[") {
						mapKey = strings.TrimSuffix(strings.SplitN(ev.Loc, "[", 2)[1], "]")
					}
					if ev.Kind == "store" && ev.Loc == "P:"+recv+"|.Keys" {
						appended = ev.Val.name()
					}
				}
				if nl == 1 {
					if mapKey != "" || appended != "" {
						ok = false
					}
					continue
				}
				absent := false
				for a, b := range p.St.atoms {
					if strings.HasPrefix(a, "ok:lookup(") && strings.Contains(a, recv+".Fields,"+key+")") && !b {
						absent = true
					}
				}
				if !absent || mapKey != key || !(strings.HasPrefix(appended, "append(") && strings.Contains(appended, recv+".Keys,["+key+"]")) {
					ok = false
				}
			}
		} else {
			ok = false
		}
	} else {
		ok = false
	}
	// Delete removes from both
	l.r.Check(ok, "C05-lemma", "structFieldsCBOR-keys-unique", "-", "premises hold: Keys is extended only by Add, under !Has(key), together with Fields[key]", fmt.Sprintf("premise fails: structFieldsCBOR.Keys may hold duplicates (writers: %v)", sortedKeys(writers)))
	l.cborNoDupKeys = &ok
	return ok
}

// inputIndependent: the function has no parameters and loads only from its
// own allocations and init-only globals.
func inputIndependent(w *World, fn *ssa.Function) bool {
	if len(fn.Params) != 0 || len(fn.FreeVars) != 0 {
		return false
	}
	for _, b := range fn.Blocks {
		for _, in := range b.Instrs {
			if ld, ok := in.(*ssa.UnOp); ok && ld.Op == token.MUL {
				if g, ok := ld.X.(*ssa.Global); ok {
					gi := w.GlobalInfo(g)
					if gi != nil && !gi.InitOnly {
						return false
					}
				}
			}
		}
	}
	return true
}

var _ = sort.Strings

// entryProfileInvoked: v, used in block b of fn, is a register entry (a load
// of a local composite) whose interface-typed field was stored from a value
// that an invoke dominating b was made on — or a by-value parameter of an
// unexported store helper, for which the same holds at every call site.
func (w *World) entryProfileInvoked(fn *ssa.Function, v ssa.Value, b *ssa.BasicBlock, depth int) bool {
	if par, isPar := v.(*ssa.Parameter); isPar {
		if depth > 3 || ssaExported(fn) {
			return false
		}
		node := w.CallGraph().Nodes[fn]
		if node == nil || len(node.In) == 0 {
			return false
		}
		idx := -1
		for i, p := range fn.Params {
			if p == par {
				idx = i
			}
		}
		for _, e := range node.In {
			if e.Site == nil || e.Site.Common().StaticCallee() != fn || idx < 0 || idx >= len(e.Site.Common().Args) || e.Caller.Func == nil {
				return false
			}
			if !w.entryProfileInvoked(e.Caller.Func, e.Site.Common().Args[idx], e.Site.Block(), depth+1) {
				return false
			}
		}
		return true
	}
	ld, isLd := v.(*ssa.UnOp)
	if !isLd {
		return false
	}
	al, isAl := ld.X.(*ssa.Alloc)
	if !isAl {
		return false
	}
	good := false
	for _, ref := range *al.Referrers() {
		fa, isFA := ref.(*ssa.FieldAddr)
		if !isFA {
			continue
		}
		st := fa.X.Type().Underlying().(*types.Pointer).Elem().Underlying().(*types.Struct)
		if !types.IsInterface(st.Field(fa.Field).Type()) {
			continue
		}
		for _, r2 := range *fa.Referrers() {
			if sto, isSt := r2.(*ssa.Store); isSt {
				// an invoke on the stored value dominating the update
				for _, b2 := range fn.Blocks {
					for _, in2 := range b2.Instrs {
						if c, isC := in2.(*ssa.Call); isC && c.Call.IsInvoke() && c.Call.Value == sto.Val && (b2.Dominates(b) || b2 == b) {
							good = true
						}
					}
				}
			}
		}
	}
	return good
}
