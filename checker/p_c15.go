package main

// C15 — the embedding-aware codec merges, round-trips and matches the plain codec
// (statically decidable part: header writer/reader tables and their
// composition, the skip/act structure of the four struct walkers, duplicate-key
// guard, ordered-map writers, stable output order).

import (
	"fmt"
	"go/constant"
	"go/token"
	"go/types"
	"sort"
	"strings"

	"golang.org/x/tools/go/ssa"
)

func init() { register("C15", checkC15) }

func checkC15(w *World, r *Recorder) propInfo {
	info := propInfo{
		Explanation: "H1 writer: interval abstract interpretation of structFieldsCBOR.ToCBOR on n = number of keys yields the exact partition n=0 → a0; 1..23 → one byte a0+n; 24..255 → b8 n; 256..65535 → b9 + big-endian uint16; ≥65536 → ba + big-endian uint32, compared with the CBOR major-type-5 header table. H2 reader: processAdditionalInfo's cells: 0..23 direct; 24/25/26 → 1/2/4 bytes big-endian, each behind a len(data) ≥ k guard and returning the rest; 27..30 and >31 error; 31 indefinite. H3 composition: in FromCBOR the indefinite-length loop (the one that tests for the break byte ff) is reached only in states with additional-info = 31, and the definite path is taken for every other value including a declared length of 0 — so what H1 writes for n entries is read back as the definite map of n entries (the all-empty struct included). H4 walkers: in each of doSerializeStructTo{CBOR,JSON} and doPopulateStructFrom{CBOR,JSON}, the edges by which an iteration of the field loop skips the field are exactly: collectEmbedded()==true, no cbor/json tag, key == \"-\", and (serialise) omitempty ∧ IsZero / (populate) absent ∧ omitempty; a missing key without omitempty returns an error; isOmitEmpty is true only through equality with the constant \"omitempty\" over the options after the first; the tag looked up is the codec's own; embedded structs are handled by recursion over the collected list with the same map. H5 duplicate CBOR key: unmarshalKeyValue returns Add's error and Add inserts only when the key is absent. H6 ordered map: Keys/Fields are written only by Add, Delete, the constructors and the two From* readers. H7 stable order: ToCBOR / ToJSON walk the Keys slice; no range over a map reaches an output append in the encoding package. Not decided: equality with the plain marshaller over struct families, round-trip of field values (library behaviour), 70 000-key runs beyond the header thresholds. H12: with no keys the JSON map writer emits exactly {} and does not patch its output afterwards.",
		Rule:        "one obligation per header cell, per loop-entry state, per walker skip edge, per writer",
		Trusted:     []string{"go/types+go/ssa", "interval engine (bit masks, shifts, byte conversions, big-endian models)", "RFC 8949 major-type-5 header table (spec)"},
	}
	_ = w.Enc
	sf := w.encMapType("CBOR")
	if sf == nil {
		r.Undecide("C15-anchor", "structFieldsCBOR", "-", "type not found")
		return info
	}
	c15Writer(w, r, sf)
	c15Reader(w, r)
	c15Compose(w, r, sf)
	for _, n := range []string{"doSerializeStructToCBOR", "doSerializeStructToJSON", "doPopulateStructFromCBOR", "doPopulateStructFromJSON"} {
		c15Walker(w, r, n)
	}
	c15DupKey(w, r, sf)
	c15Collector(w, r)
	c15Writers(w, r)
	c15Order(w, r)
	r.Floor("C15-H1", 1)
	r.Floor("C15-H2", 1)
	r.Floor("C15-H3", 1)
	r.Floor("C15-H4", 4)
	r.Floor("C15-H5", 1)
	r.Floor("C15-H6", 2)
	r.Floor("C15-H7", 2)
	ruleNoReflectAssign(w, r, "C15-H9")
	// H10: an extension profile (or component) built by embedding a base type
	// is encoded and decoded as the union of its fields only as long as no
	// codec method of the base type is promoted over it unexpectedly
	ruleCodecMethodSets(w, r, "C15-H10")
	// H11: what the serialisers store for a field is the plain codec's own
	// encoding of that field's value — this is what makes the output decode to
	// the same map as the plain marshaller's
	for _, n := range []string{"doSerializeStructToCBOR", "doSerializeStructToJSON"} {
		c15FieldEncoding(w, r, n, "C15-H11")
	}
	// H12: the all-empty struct serialises to {} in JSON
	if sfj := w.encMapType("JSON"); sfj != nil {
		c15JSONFraming(w, r, sfj)
	} else {
		r.Undecide("C15-H12", "structFieldsJSON", "-", "type not found")
	}
	r.Floor("C15-H12", 1)
	return info
}

// ---- H1 ----

type hdrCell struct {
	n     iset
	bytes []AV
	nTerm string
}

func c15Writer(w *World, r *Recorder, sf *types.Named) {
	fn := w.MethodImpl(sf, "ToCBOR")
	if fn == nil {
		r.Undecide("C15-H1", "ToCBOR", "-", "not found")
		return
	}
	// the key loop and its []byte φ
	var loop *SliceLoop
	for _, l := range sliceLoops(fn) {
		if loadsField(l.S, "Keys") {
			l := l
			loop = &l
		}
	}
	if loop == nil {
		r.Undecide("C15-H1", "ToCBOR", w.FnPos(fn), "no walk over the Keys slice found")
		return
	}
	var outPhi *ssa.Phi
	for _, in := range loop.Header.Instrs {
		if phi, ok := in.(*ssa.Phi); ok && isByteSlice(phi.Type()) {
			outPhi = phi
		}
	}
	if outPhi == nil {
		r.Undecide("C15-H1", "ToCBOR", w.FnPos(fn), "no output buffer carried around the key loop")
		return
	}
	var cells []hdrCell
	e := NewEngine(w)
	e.Effects = w.EffectsOracle()
	nTerm := ""
	e.Observe = func(in ssa.Instruction, st *State, depth int) {
		if depth != 0 {
			return
		}
		b := in.Block()
		if in != b.Instrs[len(b.Instrs)-1] {
			return
		}
		for i, p := range loop.Header.Preds {
			if p != b || loop.Header.Dominates(p) {
				continue
			}
			v := e.eval(st, outPhi.Edges[i])
			var bytes []AV
			switch v.Kind {
			case KSeq:
				bytes = v.Elems
			case KSliceOf:
				for k := 0; k < v.N; k++ {
					bytes = append(bytes, e.load(st, locJoin(ensureSel(v.Loc), fmt.Sprintf("[%d]", k)), types.Typ[types.Uint8]))
				}
			default:
				bytes = []AV{v}
			}
			// n: len of Keys
			lt := e.lenTerm(st, e.eval(st, loop.S))
			set, _ := e.linRange(st, lt)
			if lt.Kind == KLin {
				nTerm = lt.Term
			}
			cells = append(cells, hdrCell{n: set, bytes: bytes, nTerm: nTerm})
		}
	}
	paths := e.Run(fn, nil, nil)
	// the n = 0 return
	for _, p := range paths {
		if p.Ret == nil || len(p.Rets) != 2 || p.St.NilOf(p.Rets[1]) != -1 {
			continue
		}
		var bytes []AV
		switch a := p.Rets[0]; a.Kind {
		case KSeq:
			bytes = a.Elems
		case KSliceOf:
			for i := 0; i < a.N; i++ {
				bytes = append(bytes, e.load(p.St, locJoin(ensureSel(a.Loc), fmt.Sprintf("[%d]", i)), types.Typ[types.Uint8]))
			}
		default:
			continue
		}
		// only returns that never entered the key loop
		entered := false
		for t := range p.St.terms {
			if strings.HasPrefix(t, "φ"+fn.Name()+".") {
				entered = true
			}
		}
		if entered {
			continue
		}
		for t, set := range p.St.terms {
			if strings.HasPrefix(t, "len(") && strings.Contains(t, "Keys") {
				zero := inter(set, iset{{0, 0}})
				if !zero.empty() && set.equal(zero) {
					cells = append(cells, hdrCell{n: set, bytes: bytes, nTerm: t})
				}
			}
		}
	}
	r.Count("writer_cells", len(cells))
	type want struct {
		lo, hi int64
		desc   string
		check  func(c hdrCell) bool
	}
	isN := func(a AV, nTerm string, k int64) bool { return a.Kind == KLin && a.Term == nTerm && a.K == k }
	isBE := func(a AV, bits int, nTerm string) bool {
		if a.Kind != KSym || !strings.HasPrefix(a.Sym, fmt.Sprintf("be%d(", bits)) || a.Inner == nil {
			return false
		}
		in := *a.Inner
		// the count itself, or its conversion to the width written (a masked or
		// otherwise derived count is a different number)
		return in.Kind == KLin && in.K == 0 && (in.Term == nTerm || in.Term == fmt.Sprintf("conv(uint%d,%s)", bits, nTerm))
	}
	wants := []want{
		{0, 0, "n=0 → a0", func(c hdrCell) bool { return len(c.bytes) == 1 && c.bytes[0].Kind == KInt && c.bytes[0].K == 0xa0 }},
		{1, 23, "1..23 → a0+n", func(c hdrCell) bool { return len(c.bytes) == 1 && isN(c.bytes[0], c.nTerm, 0xa0) }},
		{24, 255, "24..255 → b8 n", func(c hdrCell) bool {
			return len(c.bytes) == 2 && c.bytes[0].Kind == KInt && c.bytes[0].K == 0xb8 && isN(c.bytes[1], c.nTerm, 0)
		}},
		{256, 65535, "256..65535 → b9 be16(n)", func(c hdrCell) bool {
			return len(c.bytes) == 2 && c.bytes[0].Kind == KInt && c.bytes[0].K == 0xb9 && isBE(c.bytes[1], 16, c.nTerm)
		}},
		{65536, maxI, "≥65536 → ba be32(n)", func(c hdrCell) bool {
			return len(c.bytes) == 2 && c.bytes[0].Kind == KInt && c.bytes[0].K == 0xba && isBE(c.bytes[1], 32, c.nTerm)
		}},
	}
	covered := iset{}
	for _, c := range cells {
		covered = union(covered, c.n)
	}
	for _, wt := range wants {
		rng := iset{{wt.lo, wt.hi}}
		var got []string
		ok := false
		cover := iset{}
		for _, c := range cells {
			if inter(c.n, rng).empty() {
				continue
			}
			var bs []string
			for _, b := range c.bytes {
				bs = append(bs, b.name())
			}
			got = append(got, c.n.String()+"→["+strings.Join(bs, " ")+"]")
			if c.n.subsetOf(rng) && wt.check(c) {
				ok = true
				cover = union(cover, c.n)
			} else {
				ok = false
				cover = iset{}
				break
			}
		}
		ok = ok && cover.equal(rng)
		r.Check(ok, "C15-H1", "ToCBOR#"+wt.desc, w.FnPos(fn), "header cell as specified: "+strings.Join(got, "; "), "map header written for this range of entry counts is not "+wt.desc+": "+strings.Join(got, "; "))
	}
}

// ---- H2 ----

func c15Reader(w *World, r *Recorder) {
	fn := w.Enc.Func("processAdditionalInfo")
	if fn == nil || len(fn.Params) != 2 {
		r.Undecide("C15-H2", "processAdditionalInfo", "-", "not found")
		return
	}
	s := w.Summarise(fn)
	if ok, why := s.Complete(); !ok {
		r.Undecide("C15-H2", "processAdditionalInfo", w.FnPos(fn), why)
		return
	}
	ai, data := fn.Params[0].Name(), fn.Params[1].Name()
	lenData := "len(" + data + ")"
	type outcome struct {
		ai, ln iset
		tag    string
	}
	var got []Cube
	for _, p := range s.Paths {
		if p.Ret == nil {
			r.Refute("C15-H2", "processAdditionalInfo#panic", w.FnPos(fn), "a path panics: "+p.St.Describe())
			return
		}
		c := Cube{Terms: map[string]iset{}, Atoms: map[string]bool{}}
		if set, ok := p.St.terms[ai]; ok {
			c.Terms[ai] = set
		}
		if set, ok := p.St.terms[lenData]; ok {
			c.Terms[lenData] = set
		}
		_, nl := errOf(p, 2)
		switch nl {
		case 1:
			c.Tag = "error"
		case -1:
			ml, rest := p.Rets[0], p.Rets[1]
			c.Tag = "len=" + ml.name() + " rest=" + rest.name()
		default:
			c.Tag = "unknown"
		}
		got = append(got, c)
	}
	full := iset{{0, maxI}}
	be := func(bits, k int) string {
		return fmt.Sprintf("len=be%d(slice(%s,,%d)) rest=slice(%s,%d,)", bits, data, k, data, k)
	}
	want := []Cube{
		{Terms: map[string]iset{ai: {{0, 23}}}, Tag: "len=" + ai + " rest=" + data},
		{Terms: map[string]iset{ai: {{24, 24}}, lenData: {{1, maxI}}}, Tag: fmt.Sprintf("len=%s[0] rest=slice(%s,1,)", data, data)},
		{Terms: map[string]iset{ai: {{24, 24}}, lenData: {{0, 0}}}, Tag: "error"},
		{Terms: map[string]iset{ai: {{25, 25}}, lenData: {{2, maxI}}}, Tag: be(16, 2)},
		{Terms: map[string]iset{ai: {{25, 25}}, lenData: {{0, 1}}}, Tag: "error"},
		{Terms: map[string]iset{ai: {{26, 26}}, lenData: {{4, maxI}}}, Tag: be(32, 4)},
		{Terms: map[string]iset{ai: {{26, 26}}, lenData: {{0, 3}}}, Tag: "error"},
		{Terms: map[string]iset{ai: {{27, 30}}}, Tag: "error"},
		{Terms: map[string]iset{ai: {{31, 31}}}, Tag: "len=0 rest=" + data},
		{Terms: map[string]iset{ai: {{32, 255}}}, Tag: "error"},
	}
	u := Universe{Terms: map[string]iset{ai: {{0, 255}}, lenData: full}}
	mm, n, err := compareUnions(u, got, want)
	r.Count("reader_cells", n)
	if err != nil {
		r.Undecide("C15-H2", "processAdditionalInfo", w.FnPos(fn), err.Error())
		return
	}
	if len(mm) == 0 {
		for _, wc := range want {
			r.Prove("C15-H2", "processAdditionalInfo#"+wc.String(), w.FnPos(fn), wc.Tag, true)
		}
		return
	}
	r.Refute("C15-H2", "processAdditionalInfo", w.FnPos(fn), "length-header reader disagrees with the CBOR table: "+joinLimited(mm, 3))
}

// ---- H3 ----

func c15Compose(w *World, r *Recorder, sf *types.Named) {
	fn := w.MethodImpl(sf, "FromCBOR")
	pai := w.Enc.Func("processAdditionalInfo")
	if fn == nil || pai == nil {
		r.Undecide("C15-H3", "FromCBOR", "-", "not found")
		return
	}
	// loops: the indefinite one tests a byte against the break byte 0xff
	var indef, def *ssa.BasicBlock
	for _, b := range fn.Blocks {
		isHeader := false
		for _, p := range b.Preds {
			if b.Dominates(p) {
				isHeader = true
			}
		}
		if !isHeader {
			continue
		}
		li := loopInfoOf(b)
		hasBreakTest := false
		for blk := range li.blocks {
			for _, in := range blk.Instrs {
				if bo, ok := in.(*ssa.BinOp); ok && (bo.Op == token.EQL || bo.Op == token.NEQ) {
					for _, op := range []ssa.Value{bo.X, bo.Y} {
						if c, ok := op.(*ssa.Const); ok && c.Value != nil && c.Value.Kind() == constant.Int {
							if k, _ := constant.Int64Val(c.Value); k == 0xff {
								hasBreakTest = true
							}
						}
					}
				}
			}
		}
		if hasBreakTest {
			indef = b
		} else {
			def = b
		}
	}
	// fused form: one loop serves both encodings; the break-byte test and the
	// test of the counter against the declared length are then the two
	// program points at which the encoding must be the right one
	var breakCmp, countCmp ssa.Instruction
	if def == nil && indef != nil {
		for blk := range loopInfoOf(indef).blocks {
			for _, in := range blk.Instrs {
				bo, ok := in.(*ssa.BinOp)
				if !ok {
					continue
				}
				switch bo.Op {
				case token.EQL, token.NEQ:
					for _, op := range []ssa.Value{bo.X, bo.Y} {
						if c, ok := op.(*ssa.Const); ok && c.Value != nil && c.Value.Kind() == constant.Int {
							if k, _ := constant.Int64Val(c.Value); k == 0xff {
								breakCmp = bo
							}
						}
					}
				}
				switch bo.Op {
				case token.LSS, token.LEQ, token.GTR, token.GEQ, token.EQL, token.NEQ:
					for _, op := range []ssa.Value{bo.X, bo.Y} {
						if ex, ok := stripConv(op).(*ssa.Extract); ok && ex.Index == 0 {
							if c, ok := ex.Tuple.(*ssa.Call); ok && c.Call.StaticCallee() == pai {
								countCmp = bo
							}
						}
					}
				}
			}
		}
	}
	fused := breakCmp != nil && countCmp != nil
	// helper form: the counted loop lives in an in-package helper that
	// FromCBOR calls with the declared length (the first result of the header
	// reader) among its arguments; the call site is then the point at which
	// the encoding must not be the indefinite one
	var defCall ssa.Instruction
	if !fused && def == nil && indef != nil {
		for _, b := range fn.Blocks {
			for _, in := range b.Instrs {
				c, ok := in.(*ssa.Call)
				if !ok {
					continue
				}
				callee := c.Call.StaticCallee()
				if callee == nil || callee == pai || callee.Blocks == nil || fnPkg(callee) != w.Enc {
					continue
				}
				takesCount := false
				for _, a := range c.Call.Args {
					if ex, ok := stripConv(a).(*ssa.Extract); ok && ex.Index == 0 {
						if pc, ok := ex.Tuple.(*ssa.Call); ok && pc.Call.StaticCallee() == pai {
							takesCount = true
						}
					}
				}
				hasLoop := false
				for _, cb := range callee.Blocks {
					for _, p := range cb.Preds {
						if cb.Dominates(p) {
							hasLoop = true
						}
					}
				}
				if takesCount && hasLoop {
					defCall = c
				}
			}
		}
	}
	if !fused && (indef == nil || (def == nil && defCall == nil)) {
		r.Undecide("C15-H3", "FromCBOR#loops", w.FnPos(fn), "could not identify the definite and the indefinite (break-byte) loop")
		return
	}
	type entry struct {
		ai   iset
		desc string
	}
	var toIndef, toDef []entry
	var aiTerms []string
	e := NewEngine(w)
	e.Effects = w.EffectsOracle()
	firstVisit := map[*ssa.BasicBlock]map[*State]bool{}
	e.Observe = func(in ssa.Instruction, st *State, depth int) {
		if depth != 0 {
			return
		}
		b := in.Block()
		if fused {
			if in != breakCmp && in != countCmp {
				return
			}
		} else if in == defCall && defCall != nil {
			// fall through: recorded as an entry of the counted loop
		} else if (b != indef && b != def) || in != b.Instrs[0] {
			return
		}
		if firstVisit[b] == nil {
			firstVisit[b] = map[*State]bool{}
		}
		// the additional-info term of the map header: the argument of the last
		// processAdditionalInfo call; it is recorded by the enter hook below
		aiTerms = aiTerms[:0]
		for _, ev := range st.events {
			if ev.Kind == "enter" && ev.Static == pai && len(ev.Args) > 0 && ev.Args[0].Kind == KLin {
				aiTerms = append(aiTerms, ev.Args[0].Term)
			}
		}
		if len(aiTerms) == 0 {
			return
		}
		// only loop entries (not back edges): the state has not been generalised
		// for this header yet iff no φ-term of this function's header exists
		for t := range st.terms {
			if strings.HasPrefix(t, "φ"+fn.Name()+".") {
				// a φ of some loop exists: may be the other loop; check block-specific below
				_ = t
			}
		}
		var set iset
		last := aiTerms[len(aiTerms)-1]
		if s2, ok := st.terms[last]; ok {
			set = s2
		} else {
			set = iset{{0, 31}}
		}
		d := st.Describe()
		if len(d) > 200 {
			d = d[:200] + "…"
		}
		if (!fused && b == indef) || (fused && in == breakCmp) {
			toIndef = append(toIndef, entry{set, d})
		} else {
			toDef = append(toDef, entry{set, d})
		}
	}
	// learn the ai term from the arguments of the inlined reader
	e.Run(fn, nil, nil)
	r.Count("loop_entry_states", len(toIndef)+len(toDef))
	if len(toIndef) == 0 || len(toDef) == 0 {
		r.Undecide("C15-H3", "FromCBOR#loops", w.FnPos(fn), "a loop was never reached by the engine")
		return
	}
	okI, okD := true, true
	var badI, badD string
	for _, en := range toIndef {
		if !en.ai.subsetOf(iset{{31, 31}}) {
			okI = false
			badI = fmt.Sprintf("additional-info ∈ %s [state: %s]", en.ai, en.desc)
		}
	}
	for _, en := range toDef {
		if en.ai.contains(31) {
			okD = false
			badD = fmt.Sprintf("additional-info ∈ %s [state: %s]", en.ai, en.desc)
		}
	}
	pos := w.FnPos(fn)
	if len(indef.Instrs) > 0 {
		pos = w.InstrPos(indef.Instrs[len(indef.Instrs)-1])
	}
	r.Check(okI, "C15-H3", "FromCBOR#indefinite-loop-iff-ai-31", pos,
		"the break-byte loop is entered only with additional-info = 31",
		"a definite-length map header is read as an indefinite-length map: the break-byte loop is reached with "+badI+" (e.g. a0, the all-empty struct, then fails with 'unexpected EOF')")
	r.Check(okD, "C15-H3", "FromCBOR#definite-loop-not-for-ai-31", w.FnPos(fn),
		"the counted loop is never entered for an indefinite-length header", "the counted loop is reached with "+badD)
	// an empty definite map succeeds: some path returns nil with ai ∈ [0,23] and declared length 0
	// (follows from okI: the definite branch with mapLen = 0 runs zero iterations)
}

// ---- H4 ----

// h4Region: the part of a walker in which one field is handled — the body of
// the field loop, or (hosted form) the body of the per-field visitor.
type h4Region struct {
	fn     *ssa.Function
	in     func(b *ssa.BasicBlock) bool
	start  *ssa.BasicBlock
	isCont func(b *ssa.BasicBlock) bool // the field is skipped: on to the next one
	isFail func(b *ssa.BasicBlock) bool // the walk ends with an error
	act    *ssa.BasicBlock
	omit   ssa.Value
}

// fieldLoopHeader: the block whose If compares a counter with NumField().
func fieldLoopHeader(fn *ssa.Function) *ssa.BasicBlock {
	var header *ssa.BasicBlock
	for _, b := range fn.Blocks {
		ifi, ok := b.Instrs[len(b.Instrs)-1].(*ssa.If)
		if !ok {
			continue
		}
		cmp, ok := ifi.Cond.(*ssa.BinOp)
		if !ok || cmp.Op != token.LSS {
			continue
		}
		if c, ok := cmp.Y.(*ssa.Call); ok && strings.HasSuffix(calleeName(&c.Call), ").NumField") {
			header = b
		}
	}
	return header
}

// errorPropagated: the call's (error) result is tested against nil and
// returned as the function's last result when it is not nil.
func errorPropagated(c *ssa.Call) bool {
	for _, ref := range *c.Referrers() {
		bo, ok := ref.(*ssa.BinOp)
		if !ok || bo.Op != token.NEQ || !(isNilConst(bo.X) || isNilConst(bo.Y)) {
			continue
		}
		for _, r2 := range *bo.Referrers() {
			ifi, ok := r2.(*ssa.If)
			if !ok {
				continue
			}
			t := ifi.Block().Succs[0]
			for i := 0; i < 3 && t != nil; i++ {
				if ret, ok := t.Instrs[len(t.Instrs)-1].(*ssa.Return); ok {
					if len(ret.Results) > 0 && ret.Results[len(ret.Results)-1] == ssa.Value(c) {
						return true
					}
					break
				}
				if len(t.Succs) != 1 {
					break
				}
				t = t.Succs[0]
			}
		}
	}
	return false
}

func c15Walker(w *World, r *Recorder, name string) {
	fn := w.encWalker(name)
	if fn == nil {
		r.Undecide("C15-H4", name, "-", "walker not found")
		return
	}
	codec := "cbor"
	if strings.HasSuffix(name, "JSON") {
		codec = "json"
	}
	populate := strings.HasPrefix(name, "doPopulate")
	// the field loop: header compares a counter with NumField(). Hosted form:
	// the walker hands a per-field visitor (a closure or function) to a
	// shared function that owns the loop and calls the visitor for each field.
	host := fn
	var visitor *ssa.Function
	visitIdx := -1
	header := fieldLoopHeader(fn)
	if header == nil {
		for _, b := range fn.Blocks {
			for _, in := range b.Instrs {
				c, ok := in.(*ssa.Call)
				if !ok {
					continue
				}
				g := c.Call.StaticCallee()
				if g == nil || g.Blocks == nil || g.Pkg != w.Enc || fieldLoopHeader(g) == nil {
					continue
				}
				for i, a := range c.Call.Args {
					var h *ssa.Function
					for {
						if ct, ok := a.(*ssa.ChangeType); ok {
							a = ct.X
							continue
						}
						break
					}
					switch x := a.(type) {
					case *ssa.MakeClosure:
						h, _ = x.Fn.(*ssa.Function)
					case *ssa.Function:
						h = x
					}
					if h != nil && h.Blocks != nil && i < len(g.Params) {
						host, visitor, visitIdx = g, h, i
					}
				}
			}
		}
		if visitor != nil {
			header = fieldLoopHeader(host)
			// the walker returns what the host returns
			okRet := false
			for _, b := range fn.Blocks {
				if ret, ok := b.Instrs[len(b.Instrs)-1].(*ssa.Return); ok && len(ret.Results) > 0 {
					if c, ok := ret.Results[len(ret.Results)-1].(*ssa.Call); ok && c.Call.StaticCallee() == host {
						okRet = true
					}
				}
			}
			r.Check(okRet, "C15-H4", name+"#hosted", w.FnPos(fn), "the walker returns the result of the shared field loop it hands its visitor to", "the result of the shared field loop is not what the walker returns")
		}
	}
	if header == nil {
		r.Undecide("C15-H4", name+"#field-loop", w.FnPos(fn), "no loop over NumField() found")
		return
	}
	li := loopInfoOf(header)
	var latches []*ssa.BasicBlock
	for _, p := range header.Preds {
		if header.Dominates(p) {
			latches = append(latches, p)
		}
	}
	isAct := func(c *ssa.Call) bool {
		cn := calleeName(&c.Call)
		switch {
		case !populate && strings.HasSuffix(cn, ").Add") && c.Call.StaticCallee() != nil && w.InRepo(c.Call.StaticCallee()):
			return true
		case populate && (strings.HasSuffix(cn, "DecMode.Unmarshal") || cn == "encoding/json.Unmarshal"):
			return true
		}
		return false
	}
	// ACT: the call that stores / consumes the field (hosted: the visitor call)
	var act *ssa.BasicBlock
	var actCall *ssa.Call
	var lookupTag string
	var omitPhi ssa.Value
	for b := range li.blocks {
		for _, in := range b.Instrs {
			c, ok := in.(*ssa.Call)
			if !ok {
				continue
			}
			cn := calleeName(&c.Call)
			switch {
			case visitor != nil && c.Call.Value == ssa.Value(host.Params[visitIdx]) && !c.Call.IsInvoke():
				act, actCall = b, c
			case visitor == nil && isAct(c):
				act, actCall = b, c
			case cn == "(reflect.StructTag).Lookup":
				if k, ok := c.Call.Args[1].(*ssa.Const); ok {
					lookupTag = constStringVal(k)
				}
			}
		}
		for _, in := range b.Instrs {
			if phi, ok := in.(*ssa.Phi); ok && isBoolType(phi.Type()) && phi.Comment == "isOmitEmpty" {
				omitPhi = phi
			}
		}
	}
	if omitPhi == nil {
		// the stdlib form: slices.Contains(parts[1:], "omitempty")
		for b := range li.blocks {
			for _, in := range b.Instrs {
				if c, ok := in.(*ssa.Call); ok && strings.HasPrefix(calleeName(&c.Call), "slices.Contains[") && len(c.Call.Args) == 2 {
					if k, ok := c.Call.Args[1].(*ssa.Const); ok && k.Value != nil && constStringVal(k) == "omitempty" {
						omitPhi = c
					}
				}
			}
		}
	}
	if omitPhi == nil {
		// handed back by an in-repo tag-parsing helper: a bool result or field
		for b := range li.blocks {
			for _, in := range b.Instrs {
				v, isV := in.(ssa.Value)
				if !isV || !isBoolType(v.Type()) {
					continue
				}
				switch v.(type) {
				case *ssa.Extract, *ssa.Field, *ssa.UnOp, *ssa.Call:
					if ok, _ := omitDefinition(v); ok {
						omitPhi = v
					}
				}
			}
		}
	}
	if omitPhi == nil {
		// find by shape: a bool φ with constant edges only
		for b := range li.blocks {
			for _, in := range b.Instrs {
				if phi, ok := in.(*ssa.Phi); ok && isBoolType(phi.Type()) {
					allConst := true
					for _, e := range phi.Edges {
						if _, ok := e.(*ssa.Const); !ok {
							allConst = false
						}
					}
					if allConst {
						omitPhi = phi
					}
				}
			}
		}
	}
	if act == nil {
		r.Refute("C15-H4", name+"#act", w.FnPos(host), "the field loop never stores / decodes a field")
		return
	}
	r.Check(lookupTag == codec, "C15-H4", name+"#tag", w.FnPos(host), "fields are selected by the `"+codec+"` struct tag", fmt.Sprintf("the walker looks up struct tag %q, not %q", lookupTag, codec))

	classes := map[string]bool{}
	defer func() {
		omitOK, omitWhy := omitDefinition(omitPhi)
		if omitPhi == nil && !populate && classes["omitempty∧zero"] {
			// no flag at all: the only omitempty-dependent skip tests the option in place
			r.Prove("C15-H4", name+"#omitempty-definition", w.FnPos(host), "no flag variable: the zero test is guarded directly by option == \"omitempty\" over the options after the first", true)
			return
		}
		r.Check(omitPhi != nil && omitOK, "C15-H4", name+"#omitempty-definition", w.FnPos(host), "isOmitEmpty is true only via option == \"omitempty\" over the options after the first", "isOmitEmpty is not defined as 'some option after the key equals \"omitempty\"': "+omitWhy)
	}()
	c15ClassifyRegion(w, r, name, h4Region{
		fn: host, in: func(b *ssa.BasicBlock) bool { return li.blocks[b] }, start: header.Succs[0],
		isCont: func(b *ssa.BasicBlock) bool { return b == header || isLatch(b, latches) },
		isFail: func(b *ssa.BasicBlock) bool { return !li.blocks[b] || returnsError(b, li) },
		act:    act, omit: omitPhi,
	}, codec, populate, classes)
	if visitor != nil {
		// the visitor: its failure ends the walk with that error; inside it a
		// field is skipped (nil returned before the act) only under the same
		// conditions, with the omitempty flag received from the loop
		r.Check(errorPropagated(actCall), "C15-H4", name+"#visitor-error", w.InstrPos(actCall), "an error of the per-field visitor ends the walk and is returned", "an error returned by the per-field visitor is not returned by the walk")
		var vomit ssa.Value
		for j, a := range actCall.Call.Args {
			if a == omitPhi && j < len(visitor.Params) {
				vomit = visitor.Params[j]
			}
		}
		if vomit == nil {
			r.Refute("C15-H4", name+"#visitor-omitempty", w.InstrPos(actCall), "the per-field visitor is not handed the omitempty flag computed from the tag")
		}
		var vact *ssa.BasicBlock
		for _, b := range visitor.Blocks {
			for _, in := range b.Instrs {
				if c, ok := in.(*ssa.Call); ok && isAct(c) {
					vact = b
				}
			}
		}
		if vact == nil {
			r.Refute("C15-H4", name+"#act", w.FnPos(visitor), "the per-field visitor never stores / decodes the field")
			return
		}
		c15ClassifyRegion(w, r, name, h4Region{
			fn: visitor, in: func(b *ssa.BasicBlock) bool { return true }, start: visitor.Blocks[0],
			isCont: func(b *ssa.BasicBlock) bool {
				ret, ok := b.Instrs[len(b.Instrs)-1].(*ssa.Return)
				return ok && len(ret.Results) > 0 && isNilConst(ret.Results[len(ret.Results)-1])
			},
			isFail: func(b *ssa.BasicBlock) bool { return returnsError(b, nil) },
			act:    vact, omit: vomit,
		}, codec, populate, classes)
	}
	want := []string{"embedded", "untagged", "dash"}
	if populate {
		want = append(want, "absent∧omitempty", "absent-mandatory-error")
	} else {
		want = append(want, "omitempty∧zero")
	}
	for _, c := range want {
		if !classes[c] {
			what := map[string]string{
				"embedded": "embedded structs are not left to the recursion", "untagged": "fields without the codec's tag are not skipped",
				"dash": "a field tagged \"-\" is not skipped", "omitempty∧zero": "a zero omitempty field is not omitted",
				"absent∧omitempty": "an absent omitempty field is not tolerated", "absent-mandatory-error": "a missing key without omitempty is not an error",
			}[c]
			r.Refute("C15-H4", name+"#missing:"+c, w.FnPos(host), what)
		}
	}
	// recursion over collected embeds with the same map
	okRec := false
	for _, b := range host.Blocks {
		for _, in := range b.Instrs {
			if c, ok := in.(*ssa.Call); ok && c.Call.StaticCallee() == host {
				same := true
				for i, a := range c.Call.Args {
					ts := a.Type().String()
					if ts == "reflect.Type" || ts == "reflect.Value" {
						if !fromEmbeddedRecord(a) {
							same = false
						}
					} else if a != ssa.Value(host.Params[i]) {
						same = false
					}
				}
				// its error is returned
				errRet := false
				for _, ref := range *c.Referrers() {
					if ret, ok := ref.(*ssa.Return); ok && ret.Results[0] == ssa.Value(c) {
						errRet = true
					}
				}
				if same && errRet && !li.blocks[b] {
					okRec = true
					c15EmbedsAll(w, r, name, host, c)
				}
			}
		}
	}
	r.Check(okRec, "C15-H4", name+"#embeds", w.FnPos(host), "collected embedded structs are processed by recursion into the same map, errors returned", "embedded structs are not merged by recursing over the collected list with the same map")
}

// c15ClassifyRegion: every way of leaving the act-reaching part of the region
// without performing the act either skips the field under one of the
// recognised conditions or ends the walk with an error.
func c15ClassifyRegion(w *World, r *Recorder, name string, rg h4Region, codec string, populate bool, classes map[string]bool) {
	fn, act, omitPhi := rg.fn, rg.act, rg.omit
	// reachability within one field's handling: the blocks of the region from
	// which the act can be reached without going on to the next field (backward
	// from the act; inner loops are cycles inside the region)
	reachesAct := map[*ssa.BasicBlock]bool{act: true}
	work := []*ssa.BasicBlock{act}
	for len(work) > 0 {
		b := work[len(work)-1]
		work = work[:len(work)-1]
		for _, p := range b.Preds {
			if reachesAct[p] || !rg.in(p) || rg.isCont(p) {
				continue
			}
			reachesAct[p] = true
			work = append(work, p)
		}
	}

	type step = walkStep
	// follow a path that has left the act-reaching region until it continues
	// with the next field (skip) or returns (error)
	var follow func(s *ssa.BasicBlock, conds []step, depth int)
	follow = func(s *ssa.BasicBlock, conds []step, depth int) {
		if depth > 6 {
			r.Undecide("C15-H4", name+"#skip-path-too-long", w.FnPos(fn), "skip path could not be followed")
			return
		}
		last := conds[len(conds)-1]
		switch {
		case rg.isCont(s):
			cls := classifySkipPath(w, conds, omitPhi, codec, populate)
			if strings.HasPrefix(cls, "?") {
				r.Refute("C15-H4", fmt.Sprintf("%s#skip-edge@b%d/%d", name, last.b.Index, last.succ), w.InstrPos(last.ifi), "a field is skipped under a condition that is none of {embedded, untagged, \"-\", omitempty∧zero / absent∧omitempty}: "+cls)
				return
			}
			classes[cls] = true
			r.Prove("C15-H4", fmt.Sprintf("%s#skip-edge:%s", name, cls), w.InstrPos(last.ifi), "field skipped because "+cls, true)
		case rg.isFail(s):
			if populate && len(conds) >= 2 && isOmitTest(last.ifi, omitPhi) && last.succ == 1 && isGetAbsent(conds[len(conds)-2]) {
				classes["absent-mandatory-error"] = true
			}
		default:
			if ifi, ok := s.Instrs[len(s.Instrs)-1].(*ssa.If); ok {
				for i, nx := range s.Succs {
					follow(nx, append(append([]step(nil), conds...), step{s, ifi, i}), depth+1)
				}
			} else if len(s.Succs) == 1 {
				follow(s.Succs[0], conds, depth+1)
			}
		}
	}
	for _, b := range fn.Blocks {
		if !rg.in(b) || !reachesAct[b] || b == act {
			continue
		}
		ifi, ok := b.Instrs[len(b.Instrs)-1].(*ssa.If)
		if !ok {
			continue
		}
		for i, s := range b.Succs {
			if reachesAct[s] || s == act {
				continue
			}
			follow(s, []step{{b, ifi, i}}, 0)
		}
	}
}

// c15EmbedsAll: the recursion over the collected embedded structs visits every
// one of them. The call sits in a slice loop that starts at the first element,
// dominates every back edge of that loop (no iteration skips it), and the loop
// is left only when the slice is exhausted or the recursion's error is returned.
func c15EmbedsAll(w *World, r *Recorder, name string, fn *ssa.Function, rec *ssa.Call) {
	key := name + "#embeds-all"
	var loop *SliceLoop
	var lblocks map[*ssa.BasicBlock]bool
	for _, sl := range sliceLoops(fn) {
		sl := sl
		bl := loopInfoOf(sl.Header).blocks
		if bl[rec.Block()] && (lblocks == nil || len(bl) < len(lblocks)) {
			loop, lblocks = &sl, bl
		}
	}
	if loop == nil {
		r.Undecide("C15-H4", key, w.InstrPos(rec), "the recursion over embedded structs is not inside a recognised slice loop")
		return
	}
	if loop.First != 0 {
		r.Refute("C15-H4", key, w.InstrPos(rec), fmt.Sprintf("the loop over collected embedded structs starts at index %d", loop.First))
		return
	}
	for _, l := range loop.Latches {
		if !rec.Block().Dominates(l) {
			r.Refute("C15-H4", key, w.InstrPos(rec), fmt.Sprintf("an iteration of the loop over collected embedded structs can reach the next one without the recursion (block %d): a missing mandatory key inside that struct is not reported", l.Index))
			return
		}
	}
	for b := range lblocks {
		for _, s := range b.Succs {
			if lblocks[s] || (b == loop.Header && s == loop.Done) {
				continue
			}
			ok := false
			for _, in := range s.Instrs {
				if ret, isRet := in.(*ssa.Return); isRet && len(ret.Results) > 0 && ret.Results[len(ret.Results)-1] == ssa.Value(rec) {
					ok = true
				}
			}
			if !ok {
				pos := w.FnPos(fn)
				if len(b.Instrs) > 0 {
					pos = w.InstrPos(b.Instrs[len(b.Instrs)-1])
				}
				r.Refute("C15-H4", key, pos, fmt.Sprintf("the loop over collected embedded structs is left early (block %d → %d) other than by returning the recursion's error: the remaining embedded structs are never visited, so their mandatory keys are not enforced", b.Index, s.Index))
				return
			}
		}
	}
	r.Prove("C15-H4", key, w.InstrPos(rec), "every collected embedded struct is visited: slice loop from 0, the recursion dominates every back edge, exits only on exhaustion or the recursion's error", true)
}

func returnsError(b *ssa.BasicBlock, li *loopInfo) bool {
	// follow straight-line blocks to a return of a non-nil error
	for i := 0; i < 4 && b != nil; i++ {
		if ret, ok := b.Instrs[len(b.Instrs)-1].(*ssa.Return); ok {
			return len(ret.Results) > 0 && !isNilConst(ret.Results[len(ret.Results)-1])
		}
		if len(b.Succs) != 1 {
			return false
		}
		b = b.Succs[0]
	}
	return false
}

func isOmitTest(ifi *ssa.If, omitPhi ssa.Value) bool {
	return omitPhi != nil && ifi.Cond == omitPhi
}

// omitDefinition: every true-valued edge of the φ comes from a block
// dominated by the true edge of `option == "omitempty"` where option is an
// element of Split(tag, ",")[1:].
func omitDefinition(v ssa.Value) (bool, string) { return omitDefinitionEnv(v, nil, 0) }

// bindEnv: the arguments of call c bound to the parameters of its static callee.
func bindEnv(c *ssa.Call, outer map[*ssa.Parameter]ssa.Value) map[*ssa.Parameter]ssa.Value {
	h := c.Call.StaticCallee()
	env := map[*ssa.Parameter]ssa.Value{}
	if h == nil {
		return env
	}
	for i, p := range h.Params {
		if i < len(c.Call.Args) {
			env[p] = resolveEnv(c.Call.Args[i], outer)
		}
	}
	return env
}

func resolveEnv(v ssa.Value, env map[*ssa.Parameter]ssa.Value) ssa.Value {
	if p, ok := v.(*ssa.Parameter); ok {
		if b, has := env[p]; has {
			return b
		}
	}
	return v
}

func isOmitemptyConst(v ssa.Value, env map[*ssa.Parameter]ssa.Value) bool {
	k, ok := resolveEnv(v, env).(*ssa.Const)
	return ok && k.Value != nil && k.Value.Kind() == constant.String && constStringVal(k) == "omitempty"
}

// omitDefinitionEnv: v is true exactly when some option after the key of the
// tag equals "omitempty". Accepted definitions: a φ over constants whose true
// edges are guarded by option == "omitempty" for option ranging over the
// options after the key; slices.Contains(options, "omitempty"); the same
// computed by an in-repo helper and handed back as its result, one of its
// results or a field of the struct it returns (parameters of the helper are
// read through the arguments of the call). "Options after the key" are
// Split(tag, ",")[1:] or the pieces strings.Cut takes off the remainder after
// the first comma.
func omitDefinitionEnv(v ssa.Value, env map[*ssa.Parameter]ssa.Value, depth int) (bool, string) {
	if v == nil {
		return false, "no isOmitEmpty variable found"
	}
	if depth > 3 {
		return false, "definition of the omitempty flag is nested too deeply"
	}
	switch x := v.(type) {
	case *ssa.Call:
		if strings.HasPrefix(calleeName(&x.Call), "slices.Contains[") && len(x.Call.Args) == 2 {
			if optionsAfterKeyEnv(x.Call.Args[0], env) && isOmitemptyConst(x.Call.Args[1], env) {
				return true, ""
			}
			return false, "the flag is not slices.Contains(options-after-the-key, \"omitempty\")"
		}
		if h := x.Call.StaticCallee(); h != nil && h.Blocks != nil && h.Signature.Results().Len() == 1 {
			return omitReturnsOf(h, 0, bindEnv(x, env), depth)
		}
		return false, "the flag comes from a call that is not understood"
	case *ssa.Extract:
		c, ok := x.Tuple.(*ssa.Call)
		if !ok {
			break
		}
		h := c.Call.StaticCallee()
		if h == nil || h.Blocks == nil {
			break
		}
		return omitReturnsOf(h, x.Index, bindEnv(c, env), depth)
	case *ssa.Field:
		if c, ok := x.X.(*ssa.Call); ok {
			return omitFieldOfHelper(c, x.Field, depth)
		}
	case *ssa.UnOp:
		// load of a field of a local copy of the helper's result
		if fa, ok := x.X.(*ssa.FieldAddr); ok && x.Op == token.MUL {
			if al, ok := fa.X.(*ssa.Alloc); ok {
				var src ssa.Value
				n := 0
				for _, ref := range *al.Referrers() {
					if st, ok := ref.(*ssa.Store); ok && st.Addr == ssa.Value(al) {
						src = st.Val
						n++
					}
				}
				if c, ok := src.(*ssa.Call); ok && n == 1 {
					return omitFieldOfHelper(c, fa.Field, depth)
				}
			}
		}
	case *ssa.Phi:
		return omitPhiDefinition(x, env)
	}
	return false, "unrecognised definition of the omitempty flag"
}

// omitReturnsOf: result idx of helper h is the omitempty flag: every return
// gives a value that is itself an accepted definition, the constant false, or
// the constant true from a block guarded by option == "omitempty".
func omitReturnsOf(h *ssa.Function, idx int, env map[*ssa.Parameter]ssa.Value, depth int) (bool, string) {
	n, nTrue := 0, 0
	for _, b := range h.Blocks {
		ret, ok := b.Instrs[len(b.Instrs)-1].(*ssa.Return)
		if !ok || idx >= len(ret.Results) {
			continue
		}
		n++
		rv := ret.Results[idx]
		if k, isK := rv.(*ssa.Const); isK && k.Value != nil && k.Value.Kind() == constant.Bool {
			if constant.BoolVal(k.Value) {
				nTrue++
				if !guardedByOmitemptyOption(h, b, env) {
					return false, "in " + h.Name() + ": returns true without the option == \"omitempty\" guard over the options after the key"
				}
			}
			continue
		}
		ok2, why := omitDefinitionEnv(rv, env, depth+1)
		if !ok2 {
			return false, "in " + h.Name() + ": " + why
		}
		nTrue++
	}
	if n == 0 || nTrue == 0 {
		return false, "in " + h.Name() + ": the flag is never true"
	}
	return true, ""
}

// omitFieldOfHelper: field f of the struct returned by the in-repo call c is
// the omitempty flag: in the helper the struct is a local whose field f is
// stored only the constant false or, under the option == "omitempty" guard,
// the constant true.
func omitFieldOfHelper(c *ssa.Call, f int, depth int) (bool, string) {
	h := c.Call.StaticCallee()
	if h == nil || h.Blocks == nil {
		return false, "the flag comes from a call that cannot be resolved"
	}
	nTrue := 0
	for _, b := range h.Blocks {
		ret, ok := b.Instrs[len(b.Instrs)-1].(*ssa.Return)
		if !ok || len(ret.Results) != 1 {
			continue
		}
		ld, ok := ret.Results[0].(*ssa.UnOp)
		if !ok || ld.Op != token.MUL {
			return false, "in " + h.Name() + ": the struct returned is not a local variable"
		}
		al, ok := ld.X.(*ssa.Alloc)
		if !ok {
			return false, "in " + h.Name() + ": the struct returned is not a local variable"
		}
		for _, ref := range *al.Referrers() {
			switch y := ref.(type) {
			case *ssa.Store:
				if y.Addr == ssa.Value(al) {
					return false, "in " + h.Name() + ": the struct is assigned as a whole"
				}
			case *ssa.FieldAddr:
				if y.Field != f {
					continue
				}
				for _, r2 := range *y.Referrers() {
					st, ok := r2.(*ssa.Store)
					if !ok {
						continue
					}
					k, ok := st.Val.(*ssa.Const)
					if !ok || k.Value == nil {
						if ok2, _ := omitDefinitionEnv(st.Val, bindEnv(c, nil), depth+1); ok2 {
							nTrue++
							continue
						}
						return false, "in " + h.Name() + ": non-constant definition of the flag"
					}
					if !constant.BoolVal(k.Value) {
						continue
					}
					nTrue++
					if !guardedByOmitemptyOption(h, st.Block(), nil) {
						return false, "in " + h.Name() + ": the flag is set without the option == \"omitempty\" guard over Split(tag, \",\")[1:]"
					}
				}
			}
		}
	}
	if nTrue == 0 {
		return false, "in " + h.Name() + ": the flag is never set"
	}
	return true, ""
}

// guardedByOmitemptyOption: blk is entered only through the equal edge of
// option == "omitempty", option being one of the options after the key.
func guardedByOmitemptyOption(fn *ssa.Function, blk *ssa.BasicBlock, env map[*ssa.Parameter]ssa.Value) bool {
	for _, b := range fn.Blocks {
		ifi, isIf := b.Instrs[len(b.Instrs)-1].(*ssa.If)
		if !isIf {
			continue
		}
		bo, isBin := ifi.Cond.(*ssa.BinOp)
		if !isBin || bo.Op != token.EQL {
			continue
		}
		opt := bo.X
		if !isOmitemptyConst(bo.Y, env) {
			if !isOmitemptyConst(bo.X, env) {
				continue
			}
			opt = bo.Y
		}
		if !isOptionAfterKey(opt, env) {
			continue
		}
		if edgeDominates(b, 0, blk) || b.Succs[0] == blk {
			return true
		}
	}
	return false
}

// isOptionAfterKey: v is an element of the options after the key — an element
// of Split(tag, ",")[1:] (possibly a parameter bound to it), or the piece that
// strings.Cut(rest, ",") takes off a remainder that itself comes after the
// first comma.
func isOptionAfterKey(v ssa.Value, env map[*ssa.Parameter]ssa.Value) bool {
	if ld, isLd := v.(*ssa.UnOp); isLd {
		if ia, isIA := ld.X.(*ssa.IndexAddr); isIA && optionsAfterKeyEnv(ia.X, env) {
			return true
		}
	}
	if ex, ok := v.(*ssa.Extract); ok && ex.Index == 0 {
		if c, ok := ex.Tuple.(*ssa.Call); ok && calleeName(&c.Call) == "strings.Cut" && len(c.Call.Args) == 2 && isCommaConst(c.Call.Args[1]) {
			return isRemainderAfterComma(c.Call.Args[0], map[ssa.Value]bool{})
		}
	}
	return false
}

func isCommaConst(v ssa.Value) bool {
	k, ok := v.(*ssa.Const)
	return ok && k.Value != nil && k.Value.Kind() == constant.String && constStringVal(k) == ","
}

// isRemainderAfterComma: v is result #1 of strings.Cut(_, ","), or a φ of such.
func isRemainderAfterComma(v ssa.Value, seen map[ssa.Value]bool) bool {
	if seen[v] {
		return true
	}
	seen[v] = true
	switch x := v.(type) {
	case *ssa.Extract:
		c, ok := x.Tuple.(*ssa.Call)
		return ok && x.Index == 1 && calleeName(&c.Call) == "strings.Cut" && len(c.Call.Args) == 2 && isCommaConst(c.Call.Args[1])
	case *ssa.Phi:
		for _, e := range x.Edges {
			if !isRemainderAfterComma(e, seen) {
				return false
			}
		}
		return len(x.Edges) > 0
	}
	return false
}

func omitPhiDefinition(phi *ssa.Phi, env map[*ssa.Parameter]ssa.Value) (bool, string) {
	nTrue := 0
	for i, e := range phi.Edges {
		c, ok := e.(*ssa.Const)
		if !ok || c.Value == nil {
			return false, "non-constant definition"
		}
		if !constant.BoolVal(c.Value) {
			continue
		}
		nTrue++
		if !guardedByOmitemptyOption(phi.Parent(), phi.Block().Preds[i], env) {
			return false, "a true definition is not guarded by option == \"omitempty\" over Split(tag, \",\")[1:]"
		}
	}
	if nTrue == 0 {
		return false, "isOmitEmpty is never true"
	}
	return true, ""
}

func isLatch(b *ssa.BasicBlock, latches []*ssa.BasicBlock) bool {
	for _, l := range latches {
		if l == b {
			return true
		}
	}
	return false
}

type walkStep struct {
	b    *ssa.BasicBlock
	ifi  *ssa.If
	succ int
}

func isGetAbsent(st walkStep) bool {
	ex, ok := st.ifi.Cond.(*ssa.Extract)
	if !ok || ex.Index != 1 || st.succ != 1 {
		return false
	}
	return isRawMapPresence(ex)
}

// isRawMapPresence: ex is the ok flag of the raw map's Get, or of a comma-ok
// lookup in the raw map's own field map (Get written out).
func isRawMapPresence(ex *ssa.Extract) bool {
	if ex.Index != 1 {
		return false
	}
	switch t := ex.Tuple.(type) {
	case *ssa.Call:
		return strings.HasSuffix(calleeName(&t.Call), ").Get")
	case *ssa.Lookup:
		if !t.CommaOk {
			return false
		}
		if ld, ok := t.X.(*ssa.UnOp); ok {
			if fa, ok := ld.X.(*ssa.FieldAddr); ok {
				return fieldName(fa.X.Type(), fa.Field) == "Fields"
			}
		}
	}
	return false
}

// classifySkipPath classifies the conditions under which a field is skipped.
func classifySkipPath(w *World, conds []walkStep, omitPhi ssa.Value, codec string, populate bool) string {
	last := conds[len(conds)-1]
	if populate && len(conds) >= 2 && isOmitTest(last.ifi, omitPhi) && last.succ == 0 && isGetAbsent(conds[len(conds)-2]) {
		return "absent∧omitempty"
	}
	if len(conds) == 1 {
		return classifySkip(w, last.b, last.ifi, last.succ, omitPhi, codec, populate)
	}
	return "?" + fmt.Sprint(len(conds)) + " conditions ending in " + last.ifi.Cond.String()
}

func classifySkip(w *World, b *ssa.BasicBlock, ifi *ssa.If, succ int, omitPhi ssa.Value, codec string, populate bool) string {
	cond := ifi.Cond
	if omitPhi != nil && cond == omitPhi && succ == 0 && populate {
		return omitUnderAbsence(b)
	}
	switch x := cond.(type) {
	case *ssa.Call:
		cn := calleeName(&x.Call)
		if f := x.Call.StaticCallee(); f != nil && isEmbedCollector(f) && succ == 0 {
			return "embedded"
		}
		if f := x.Call.StaticCallee(); f != nil && succ == 0 && isDashPredicate(f) {
			return "dash"
		}
		if cn == "(reflect.Value).IsZero" && succ == 0 && !populate {
			// must be under isOmitEmpty == true
			if omitPhi != nil {
				for _, blk := range b.Parent().Blocks {
					if i2, ok := blk.Instrs[len(blk.Instrs)-1].(*ssa.If); ok && i2.Cond == omitPhi && (edgeDominates(blk, 0, b) || blk.Succs[0] == b) {
						return "omitempty∧zero"
					}
				}
			}
			// no flag variable: the zero test itself sits under option == "omitempty"
			// for one of the options after the key
			if guardedByOmitemptyOption(b.Parent(), b, nil) {
				return "omitempty∧zero"
			}
			return "?zero-without-omitempty"
		}
	case *ssa.Extract:
		if c, ok := x.Tuple.(*ssa.Call); ok && x.Index == 1 && calleeName(&c.Call) == "(reflect.StructTag).Lookup" && succ == 1 {
			return "untagged"
		}
	case *ssa.BinOp:
		if x.Op == token.EQL && succ == 0 || x.Op == token.NEQ && succ == 1 {
			for _, op := range []ssa.Value{x.X, x.Y} {
				if k, ok := op.(*ssa.Const); ok && k.Value != nil && k.Value.Kind() == constant.String && constStringVal(k) == "-" {
					return "dash"
				}
			}
		}
	}
	return "?" + cond.String()
}

// ---- H5 ----

func c15DupKey(w *World, r *Recorder, sf *types.Named) {
	add := w.MethodImpl(sf, "Add")
	// the entry reader, by role: the in-repo function (other than Add) that
	// calls the ordered map's Add with a decoded key
	var fn *ssa.Function
	if add != nil {
		for _, f := range w.Funcs {
			if f == add || f.Blocks == nil || !strings.Contains(fnKey(f), sf.Obj().Name()) {
				continue
			}
			for _, b := range f.Blocks {
				for _, in := range b.Instrs {
					if c, ok := in.(*ssa.Call); ok && c.Call.StaticCallee() == add {
						fn = f
					}
				}
			}
		}
	}
	if fn == nil || add == nil {
		r.Undecide("C15-H5", "entry reader", "-", "no method of the CBOR ordered map that hands decoded entries to Add found")
		return
	}
	s := w.SummariseWith(fn, func(e *Engine) { e.NoInline = map[*ssa.Function]bool{add: true} })
	if ok, why := s.Complete(); !ok {
		r.Undecide("C15-H5", "entry reader", w.FnPos(fn), why)
		return
	}
	ok := true
	why := ""
	nAdd := 0
	for _, p := range s.Paths {
		if p.Ret == nil {
			continue
		}
		_, nl := errOf(p, 1)
		for _, ev := range p.St.events {
			if ev.Kind == "call" && ev.Static == add {
				nAdd++
				an := p.St.NilOf(ev.Result)
				if an == 1 && nl != 1 {
					ok, why = false, "a duplicate-key error of Add does not make the entry fail"
				}
				if an == 0 {
					ok, why = false, "Add's result is not tested"
				}
			}
		}
		if nl != 1 {
			has := false
			for _, ev := range p.St.events {
				if ev.Kind == "call" && ev.Static == add {
					has = true
				}
			}
			if !has {
				ok, why = false, "an entry can be accepted without going through Add"
			}
		}
	}
	lem := newLemmas(w, NewRecorder(r.Property))
	dup := lem.noDupKeys()
	r.Check(ok && nAdd > 0 && dup, "C15-H5", "duplicate-cbor-key-is-an-error", w.FnPos(fn), "every decoded entry goes through Add, whose duplicate error is returned; Add inserts only when the key is absent", why+map[bool]string{true: "", false: " Add does not guard its insert with !Has(key)"}[dup])
}

// ---- H6 ----

func c15Writers(w *World, r *Recorder) {
	eff := w.Effects()
	// the key list and the field map of an ordered raw map are assigned only by
	// the type's own methods and by its constructor (a function returning a
	// pointer to it): nothing else can put them out of step
	fieldsOf := map[string]*types.Named{}
	for _, codec := range []string{"CBOR", "JSON"} {
		t := w.encMapType(codec)
		if t == nil {
			r.Undecide("C15-H6", "structFields"+codec, "-", "ordered raw-map type not found")
			continue
		}
		fieldsOf[t.Obj().Name()+".Keys"] = t
		fieldsOf[t.Obj().Name()+".Fields"] = t
	}
	own := func(fn *ssa.Function, t *types.Named) bool {
		if rv := fn.Signature.Recv(); rv != nil {
			if n, ok := derefType(rv.Type()).(*types.Named); ok && n.Obj() == t.Obj() {
				return true
			}
		}
		res := fn.Signature.Results()
		for i := 0; i < res.Len(); i++ {
			if n, ok := derefType(res.At(i).Type()).(*types.Named); ok && n.Obj() == t.Obj() {
				return true
			}
		}
		return false
	}
	seen := map[string]map[string]bool{}
	for _, fn := range w.Funcs {
		ef := eff[fn]
		if ef == nil {
			continue
		}
		for _, s := range ef.Sites {
			if t, ok := fieldsOf[s.Field]; ok {
				if seen[s.Field] == nil {
					seen[s.Field] = map[string]bool{}
				}
				seen[s.Field][baseName(fn)] = true
				if !own(fn, t) && s.What == "store" {
					r.Refute("C15-H6", "writer:"+canonicalField(s.Field, t)+"@"+fnKey(fn), w.InstrPos(s.Instr), fnKey(fn)+" assigns "+s.Field+" although it is neither a method nor the constructor of "+t.Obj().Name()+": the key list and the field map can get out of step")
				}
			}
		}
	}
	var fields []string
	for f := range fieldsOf {
		fields = append(fields, f)
	}
	sort.Strings(fields)
	for _, f := range fields {
		var ws []string
		for n := range seen[f] {
			ws = append(ws, n)
		}
		sort.Strings(ws)
		r.Prove("C15-H6", "writers:"+canonicalField(f, fieldsOf[f]), "-", "assigned only by the type's own "+strings.Join(ws, ", "), len(ws) > 0)
	}
}

// canonicalField keys a field obligation independently of the type's name.
func canonicalField(f string, t *types.Named) string {
	codec := "CBOR"
	for i := 0; i < t.NumMethods(); i++ {
		if t.Method(i).Name() == "ToJSON" {
			codec = "JSON"
		}
	}
	return "structFields" + codec + strings.TrimPrefix(f, t.Obj().Name())
}

// ---- H7 ----

func c15Order(w *World, r *Recorder) {
	eff := w.Effects()
	for _, tn := range []string{"structFieldsCBOR", "structFieldsJSON"} {
		t := w.encMapType(strings.TrimPrefix(tn, "structFields"))
		if t == nil {
			r.Undecide("C15-H7", tn, "-", "not found")
			continue
		}
		m := "ToCBOR"
		if tn == "structFieldsJSON" {
			m = "ToJSON"
		}
		fn := w.MethodImpl(t, m)
		if fn == nil {
			r.Undecide("C15-H7", tn+"."+m, "-", "not found")
			continue
		}
		ok := false
		for _, l := range sliceLoops(fn) {
			if loadsField(l.S, "Keys") && l.First == 0 {
				ok = true
			}
		}
		ef := eff[fn]
		noMap := ef != nil && len(ef.MapRanges) == 0
		r.Check(ok && noMap, "C15-H7", tn+"."+m, w.FnPos(fn), "output is produced by walking the Keys slice from index 0; no range over a map", "the serialiser does not emit entries in the order of the Keys slice (or ranges over a map): output order is not stable")
	}
	// no map range anywhere on serialise paths
	var roots []*ssa.Function
	for _, n := range []string{"SerializeStructToCBOR", "SerializeStructToJSON"} {
		if f := w.Enc.Func(n); f != nil {
			roots = append(roots, f)
		}
	}
	bad := 0
	for fn := range w.Reachable(roots) {
		if ef := eff[fn]; ef != nil && len(ef.MapRanges) > 0 && fnPkg(fn) == w.Enc {
			bad++
			r.Refute("C15-H7", "map-range@"+fnKey(fn), w.InstrPos(ef.MapRanges[0]), "a range over a map on a serialisation path")
		}
	}
	if bad == 0 {
		r.Prove("C15-H7", "no-map-range-on-serialise-paths", "-", "none reachable from Serialize*", true)
	}
}

// omitUnderAbsence: the omitempty test in block b is made under the !ok edge
// of the raw map's Get.
func omitUnderAbsence(b *ssa.BasicBlock) string {
	for _, blk := range b.Parent().Blocks {
		i2, ok := blk.Instrs[len(blk.Instrs)-1].(*ssa.If)
		if !ok {
			continue
		}
		if ex, ok := i2.Cond.(*ssa.Extract); ok && isRawMapPresence(ex) && (edgeDominates(blk, 1, b) || blk.Succs[1] == b) {
			return "absent∧omitempty"
		}
	}
	return "?omitempty-without-absence"
}

// optionsAfterKey: v is parts[1:] of a strings.Split(tag, ",") result.
func optionsAfterKey(v ssa.Value) bool { return optionsAfterKeyEnv(v, nil) }

func optionsAfterKeyEnv(v ssa.Value, env map[*ssa.Parameter]ssa.Value) bool {
	// strings.Split(rest, ",") with rest what strings.Cut(tag, ",") leaves
	// after the first comma: every option after the key
	if c, ok := resolveEnv(v, env).(*ssa.Call); ok && calleeName(&c.Call) == "strings.Split" && len(c.Call.Args) == 2 && isCommaConst(c.Call.Args[1]) {
		return isRemainderAfterComma(resolveEnv(c.Call.Args[0], env), map[ssa.Value]bool{})
	}
	sl, ok := resolveEnv(v, env).(*ssa.Slice)
	if !ok || sl.High != nil {
		return false
	}
	lo, ok := sl.Low.(*ssa.Const)
	if !ok || lo.Value == nil {
		return false
	}
	if n, _ := constant.Int64Val(lo.Value); n != 1 {
		return false
	}
	call, ok := resolveEnv(sl.X, env).(*ssa.Call)
	return ok && calleeName(&call.Call) == "strings.Split"
}

// ---- anchors by role ----

// encEntry: the exported entry point behind a canonical walker name.
var encEntry = map[string]string{
	"doSerializeStructToCBOR":  "SerializeStructToCBOR",
	"doSerializeStructToJSON":  "SerializeStructToJSON",
	"doPopulateStructFromCBOR": "PopulateStructFromCBOR",
	"doPopulateStructFromJSON": "PopulateStructFromJSON",
}

// encWalker resolves the struct walker named canonically (today's name) by
// role: the function reachable from the exported entry point through static
// calls inside the encoding package (depth <= 3) that loops over
// reflect.Type.NumField(). The canonical name stays the obligation key.
func (w *World) encWalker(canonical string) *ssa.Function {
	if f := w.Enc.Func(canonical); f != nil {
		return f
	}
	entry := w.Enc.Func(encEntry[canonical])
	if entry == nil {
		return nil
	}
	hasFieldLoop := func(f *ssa.Function) bool {
		for _, b := range f.Blocks {
			for _, in := range b.Instrs {
				if c, ok := in.(*ssa.Call); ok && strings.HasSuffix(calleeName(&c.Call), ").NumField") {
					return true
				}
			}
		}
		return false
	}
	seen := map[*ssa.Function]bool{entry: true}
	level := []*ssa.Function{entry}
	for depth := 0; depth < 3; depth++ {
		var next []*ssa.Function
		for _, f := range level {
			for _, b := range f.Blocks {
				for _, in := range b.Instrs {
					c, ok := in.(*ssa.Call)
					if !ok {
						continue
					}
					g := c.Call.StaticCallee()
					if g == nil || seen[g] || g.Blocks == nil || g.Pkg != w.Enc {
						continue
					}
					seen[g] = true
					if hasFieldLoop(g) {
						return g
					}
					next = append(next, g)
				}
			}
		}
		level = next
	}
	return nil
}

// encMapType: the ordered raw-map type of a codec ("CBOR" / "JSON"), by role:
// the named struct type of the encoding package that has an Add method and to
// which the walker of that codec takes a pointer.
func (w *World) encMapType(codec string) *types.Named {
	if t := w.NamedType(w.Enc, "structFields"+codec); t != nil {
		return t
	}
	wk := w.encWalker("doSerializeStructTo" + codec)
	if wk == nil {
		return nil
	}
	for _, prm := range wk.Params {
		pt, ok := prm.Type().Underlying().(*types.Pointer)
		if !ok {
			continue
		}
		n, ok := pt.Elem().(*types.Named)
		if !ok || n.Obj().Pkg() == nil || n.Obj().Pkg() != w.Enc.Pkg {
			continue
		}
		if m, _ := w.DeclaredMethod(n, "Add"); m != nil {
			return n
		}
	}
	return nil
}

// isEmbedRecord: a struct type pairing a reflect.Type with a reflect.Value —
// the record under which an embedded struct is remembered for the recursion.
func isEmbedRecord(t types.Type) bool {
	st, ok := t.Underlying().(*types.Struct)
	if !ok {
		return false
	}
	hasT, hasV := false, false
	for i := 0; i < st.NumFields(); i++ {
		switch st.Field(i).Type().String() {
		case "reflect.Type":
			hasT = true
		case "reflect.Value":
			hasV = true
		}
	}
	return hasT && hasV
}

// isEmbedCollector, by role: a function with a body that reports (bool)
// whether a field is an embedded struct and is handed the address of the list
// of embed records to extend.
func isEmbedCollector(f *ssa.Function) bool {
	if f.Blocks == nil || f.Signature.Results().Len() != 1 || !isBoolType(f.Signature.Results().At(0).Type()) {
		return false
	}
	for _, prm := range f.Params {
		if pt, ok := prm.Type().Underlying().(*types.Pointer); ok {
			if sl, ok := pt.Elem().Underlying().(*types.Slice); ok && isEmbedRecord(sl.Elem()) {
				return true
			}
		}
	}
	return false
}

// ---- H8 ----

// c15Collector: whether an embedded struct is collected for the recursion may
// depend on the static type of the field and on whether a value is present
// (nil interface / nil pointer), never on the value's contents: an all-zero
// struct behind an embedded interface still has its fields in the union. The
// collector may therefore ask a reflect.Value only structural questions.
func c15Collector(w *World, r *Recorder) {
	structural := map[string]bool{
		"Elem": true, "Kind": true, "IsValid": true, "IsNil": true, "Type": true, "Interface": true,
		"Field": true, "NumField": true, "CanInterface": true, "CanAddr": true, "Addr": true, "CanSet": true,
	}
	n := 0
	for _, fn := range w.Funcs {
		if fn.Pkg != w.Enc || !isEmbedCollector(fn) {
			continue
		}
		n++
		bad := ""
		var at ssa.Instruction
		for _, b := range fn.Blocks {
			for _, in := range b.Instrs {
				c, ok := in.(*ssa.Call)
				if !ok {
					continue
				}
				cn := calleeName(&c.Call)
				if strings.HasPrefix(cn, "(reflect.Value).") {
					m := strings.TrimPrefix(cn, "(reflect.Value).")
					if !structural[m] {
						bad, at = m, c
					}
				}
			}
		}
		pos := w.FnPos(fn)
		if at != nil {
			pos = w.InstrPos(at)
		}
		r.Check(bad == "", "C15-H8", "embed-collector", pos, "the embed collector asks a field's value only structural questions (kind, validity, nil-ness): whether an embedded struct is merged does not depend on its contents",
			"the embed collector consults reflect.Value."+bad+"(): whether an embedded struct is merged into the map depends on its contents (an all-zero struct behind an embedded interface would be dropped from the union)")
	}
	if n == 0 {
		r.Undecide("C15-H8", "embed-collector", "-", "no embed collector found")
	}
}

// isDashPredicate: an in-repo function whose every return is `<something> == "-"`.
func isDashPredicate(f *ssa.Function) bool {
	if f.Blocks == nil || f.Signature.Results().Len() != 1 {
		return false
	}
	n := 0
	for _, b := range f.Blocks {
		ret, ok := b.Instrs[len(b.Instrs)-1].(*ssa.Return)
		if !ok {
			continue
		}
		n++
		bo, ok := ret.Results[0].(*ssa.BinOp)
		if !ok || bo.Op != token.EQL {
			return false
		}
		isDash := func(v ssa.Value) bool {
			k, ok := v.(*ssa.Const)
			return ok && k.Value != nil && k.Value.Kind() == constant.String && constStringVal(k) == "-"
		}
		if !isDash(bo.X) && !isDash(bo.Y) {
			return false
		}
	}
	return n > 0
}

// stripConv looks through numeric conversions and type changes.
func stripConv(v ssa.Value) ssa.Value {
	for {
		switch x := v.(type) {
		case *ssa.Convert:
			v = x.X
		case *ssa.ChangeType:
			v = x.X
		default:
			return v
		}
	}
}

// c15FieldEncoding: in a serialising walker (and the closures / visitors it
// uses) every raw value handed to the raw map — the last argument of an
// in-repo Add, or a direct update of a map of raw messages — is result 0 of
// the codec's Marshal (cbor.EncMode.Marshal / json.Marshal) applied to
// <field>.Interface(), untouched apart from type conversions.
func c15FieldEncoding(w *World, r *Recorder, name, rule string) {
	fn := w.encWalker(name)
	if fn == nil {
		r.Undecide(rule, name, "-", "walker not found")
		return
	}
	isJSON := strings.HasSuffix(name, "JSON")
	// the walker, its literals, and in-package functions it hands a visitor to
	fns := []*ssa.Function{fn}
	seen := map[*ssa.Function]bool{fn: true}
	for i := 0; i < len(fns) && i < 8; i++ {
		for _, b := range fns[i].Blocks {
			for _, in := range b.Instrs {
				for _, op := range in.Operands(nil) {
					var g *ssa.Function
					switch x := (*op).(type) {
					case *ssa.Function:
						g = x
					case *ssa.MakeClosure:
						g, _ = x.Fn.(*ssa.Function)
					}
					if g != nil && !seen[g] && g.Blocks != nil && g.Pkg == w.Enc && (g.Parent() != nil || fieldLoopHeader(g) != nil) {
						seen[g] = true
						fns = append(fns, g)
					}
				}
			}
		}
	}
	isRaw := func(t types.Type) bool {
		n, ok := t.(*types.Named)
		return ok && n.Obj().Name() == "RawMessage"
	}
	strip := func(v ssa.Value) ssa.Value {
		for {
			switch x := v.(type) {
			case *ssa.ChangeType:
				v = x.X
			case *ssa.Convert:
				v = x.X
			case *ssa.MakeInterface:
				v = x.X
			default:
				return v
			}
		}
	}
	var fromMarshalD func(v ssa.Value, depth int) (bool, string)
	fromMarshal := func(v ssa.Value) (bool, string) { return fromMarshalD(v, 0) }
	fromMarshalD = func(v ssa.Value, depth int) (bool, string) {
		ex, ok := strip(v).(*ssa.Extract)
		if !ok || ex.Index != 0 {
			return false, "the stored value is not the first result of a call"
		}
		c, ok := ex.Tuple.(*ssa.Call)
		if !ok {
			return false, "the stored value is not the result of a call"
		}
		var arg ssa.Value
		switch {
		case !isJSON && c.Call.IsInvoke() && c.Call.Method.Name() == "Marshal" && strings.HasSuffix(c.Call.Value.Type().String(), "cbor/v2.EncMode") && len(c.Call.Args) == 1:
			arg = c.Call.Args[0]
		case isJSON && c.Call.StaticCallee() != nil && c.Call.StaticCallee().String() == "encoding/json.Marshal" && len(c.Call.Args) == 1:
			arg = c.Call.Args[0]
		case c.Call.StaticCallee() != nil && w.InRepo(c.Call.StaticCallee()) && c.Call.StaticCallee().Blocks != nil && depth < 2:
			// a helper: every value it returns is the codec's Marshal of a field value (or nil)
			g := c.Call.StaticCallee()
			for _, gb := range g.Blocks {
				ret, ok := gb.Instrs[len(gb.Instrs)-1].(*ssa.Return)
				if !ok || len(ret.Results) == 0 {
					continue
				}
				if isNilConst(ret.Results[0]) {
					continue
				}
				if ok, why := fromMarshalD(ret.Results[0], depth+1); !ok {
					return false, "helper " + g.Name() + ": " + why
				}
			}
			return true, ""
		default:
			return false, "the stored value comes from " + calleeName(&c.Call) + ", not from the codec's Marshal"
		}
		ic, ok := strip(arg).(*ssa.Call)
		if !ok || ic.Call.StaticCallee() == nil || ic.Call.StaticCallee().String() != "(reflect.Value).Interface" {
			return false, "the codec's Marshal is not applied to <field>.Interface()"
		}
		return true, ""
	}
	n := 0
	for _, f := range fns {
		for _, b := range f.Blocks {
			for _, in := range b.Instrs {
				var val ssa.Value
				switch x := in.(type) {
				case *ssa.Call:
					g := x.Call.StaticCallee()
					if g == nil || !w.InRepo(g) || g.Name() != "Add" || len(x.Call.Args) == 0 || !isRaw(x.Call.Args[len(x.Call.Args)-1].Type()) {
						continue
					}
					val = x.Call.Args[len(x.Call.Args)-1]
				case *ssa.MapUpdate:
					if !isRaw(x.Value.Type()) {
						continue
					}
					val = x.Value
				default:
					continue
				}
				n++
				ok, why := fromMarshal(val)
				r.Check(ok, rule, fmt.Sprintf("%s#stored-value/%d", name, n), w.InstrPos(in), "the raw value stored for a field is the codec's Marshal of the field's value", "the raw value stored for a field is not the plain codec's encoding of it ("+why+"): the output need not decode to the same map as the plain marshaller's")
			}
		}
	}
	if n == 0 {
		r.Undecide(rule, name+"#stored-value", w.FnPos(fn), "no store into the raw map found in the walker")
	}
}

// ---- H12 ----

// c15JSONFraming: the all-empty struct serialises to "{}" (the round-trip
// clause names it, and the plain marshaller gives exactly that): on every path
// of the JSON map's writer that returns successfully with no keys, the bytes
// written to the output — constant arguments of the buffer's Write* methods,
// in order — are '{' '}' and nothing else, and nothing is stored into the
// output's bytes afterwards (an entry separator patched over the last byte
// has nothing to patch when there are no entries).
func c15JSONFraming(w *World, r *Recorder, sf *types.Named) {
	fn := w.MethodImpl(sf, "ToJSON")
	if fn == nil {
		r.Undecide("C15-H12", "ToJSON", "-", "not found")
		return
	}
	s := w.SummariseWith(fn, func(e *Engine) { e.MaxSteps = 20000 })
	if ok, why := s.Complete(); !ok {
		r.Undecide("C15-H12", "ToJSON", w.FnPos(fn), why)
		return
	}
	recv := fn.Params[0].Name()
	ei := errIndex(fn)
	n := 0
	for _, p := range s.Paths {
		if p.Ret == nil {
			continue
		}
		if _, nl := errOf(p, ei); nl == 1 {
			continue
		}
		set, has := p.St.terms["len("+recv+".Keys)"]
		if !has || !set.equal(iset{{0, 0}}) {
			continue
		}
		n++
		var out []byte
		known := true
		patched := ""
		for _, ev := range p.St.events {
			switch {
			case ev.Kind == "call" && (strings.HasPrefix(ev.Callee, "(*bytes.Buffer).Write") || strings.HasPrefix(ev.Callee, "(*strings.Builder).Write")) && len(ev.Args) == 2:
				a := ev.Args[1]
				switch a.Kind {
				case KSeq:
					for _, el := range a.Elems {
						if el.Kind != KInt {
							known = false
						}
						out = append(out, byte(el.K))
					}
				case KStr:
					out = append(out, a.S...)
				case KInt:
					out = append(out, byte(a.K))
				default:
					known = false
				}
			case ev.Kind == "store" && (strings.Contains(ev.Loc, ".Bytes(") || strings.Contains(ev.Loc, "(*bytes.Buffer)")):
				patched = ev.Loc
			case ev.Kind == "call" && (strings.HasPrefix(ev.Callee, "(*bytes.Buffer).Truncate") || strings.HasPrefix(ev.Callee, "(*bytes.Buffer).Reset")):
				patched = ev.Callee
			}
		}
		pkey := "ToJSON#no-keys/" + fmt.Sprint(n)
		switch {
		case patched != "":
			r.Refute("C15-H12", pkey, w.InstrPos(p.Ret), "with no entries the output is modified after it was written ("+patched+"): the all-empty struct does not serialise to {}")
		case !known || len(out) == 0:
			// an append-built result the engine evaluated to a constant sequence
			if len(p.Rets) > 0 && p.Rets[0].Kind == KSeq {
				var b []byte
				for _, el := range p.Rets[0].Elems {
					b = append(b, byte(el.K))
				}
				r.Check(string(b) == "{}", "C15-H12", pkey, w.InstrPos(p.Ret), "no entries → {}", fmt.Sprintf("with no entries the writer returns %q, not {}", b))
			} else {
				r.Undecide("C15-H12", pkey, w.InstrPos(p.Ret), "the bytes written with no entries are not constant writes to a bytes.Buffer / strings.Builder")
			}
		default:
			r.Check(string(out) == "{}", "C15-H12", pkey, w.InstrPos(p.Ret), "no entries → {}", fmt.Sprintf("with no entries the writer emits %q, not {}", out))
		}
	}
	if n == 0 {
		r.Undecide("C15-H12", "ToJSON#no-keys", w.FnPos(fn), "no successful path with an empty key list found")
	}
}
