package main

// C06 — decoding terminates with memory proportional to the input size.

import (
	"fmt"
	"go/token"
	"go/types"
	"sort"
	"strings"

	"golang.org/x/tools/go/ssa"
)

func init() { register("C06", checkC06) }

func isByteSlice(t types.Type) bool {
	sl, ok := t.Underlying().(*types.Slice)
	if !ok {
		return false
	}
	b, ok := sl.Elem().Underlying().(*types.Basic)
	return ok && b.Kind() == types.Uint8
}

// ---- E7: taint (values derived from the bytes of a []byte parameter) ----

type taint struct {
	w   *World
	fns map[*ssa.Function]*taintSum
}

type taintSum struct {
	vals map[ssa.Value]bool
	// result i is tainted when some byte-slice parameter is
	res []bool
}

func newTaint(w *World) *taint { return &taint{w: w, fns: map[*ssa.Function]*taintSum{}} }

func (t *taint) of(fn *ssa.Function) *taintSum {
	if s, ok := t.fns[fn]; ok {
		return s
	}
	s := &taintSum{vals: map[ssa.Value]bool{}, res: make([]bool, fn.Signature.Results().Len())}
	t.fns[fn] = s // recursion: start from bottom
	if fn.Blocks == nil {
		return s
	}
	for _, p := range fn.Params {
		if isByteSlice(p.Type()) {
			s.vals[p] = true
		}
	}
	for round := 0; round < 8; round++ {
		changed := false
		mark := func(v ssa.Value) {
			if !s.vals[v] {
				s.vals[v] = true
				changed = true
			}
		}
		for _, b := range fn.Blocks {
			for _, in := range b.Instrs {
				v, isVal := in.(ssa.Value)
				if !isVal {
					if st, ok := in.(*ssa.Store); ok && s.vals[st.Val] {
						// local variable holding a tainted value
						if al, ok := st.Addr.(*ssa.Alloc); ok {
							mark(al)
						}
					}
					continue
				}
				switch x := in.(type) {
				case *ssa.Phi:
					for _, e := range x.Edges {
						if s.vals[e] {
							mark(v)
						}
					}
				case *ssa.UnOp:
					if s.vals[x.X] {
						mark(v)
					}
				case *ssa.BinOp:
					if s.vals[x.X] || s.vals[x.Y] {
						if !isCmpOp(x.Op) {
							mark(v)
						}
					}
				case *ssa.Convert:
					if s.vals[x.X] {
						mark(v)
					}
				case *ssa.ChangeType:
					if s.vals[x.X] {
						mark(v)
					}
				case *ssa.Slice:
					if s.vals[x.X] {
						mark(v)
					}
				case *ssa.IndexAddr:
					if s.vals[x.X] {
						mark(v)
					}
				case *ssa.Index:
					if s.vals[x.X] {
						mark(v)
					}
				case *ssa.Extract:
					if c, ok := x.Tuple.(*ssa.Call); ok {
						if t.callResultTainted(s, c, x.Index) {
							mark(v)
						}
					}
				case *ssa.Call:
					if x.Call.Signature().Results().Len() == 1 && t.callResultTainted(s, x, 0) {
						mark(v)
					}
				}
			}
		}
		if !changed {
			break
		}
	}
	for _, b := range fn.Blocks {
		if ret, ok := b.Instrs[len(b.Instrs)-1].(*ssa.Return); ok {
			for i, rv := range ret.Results {
				if s.vals[rv] {
					s.res[i] = true
				}
			}
		}
	}
	return s
}

func (t *taint) callResultTainted(s *taintSum, c *ssa.Call, idx int) bool {
	anyTaintedArg := false
	for _, a := range c.Call.Args {
		if s.vals[a] {
			anyTaintedArg = true
		}
	}
	if !anyTaintedArg {
		return false
	}
	if b, ok := c.Call.Value.(*ssa.Builtin); ok {
		switch b.Name() {
		case "len", "cap":
			return false // the length of input already in memory is not a sender-chosen number
		case "min", "max", "append":
			return true
		}
		return false
	}
	name := calleeName(&c.Call)
	if strings.Contains(name, "encoding/binary.") && (strings.Contains(name, ").Uint") || strings.Contains(name, ".Uint")) {
		return true
	}
	if strings.HasSuffix(name, "DecMode.UnmarshalFirst") && idx == 0 {
		return true // rest: still input bytes
	}
	if f := c.Call.StaticCallee(); f != nil && t.w.InRepo(f) && f.Blocks != nil {
		cs := t.of(f)
		return idx < len(cs.res) && cs.res[idx]
	}
	return false
}

// ---- sizes ----

// lenDerived: the term is built from len(...) of something in memory by
// monotone arithmetic with constants.
func lenDerivedName(n string) bool {
	n = strings.TrimSpace(n)
	for strings.HasPrefix(n, "(") && strings.HasSuffix(n, ")") {
		inner := n[1 : len(n)-1]
		// strip a trailing /k, -k, +k, >>k
		cut := -1
		depth := 0
		for i, c := range inner {
			switch c {
			case '(', '[':
				depth++
			case ')', ']':
				depth--
			case '/', '+', '-', '>':
				if depth == 0 && i > 0 {
					cut = i
				}
			}
		}
		if cut < 0 {
			n = inner
			continue
		}
		n = inner[:cut]
	}
	return strings.HasPrefix(n, "len(") && !strings.Contains(n, "makeslice(")
}

func checkC06(w *World, r *Recorder) propInfo {
	info := propInfo{
		Explanation: "Decided part, over in-repo code reachable from the decode entry points: A1 every size operand of make (slice, map, chan) is, in every abstract state in which the path engine reaches it, a constant, the length of something already in memory (possibly scaled down), a value with a constant upper bound <= 65536, or a value the state bounds from above by such a length (clamp / min idiom) — a length field read from the input is none of these, so pre-sizing from a declared length is refuted with the state that reaches it; A2 every call-graph cycle is either driven by the static type of the caller's destination (the reflect walkers recurse over embedded struct types collected by collectEmbedded, never over input bytes) or is entered only after a depth-limited whole-input validation of the same bytes (skipValue: json.Unmarshal of the buffer returned nil before unmarshalKeys runs); A3 every loop whose bound is derived from input bytes (taint from []byte parameters through indexing, binary.BigEndian.UintN, arithmetic and in-repo calls) or that has no bound makes progress through the input: each iteration calls a consumer whose error leaves the loop and whose remaining-input result feeds the next iteration (CBOR: UnmarshalFirst via unmarshalKeyValue; JSON: Decoder.Token); all other loops range over memory or compare with an input-independent bound; A4 the DecOptions literal leaves MaxNestedLevels / MaxArrayElements / MaxMapPairs at (or below) library defaults. Not decided: the measured bound (1 MiB + 1 KiB per byte, 5 s), allocation and loop termination inside the libraries.",
		Rule:        "one obligation per make site, per call-graph cycle, per loop, per option literal",
		Trusted:     []string{"go/types+go/ssa", "path engine states at make sites (E8 collector)", "taint propagation (E7)", "fxamacker/cbor and encoding/json bound their own allocations by the input and nesting limits; Decoder.Token and UnmarshalFirst consume at least one byte or fail"},
	}
	roots := c05Roots(w, r)
	var decodeRoots []*ssa.Function
	for _, rt := range roots {
		n := rt.name
		if strings.HasPrefix(n, "Decode") || strings.Contains(n, "Unmarshal") || strings.Contains(n, "Populate") {
			decodeRoots = append(decodeRoots, rt.fn)
		}
	}
	reach := w.Reachable(decodeRoots)
	r.Count("decode_entry_points", len(decodeRoots))
	r.Count("functions_reachable", len(reach))
	inScope := func(fn *ssa.Function) bool {
		return reach[fn] && w.InRepo(fn) && libraryFile(w, fn) && (fn.Synthetic == "" || strings.HasPrefix(fn.Synthetic, "instance of"))
	}

	// ---------- A1 ----------
	type sizeObs struct {
		in        ssa.Instruction
		ok, bad   int
		witness   string
		what, how string
	}
	sizes := map[ssa.Instruction]*sizeObs{}
	observed := map[*ssa.Function]bool{}
	var eng *Engine
	judgeSize := func(in ssa.Instruction, st *State, v ssa.Value, what string) {
		o := sizes[in]
		if o == nil {
			o = &sizeObs{in: in, what: what}
			sizes[in] = o
		}
		a := eng.eval(st, v)
		ok, how := sizeBounded(eng, st, a)
		if ok {
			o.ok++
			o.how = how
			return
		}
		o.bad++
		if o.witness == "" {
			d := st.Describe()
			if len(d) > 260 {
				d = d[:260] + "…"
			}
			o.witness = fmt.Sprintf("size %s is not bounded by a constant or by the length of data in memory [state: %s]", a.name(), d)
		}
	}
	noInline := map[*ssa.Function]bool{}
	for _, fn := range w.Funcs {
		if baseName(fn) == "Validate" || baseName(fn) == "FilterError" || (c13IsWalker(w, fn) && strings.HasPrefix(baseName(fn), "Validate")) {
			noInline[fn] = true
		}
	}
	run := func(fn *ssa.Function) {
		e := NewEngine(w)
		e.Effects = w.EffectsOracle()
		e.MaxSteps = 150000
		e.Lean = true
		e.NoInline = noInline
		eng = e
		e.Observe = func(in ssa.Instruction, st *State, depth int) {
			observed[in.Parent()] = true
			if !inScope(in.Parent()) {
				return
			}
			switch x := in.(type) {
			case *ssa.MakeSlice:
				judgeSize(in, st, x.Len, "make slice len")
				if x.Cap != x.Len {
					judgeSize(in, st, x.Cap, "make slice cap")
				}
			case *ssa.MakeMap:
				if x.Reserve != nil {
					judgeSize(in, st, x.Reserve, "make map size hint")
				}
			case *ssa.MakeChan:
				judgeSize(in, st, x.Size, "make chan size")
			case *ssa.Call:
				// library calls that allocate according to an integer argument
				if idx, what := allocatingCall(x); idx >= 0 && idx < len(x.Call.Args) {
					judgeSize(in, st, x.Call.Args[idx], what)
				}
			}
		}
		init := e.RootState()
		assumeParams(e, fn, init)
		paths := e.Run(fn, init, nil)
		r.Count("engine_steps", e.steps)
		for _, p := range paths {
			if p.Cut != nil {
				r.Undecide("C06-engine", fnKey(fn)+"#cut", w.FnPos(fn), "path left the engine's fragment: "+p.St.unsupported)
			}
		}
		if e.Err != nil {
			r.Undecide("C06-engine", fnKey(fn), w.FnPos(fn), e.Err.Error())
		}
	}
	for _, fn := range decodeRoots {
		run(fn)
	}
	for pass := 0; pass < 3; pass++ {
		n := 0
		for _, fn := range sortedFuncs(reach) {
			if observed[fn] || !inScope(fn) {
				continue
			}
			n++
			run(fn)
		}
		if n == 0 {
			break
		}
	}
	nMake := 0
	for _, fn := range sortedFuncs(reach) {
		if !inScope(fn) {
			continue
		}
		for _, b := range fn.Blocks {
			for _, in := range b.Instrs {
				switch x := in.(type) {
				case *ssa.MakeSlice, *ssa.MakeChan:
					nMake++
					_ = x
				case *ssa.MakeMap:
					nMake++
				case *ssa.Call:
					if idx, _ := allocatingCall(x); idx < 0 {
						continue
					}
					nMake++
				default:
					continue
				}
				key := fmt.Sprintf("%s#%T/%d", fnKey(fn), in, ordinalOf(in))
				o := sizes[in]
				switch {
				case o == nil:
					if mm, ok := in.(*ssa.MakeMap); ok && mm.Reserve == nil {
						r.Prove("C06-A1", key, w.InstrPos(in), "map without size hint", false)
					} else if ms, ok := in.(*ssa.MakeSlice); ok {
						if _, isC := ms.Len.(*ssa.Const); isC {
							r.Prove("C06-A1", key, w.InstrPos(in), "constant size", false)
						} else if !observed[fn] {
							r.Undecide("C06-A1", key, w.InstrPos(in), "allocation site never reached by the engine")
						}
					}
				case o.bad > 0:
					r.Refute("C06-A1", key, w.InstrPos(in), o.what+": "+o.witness)
				default:
					r.Prove("C06-A1", key, w.InstrPos(in), o.what+" "+o.how, true)
				}
			}
		}
	}
	r.Count("make_sites", nMake)

	// ---------- A2 ----------
	c06Recursion(w, r, reach, inScope)

	// ---------- A3 ----------
	c06Loops(w, r, reach, inScope)
	c06Locks(w, r, reach, inScope)
	c06ValueSizedWork(w, r, reach, inScope)

	// ---------- A4 ----------
	ruleOptions(w, r, "C06-A4", "DecOptions")

	// ---------- A5 ----------
	// no loop in decode-reachable code carries a value around its back edge
	// through a builder whose cost grows with what has been accumulated
	// (string +, fmt.Sprintf/Errorf, errors.Join, strings.Join/Repeat): with a
	// trip count the input controls, total work and allocation are quadratic
	nA5 := 0
	for _, fn := range sortedFuncs(reach) {
		if !inScope(fn) || fn.Blocks == nil {
			continue
		}
		for _, b := range fn.Blocks {
			for _, in := range b.Instrs {
				phi, ok := in.(*ssa.Phi)
				if !ok {
					break
				}
				for i, e := range phi.Edges {
					if !b.Dominates(b.Preds[i]) {
						continue // not a back edge
					}
					if site, what := accumulatesThrough(e, phi, 0); site != nil {
						nA5++
						if loopBoundConstant(b) {
							r.Prove("C06-A5", fmt.Sprintf("%s#loop@b%d", fnKey(fn), b.Index), w.InstrPos(site), "accumulation through "+what+" in a loop with a constant trip count", true)
							continue
						}
						r.Refute("C06-A5", fmt.Sprintf("%s#loop@b%d:%s", fnKey(fn), b.Index, what), w.InstrPos(site), fmt.Sprintf("%s is rebuilt from its previous value by %s on every iteration of a loop whose trip count depends on the input: total allocation (and the time to render it) grows quadratically with the number of iterations, not linearly with the input", phi.Comment, what))
					}
				}
			}
		}
	}
	// … and no accumulator is extended by an append whose base had its spare
	// capacity cut off (slices.Clip, s[:len(s):len(s)]): every such append
	// reallocates and copies all earlier elements, so filling the list entry by
	// entry costs quadratic allocation
	for _, fn := range sortedFuncs(reach) {
		if !inScope(fn) || fn.Blocks == nil {
			continue
		}
		for _, b := range fn.Blocks {
			for _, in := range b.Instrs {
				c, ok := in.(*ssa.Call)
				if !ok {
					continue
				}
				bi, isB := c.Call.Value.(*ssa.Builtin)
				if !isB || bi.Name() != "append" || len(c.Call.Args) < 2 {
					continue
				}
				var src ssa.Value
				what := ""
				switch x := c.Call.Args[0].(type) {
				case *ssa.Call:
					if strings.HasPrefix(calleeName(&x.Call), "slices.Clip") && len(x.Call.Args) == 1 {
						src, what = x.Call.Args[0], "slices.Clip"
					}
				case *ssa.Slice:
					if x.Max != nil {
						src, what = x.X, "a full slice expression capping the capacity"
					}
				}
				if src == nil {
					continue
				}
				// stored back to where the base was loaded from?
				ld, ok := src.(*ssa.UnOp)
				if !ok {
					continue
				}
				for _, ref := range *c.Referrers() {
					if st, ok := ref.(*ssa.Store); ok && st.Val == ssa.Value(c) && sameAddress(st.Addr, ld.X) {
						nA5++
						r.Refute("C06-A5", fmt.Sprintf("%s#clipped-append", fnKey(fn)), w.InstrPos(c), fmt.Sprintf("the list is extended by append on a base whose spare capacity was removed by %s and stored back: each call reallocates and copies every earlier element, so building it entry by entry from the input allocates quadratically", what))
					}
				}
			}
		}
	}
	// … and no per-entry consumer (a function that takes the remaining input
	// and hands back what is left after one item) reserves memory in
	// proportion to the *remaining* input: called once per entry, that adds up
	// to entries × input length
	for _, fn := range sortedFuncs(reach) {
		if !inScope(fn) || fn.Blocks == nil {
			continue
		}
		var in *ssa.Parameter
		for _, prm := range fn.Params {
			if isByteSlice(prm.Type()) {
				in = prm
			}
		}
		res := fn.Signature.Results()
		returnsRest := false
		for i := 0; i < res.Len(); i++ {
			if isByteSlice(res.At(i).Type()) {
				returnsRest = true
			}
		}
		if in == nil || !returnsRest {
			continue
		}
		var fromInput func(v ssa.Value, d int) bool
		fromInput = func(v ssa.Value, d int) bool {
			if d > 6 || v == nil {
				return false
			}
			if v == ssa.Value(in) {
				return true
			}
			switch x := v.(type) {
			case *ssa.Slice:
				return fromInput(x.X, d+1)
			case *ssa.Extract:
				// what a consumer call leaves of the input it was handed
				if c, ok := x.Tuple.(*ssa.Call); ok && isByteSlice(x.Type()) {
					for _, a := range c.Call.Args {
						if isByteSlice(a.Type()) && fromInput(a, d+1) {
							return true
						}
					}
				}
			case *ssa.Phi:
				for _, e := range x.Edges {
					if e != v && fromInput(e, d+1) {
						return true
					}
				}
			}
			return false
		}
		for _, b := range fn.Blocks {
			for _, ins := range b.Instrs {
				ms, ok := ins.(*ssa.MakeSlice)
				if !ok {
					continue
				}
				for _, sz := range []ssa.Value{ms.Len, ms.Cap} {
					if arg, ok := lenOperand(sz); ok && fromInput(arg, 0) {
						nA5++
						r.Refute("C06-A5", fmt.Sprintf("%s#reserve-remaining", fnKey(fn)), w.InstrPos(ms), "a per-item consumer (it takes the remaining input and returns what is left) allocates in proportion to the whole remaining input: called once per entry, the reservations add up to entries × input length, not to a fixed multiple of the input")
					}
				}
			}
		}
	}
	r.Count("accumulating_loops", nA5)
	r.Prove("C06-A5", "scan", "-", fmt.Sprintf("%d decode-reachable functions scanned for loop-carried accumulation through superlinear builders", len(reach)), false)

	r.Floor("C06-A1", 3)
	r.Floor("C06-A2", 2)
	r.Floor("C06-A3", 6)
	r.Floor("C06-A4", 1)
	return info
}

func ordinalOf(in ssa.Instruction) int {
	n := 0
	for _, b := range in.Parent().Blocks {
		for _, x := range b.Instrs {
			if x == in {
				return n
			}
			if fmt.Sprintf("%T", x) == fmt.Sprintf("%T", in) {
				n++
			}
		}
	}
	return n
}

// sizeBounded: see A1.
func sizeBounded(e *Engine, st *State, a AV) (bool, string) {
	switch a.Kind {
	case KInt:
		if a.K >= 0 && a.K <= 1<<16 {
			return true, fmt.Sprintf("constant %d", a.K)
		}
		return false, ""
	case KLin:
		if lenDerivedName(a.Term) && a.K <= 1<<16 {
			return true, "length of data in memory: " + a.name()
		}
		if set, ok := st.terms[a.Term]; ok && !set.empty() && set.max() != maxI && satAdd(set.max(), a.K) <= 1<<16 {
			return true, fmt.Sprintf("bounded by %d", satAdd(set.max(), a.K))
		}
		// bounded from above by a len-derived term through a relational fact
		for sym, val := range st.atoms {
			fa, fb, ok := splitLt(sym)
			if !ok {
				continue
			}
			t1, _ := linName(fa)
			t2, _ := linName(fb)
			// val: t1 < t2 ; !val: t2 <= t1
			if val && t1 == a.Term && lenDerivedName(t2) {
				return true, "bounded by " + fb + " (guard)"
			}
			if !val && t2 == a.Term && lenDerivedName(t1) {
				return true, "bounded by " + fa + " (guard)"
			}
		}
	}
	return false, ""
}

// ---- A2: recursion ----

func c06Recursion(w *World, r *Recorder, reach map[*ssa.Function]bool, inScope func(*ssa.Function) bool) {
	g := w.CallGraph()
	// direct or mutual recursion among in-scope functions: Tarjan is overkill
	// for this size; find functions that can reach themselves
	var fns []*ssa.Function
	for _, fn := range sortedFuncs(reach) {
		if inScope(fn) {
			fns = append(fns, fn)
		}
	}
	reaches := func(from, to *ssa.Function) bool {
		seen := map[*ssa.Function]bool{}
		stack := []*ssa.Function{from}
		first := true
		for len(stack) > 0 {
			f := stack[len(stack)-1]
			stack = stack[:len(stack)-1]
			if f == to && !first {
				return true
			}
			first = false
			if seen[f] {
				continue
			}
			seen[f] = true
			if n := g.Nodes[f]; n != nil {
				for _, e := range n.Out {
					if inScope(e.Callee.Func) {
						stack = append(stack, e.Callee.Func)
					}
				}
			}
		}
		return false
	}
	n := 0
	for _, fn := range fns {
		if !reaches(fn, fn) {
			continue
		}
		n++
		key := "cycle:" + fnKey(fn)
		switch {
		case typeDrivenRecursion(fn):
			r.Prove("C06-A2", key, w.FnPos(fn), "recursion over embedded struct types collected by reflection: its depth is the nesting depth of the caller's destination type, independent of input bytes", true)
		case precededByValidation(w, fn):
			r.Prove("C06-A2", key, w.FnPos(fn), "entered only after json.Unmarshal of the same bytes returned nil (encoding/json limits nesting to 10000)", true)
		default:
			r.Refute("C06-A2", key, w.FnPos(fn), "recursive function reachable from a decode entry point whose depth is neither type-driven nor bounded by a preceding validation of the input")
		}
	}
	r.Count("recursive_functions", n)
}

// typeDrivenRecursion: every recursive call passes, at its reflect.Type /
// reflect.Value positions, fields of an `embedded` record (produced by
// collectEmbedded), and the function has no byte-slice parameter.
func typeDrivenRecursion(fn *ssa.Function) bool {
	for _, p := range fn.Params {
		if isByteSlice(p.Type()) {
			return false
		}
	}
	found, sawReflect := false, false
	for _, b := range fn.Blocks {
		for _, in := range b.Instrs {
			c, ok := in.(*ssa.Call)
			if !ok || c.Call.StaticCallee() != fn {
				continue
			}
			found = true
			for _, a := range c.Call.Args {
				ts := a.Type().String()
				if ts != "reflect.Type" && ts != "reflect.Value" {
					// other arguments must be the function's own parameters passed through
					if _, isParam := a.(*ssa.Parameter); !isParam {
						return false
					}
					continue
				}
				if !fromEmbeddedRecord(a) {
					return false
				}
				sawReflect = true
			}
		}
	}
	return found && sawReflect
}

func fromEmbeddedRecord(v ssa.Value) bool {
	switch x := v.(type) {
	case *ssa.UnOp:
		if fa, ok := x.X.(*ssa.FieldAddr); ok {
			if n, ok := fa.X.Type().Underlying().(*types.Pointer).Elem().(*types.Named); ok {
				return isEmbedRecord(n)
			}
		}
	case *ssa.Field:
		if n, ok := x.X.Type().(*types.Named); ok {
			return isEmbedRecord(n)
		}
	case *ssa.Extract:
		return false
	}
	return false
}

// precededByValidation: fn (recursive) is called, transitively, only from a
// function F in which every call leading to fn is preceded on every path by a
// call of encoding/json.Unmarshal on the same buffer with a nil result.
func precededByValidation(w *World, fn *ssa.Function) bool {
	g := w.CallGraph()
	// climb unique-caller chain until a function that calls json.Unmarshal
	cur := fn
	for depth := 0; depth < 6; depth++ {
		node := g.Nodes[cur]
		if node == nil {
			return false
		}
		callers := map[*ssa.Function]bool{}
		for _, e := range node.In {
			if e.Caller.Func != cur && w.InRepo(e.Caller.Func) {
				callers[e.Caller.Func] = true
			}
		}
		if len(callers) != 1 {
			return false
		}
		var caller *ssa.Function
		for c := range callers {
			caller = c
		}
		// does caller validate before calling cur?
		s := w.SummariseWith(caller, func(e *Engine) { e.NoInline = map[*ssa.Function]bool{cur: true} })
		if ok, _ := s.Complete(); ok {
			validated, called := true, false
			for _, p := range s.Paths {
				var okBuf string
				for _, ev := range p.St.events {
					if ev.Kind == "call" && ev.Callee == "encoding/json.Unmarshal" && len(ev.Args) == 2 && p.St.NilOf(ev.Result) == -1 {
						okBuf = ev.Args[0].name()
					}
					if (ev.Kind == "call" || ev.Kind == "enter") && ev.Static == cur {
						called = true
						// the callee's byte-slice argument must be the validated buffer
						arg := ""
						for _, a := range ev.Args {
							// the buffer itself, or a reader / decoder positioned over it
							if okBuf != "" && (a.name() == okBuf || strings.Contains(a.name(), "bytes.NewReader("+okBuf+")")) {
								arg = a.name()
							}
						}
						if okBuf == "" || arg == "" {
							validated = false
						}
					}
				}
			}
			if called && validated {
				return true
			}
		}
		cur = caller
	}
	return false
}

// ---- A3: loops ----

func c06Loops(w *World, r *Recorder, reach map[*ssa.Function]bool, inScope func(*ssa.Function) bool) {
	tt := newTaint(w)
	nLoops := 0
	for _, fn := range sortedFuncs(reach) {
		if !inScope(fn) {
			continue
		}
		ts := tt.of(fn)
		var headers []*ssa.BasicBlock
		for _, b := range fn.Blocks {
			for _, p := range b.Preds {
				if b.Dominates(p) {
					headers = append(headers, b)
					break
				}
			}
		}
		sort.Slice(headers, func(i, j int) bool { return headers[i].Index < headers[j].Index })
		for li, h := range headers {
			nLoops++
			key := fmt.Sprintf("%s#loop/%d", fnKey(fn), li)
			info := loopInfoOf(h)
			kind, detail := classifyLoop(w, fn, h, info, ts)
			pos := w.FnPos(fn)
			if len(h.Instrs) > 0 {
				pos = w.InstrPos(h.Instrs[len(h.Instrs)-1])
			}
			switch kind {
			case "memory", "input-independent", "consumes-input":
				r.Prove("C06-A3", key, pos, kind+": "+detail, kind == "consumes-input")
			default:
				r.Refute("C06-A3", key, pos, "loop bound derived from input bytes (or absent) and the body does not provably consume input on every iteration: "+detail)
			}
		}
	}
	r.Count("loops", nLoops)
}

func classifyLoop(w *World, fn *ssa.Function, h *ssa.BasicBlock, li *loopInfo, ts *taintSum) (string, string) {
	// range over map/string (Next) or slice (sliceLoops)
	for _, in := range h.Instrs {
		if _, ok := in.(*ssa.Next); ok {
			return "memory", "range over a map or string in memory"
		}
	}
	for _, sl := range sliceLoops(fn) {
		if sl.Header == h {
			return "memory", "walk over a slice in memory"
		}
	}
	// header condition i < bound with an input-independent bound
	if ifi, ok := h.Instrs[len(h.Instrs)-1].(*ssa.If); ok {
		if cmp, ok := ifi.Cond.(*ssa.BinOp); ok && isCmpOp(cmp.Op) {
			exits := !li.blocks[h.Succs[0]] || !li.blocks[h.Succs[1]]
			if exits && !ts.vals[cmp.X] && !ts.vals[cmp.Y] {
				if _, isPhi := cmp.X.(*ssa.Phi); isPhi {
					return "input-independent", "counter compared with " + cmp.Y.Name() + ", which is not derived from input bytes"
				}
				if bo, isBin := cmp.X.(*ssa.BinOp); isBin && bo.Op == token.ADD {
					return "input-independent", "counter compared with " + cmp.Y.Name() + ", which is not derived from input bytes"
				}
			}
		}
	}
	// any other exit test on a value that is not derived from input bytes
	// (struct tags, type information, lengths of the library's own tables)
	if ifi, ok := h.Instrs[len(h.Instrs)-1].(*ssa.If); ok {
		exits := !li.blocks[h.Succs[0]] || !li.blocks[h.Succs[1]]
		if exits && !ts.vals[ifi.Cond] && !condDependsOnTaint(ifi.Cond, ts, 0) {
			return "input-independent", "exit test " + ifi.Cond.Name() + " is not derived from input bytes"
		}
	}
	// consume rule
	if ok, why := consumesInput(w, fn, h, li); ok {
		return "consumes-input", why
	} else {
		return "unbounded", why
	}
}

// consumesInput: some call C inside the loop dominates every back edge, its
// error result leaves the loop when non-nil, and C is an input consumer: a
// model-table consumer (DecMode.UnmarshalFirst, Decoder.Token) or an in-repo
// function that returns the remaining input of such a consumer and whose
// remaining-input result is carried to the next iteration.
func consumesInput(w *World, fn *ssa.Function, h *ssa.BasicBlock, li *loopInfo) (bool, string) {
	var latches []*ssa.BasicBlock
	for _, p := range h.Preds {
		if h.Dominates(p) {
			latches = append(latches, p)
		}
	}
	why := "no call in the body whose failure ends the loop"
	for b := range li.blocks {
		for _, in := range b.Instrs {
			c, ok := in.(*ssa.Call)
			if !ok {
				continue
			}
			kind := consumerKind(w, c, map[*ssa.Function]bool{})
			if kind == "" {
				continue
			}
			dom := true
			for _, l := range latches {
				if !b.Dominates(l) {
					dom = false
				}
			}
			if !dom {
				why = "the consumer call does not run on every iteration"
				continue
			}
			// its error must end the loop: every latch is reached only with err == nil
			ei := c.Call.Signature().Results().Len() - 1
			var errV ssa.Value
			for _, ref := range *c.Referrers() {
				if ex, ok := ref.(*ssa.Extract); ok && ex.Index == ei {
					errV = ex
				}
			}
			if c.Call.Signature().Results().Len() == 1 {
				errV = c
			}
			if errV == nil {
				why = "the consumer's error is ignored"
				continue
			}
			okErr := true
			for _, l := range latches {
				if !knownNilAt(errV, l) && !nilEdgeInto(errV, l, h) {
					okErr = false
				}
			}
			if !okErr {
				why = "an iteration can continue although the consumer failed"
				continue
			}
			// remaining input carried around the loop (slice consumers only)
			if kind == "slice" {
				carried := false
				for _, hin := range h.Instrs {
					phi, ok := hin.(*ssa.Phi)
					if !ok || !isByteSlice(phi.Type()) {
						continue
					}
					for i, e := range phi.Edges {
						if h.Dominates(h.Preds[i]) {
							if ex, ok := e.(*ssa.Extract); ok && ex.Tuple == ssa.Value(c) && ex.Index == 0 {
								carried = true
							}
						}
					}
				}
				// the loop may also keep the remaining input in a local variable
				if !carried {
					for _, ref := range *c.Referrers() {
						if ex, ok := ref.(*ssa.Extract); ok && ex.Index == 0 {
							for _, r2 := range *ex.Referrers() {
								if st, ok := r2.(*ssa.Store); ok {
									if _, isAlloc := st.Addr.(*ssa.Alloc); isAlloc {
										carried = true
									}
								}
							}
						}
					}
				}
				if !carried {
					why = "the remaining input returned by the consumer is not what the next iteration reads"
					continue
				}
			}
			return true, "each iteration calls " + shortName(calleeName(&c.Call)) + ", whose failure ends the loop and which consumes input"
		}
	}
	return false, why
}

// consumerKind: "slice" for functions (data []byte, …) -> (rest []byte, …,
// error) that return a strict suffix on success; "stream" for stateful
// decoders; "" otherwise.
func consumerKind(w *World, c *ssa.Call, seen map[*ssa.Function]bool) string {
	name := calleeName(&c.Call)
	switch {
	case strings.HasSuffix(name, "DecMode.UnmarshalFirst"):
		return "slice"
	case name == "(*encoding/json.Decoder).Token":
		return "stream"
	}
	f := c.Call.StaticCallee()
	if f == nil || !w.InRepo(f) || f.Blocks == nil || seen[f] {
		return ""
	}
	seen[f] = true
	// in-repo wrapper: every success return's result 0 is result 0 of a slice
	// consumer called on (a suffix of) its byte-slice parameter; or it calls a
	// stream consumer on every path before returning nil
	ei := errIndex(f)
	if ei < 0 {
		return ""
	}
	kind := ""
	for _, b := range f.Blocks {
		for _, in := range b.Instrs {
			if cc, ok := in.(*ssa.Call); ok {
				if k := consumerKind(w, cc, seen); k != "" {
					// the consumer must dominate every return that may carry a nil error
					domAll := true
					for _, b2 := range f.Blocks {
						if ret, ok := b2.Instrs[len(b2.Instrs)-1].(*ssa.Return); ok {
							ev := ret.Results[ei]
							mayNil := isNilConst(ev) || !(definitelyNonNilErr(ev) || knownNonNilAt(ev, b2))
							if mayNil && !b.Dominates(b2) {
								domAll = false
							}
						}
					}
					if domAll {
						kind = k
					}
				}
			}
		}
	}
	return kind
}

// allocatingCall: standard-library functions that reserve memory according to
// an integer argument; returns the index of that argument (or -1).
func allocatingCall(c *ssa.Call) (int, string) {
	name := calleeName(&c.Call)
	base := name
	if i := strings.IndexByte(base, '['); i > 0 {
		base = base[:i] // generic instantiation
	}
	switch base {
	case "slices.Grow":
		return 1, "slices.Grow capacity"
	case "bytes.Repeat", "strings.Repeat":
		return 1, base + " count"
	case "(*bytes.Buffer).Grow", "(*strings.Builder).Grow":
		return 1, base + " size"
	case "slices.Repeat":
		return 1, "slices.Repeat count"
	}
	return -1, ""
}

// superlinearBuilder: calls whose cost is proportional to the size of (some
// of) their arguments and whose result contains them.
var superlinearBuilder = map[string]bool{
	"errors.Join": true, "fmt.Errorf": true, "fmt.Sprintf": true, "fmt.Sprint": true, "fmt.Sprintln": true,
	"strings.Join": true, "strings.Repeat": true, "bytes.Join": true, "bytes.Repeat": true,
}

// accumulatesThrough: value e (on a back edge) is computed from phi through a
// superlinear builder or string concatenation, possibly via conversions and
// the varargs slice of a fmt call. Returns the building instruction.
func accumulatesThrough(e ssa.Value, phi *ssa.Phi, depth int) (ssa.Instruction, string) {
	if depth > 4 {
		return nil, ""
	}
	uses := func(v ssa.Value) bool {
		for d := 0; d < 4 && v != nil; d++ {
			if v == ssa.Value(phi) {
				return true
			}
			switch x := v.(type) {
			case *ssa.MakeInterface:
				v = x.X
			case *ssa.ChangeInterface:
				v = x.X
			case *ssa.ChangeType:
				v = x.X
			case *ssa.Convert:
				v = x.X
			default:
				return false
			}
		}
		return false
	}
	switch x := e.(type) {
	case *ssa.Phi:
		if x == phi {
			return nil, ""
		}
		for _, e2 := range x.Edges {
			if in, what := accumulatesThrough(e2, phi, depth+1); in != nil {
				return in, what
			}
		}
	case *ssa.BinOp:
		if x.Op == token.ADD && isStringType(x.Type()) && (uses(x.X) || uses(x.Y)) {
			return x, "string concatenation"
		}
	case *ssa.MakeInterface:
		return accumulatesThrough(x.X, phi, depth+1)
	case *ssa.ChangeInterface:
		return accumulatesThrough(x.X, phi, depth+1)
	case *ssa.Call:
		name := calleeName(&x.Call)
		if !superlinearBuilder[name] {
			return nil, ""
		}
		for _, a := range x.Call.Args {
			if uses(a) {
				return x, name
			}
		}
		for _, a := range varargsOperands(x) {
			if a != nil && uses(a) {
				return x, name
			}
		}
	}
	return nil, ""
}

// loopBoundConstant: the loop headed by b compares its counter with a constant.
func loopBoundConstant(b *ssa.BasicBlock) bool {
	ifi, ok := b.Instrs[len(b.Instrs)-1].(*ssa.If)
	if !ok {
		return false
	}
	cmp, ok := ifi.Cond.(*ssa.BinOp)
	if !ok {
		return false
	}
	_, c1 := cmp.X.(*ssa.Const)
	_, c2 := cmp.Y.(*ssa.Const)
	return c1 || c2
}

// sameAddress: two address expressions denote the same field of the same base.
func sameAddress(a, b ssa.Value) bool {
	if a == b {
		return true
	}
	fa, ok1 := a.(*ssa.FieldAddr)
	fb, ok2 := b.(*ssa.FieldAddr)
	return ok1 && ok2 && fa.Field == fb.Field && fa.X == fb.X
}

// condDependsOnTaint: some operand the condition is computed from (through φ,
// arithmetic, comparisons, extracts and conversions) is tainted.
func condDependsOnTaint(v ssa.Value, ts *taintSum, depth int) bool {
	if depth > 6 {
		return true // cannot tell: treat as dependent
	}
	if ts.vals[v] {
		return true
	}
	var ops []ssa.Value
	switch x := v.(type) {
	case *ssa.Phi:
		ops = x.Edges
	case *ssa.BinOp:
		ops = []ssa.Value{x.X, x.Y}
	case *ssa.UnOp:
		ops = []ssa.Value{x.X}
	case *ssa.Extract:
		ops = []ssa.Value{x.Tuple}
	case *ssa.Convert:
		ops = []ssa.Value{x.X}
	case *ssa.Call:
		for _, a := range x.Call.Args {
			ops = append(ops, a)
		}
	default:
		return false
	}
	for _, o := range ops {
		if o == v {
			continue
		}
		if _, isPhi := o.(*ssa.Phi); isPhi && depth > 2 {
			if ts.vals[o] {
				return true
			}
			continue
		}
		if condDependsOnTaint(o, ts, depth+1) {
			return true
		}
	}
	return false
}

// ---- A6: blocking ----

// c06Locks: a decode entry point returns only if it is not left waiting for a
// lock: every Lock / RLock of a sync.Mutex / RWMutex in decode-reachable code
// is released on every way out of the function — by a deferred Unlock on the
// same mutex registered right after it, or by an Unlock that every path from
// the Lock to a return passes. (A mutex that a return path leaves locked makes
// the next call of any function that takes it wait forever.)
func c06Locks(w *World, r *Recorder, reach map[*ssa.Function]bool, inScope func(*ssa.Function) bool) {
	isLockCall := func(c *ssa.CallCommon, names ...string) (ssa.Value, bool) {
		f := c.StaticCallee()
		if f == nil || f.Pkg == nil || f.Pkg.Pkg.Path() != "sync" || len(c.Args) == 0 {
			return nil, false
		}
		for _, n := range names {
			if f.Name() == n {
				return c.Args[0], true
			}
		}
		return nil, false
	}
	n := 0
	for _, fn := range sortedFuncs(reach) {
		if !inScope(fn) {
			continue
		}
		for _, b := range fn.Blocks {
			for idx, in := range b.Instrs {
				call, ok := in.(*ssa.Call)
				if !ok {
					continue
				}
				mu, isLock := isLockCall(&call.Call, "Lock", "RLock")
				if !isLock {
					continue
				}
				n++
				unlockName := "Unlock"
				if call.Call.StaticCallee().Name() == "RLock" {
					unlockName = "RUnlock"
				}
				key := fmt.Sprintf("%s#lock/%d", fnKey(fn), n)
				releases := func(i ssa.Instruction) bool {
					switch x := i.(type) {
					case *ssa.Call:
						m2, ok := isLockCall(&x.Call, unlockName)
						return ok && sameAddr(m2, mu)
					case *ssa.Defer:
						m2, ok := isLockCall(&x.Call, unlockName)
						return ok && sameAddr(m2, mu)
					}
					return false
				}
				// forward search from the Lock: a path that reaches a Return (or
				// panics) without a release
				type pos struct {
					b *ssa.BasicBlock
					i int
				}
				seen := map[*ssa.BasicBlock]bool{}
				var leak ssa.Instruction
				var walk func(p pos)
				walk = func(p pos) {
					if leak != nil {
						return
					}
					for j := p.i; j < len(p.b.Instrs); j++ {
						cur := p.b.Instrs[j]
						if releases(cur) {
							return
						}
						if _, isRet := cur.(*ssa.Return); isRet {
							leak = cur
							return
						}
					}
					for _, s := range p.b.Succs {
						if !seen[s] {
							seen[s] = true
							walk(pos{s, 0})
						}
					}
				}
				walk(pos{b, idx + 1})
				if leak != nil {
					r.Refute("C06-A6", key, w.InstrPos(leak), "a return is reachable with the mutex locked at "+w.InstrPos(call)+" still held: the next call that takes it never returns")
				} else {
					r.Prove("C06-A6", key, w.InstrPos(call), "released on every path to a return", true)
				}
			}
		}
	}
	r.Count("lock_sites", n)
	if n == 0 {
		r.Prove("C06-A6", "no-locks", "-", "no sync.Mutex / RWMutex is taken in decode-reachable code (nothing to wait for)", false)
	}
}

// ---- A7: work sized by a value ----

// c06ValueSizedWork: decode-reachable in-repo code does not hand input-derived
// values to library routines whose cost is governed by the VALUE of an operand
// rather than by the length of the input: arbitrary-precision arithmetic
// (math/big: a 9-byte "1e3000000" expands to megabytes of digits) and
// Repeat-style builders with a non-constant count. The decoders of this
// repository need neither.
func c06ValueSizedWork(w *World, r *Recorder, reach map[*ssa.Function]bool, inScope func(*ssa.Function) bool) {
	n := 0
	for _, fn := range sortedFuncs(reach) {
		if !inScope(fn) {
			continue
		}
		for _, b := range fn.Blocks {
			for _, in := range b.Instrs {
				ci, ok := in.(ssa.CallInstruction)
				if !ok {
					continue
				}
				f := ci.Common().StaticCallee()
				if f == nil {
					continue
				}
				pkg := ""
				if p := fnPkg(f); p != nil && p.Pkg != nil {
					pkg = p.Pkg.Path()
				} else if f.Object() != nil && f.Object().Pkg() != nil {
					pkg = f.Object().Pkg().Path()
				}
				bad := ""
				switch {
				case pkg == "math/big":
					bad = "arbitrary-precision arithmetic (" + f.String() + "): time and memory follow the magnitude of the number, not the length of the input"
				case (pkg == "strings" || pkg == "bytes") && f.Name() == "Repeat":
					if args := ci.Common().Args; len(args) == 2 {
						if _, isConst := args[1].(*ssa.Const); !isConst {
							bad = f.String() + " with a count that is not a constant"
						}
					}
				}
				if bad != "" {
					n++
					r.Refute("C06-A7", fmt.Sprintf("%s#%s", fnKey(fn), f.String()), w.InstrPos(in), "decode-reachable code calls a routine whose cost is sized by a value: "+bad)
				}
			}
		}
	}
	if n == 0 {
		r.Prove("C06-A7", "no-value-sized-work", "-", "no math/big call and no Repeat with a computed count in decode-reachable code", false)
	}
}
