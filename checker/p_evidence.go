package main

// C02, C03, C19, C20 — the COSE envelope handling in evidence.go, decided on
// the path summaries of Evidence.{Verify,Sign,ValidateAndSign,UnmarshalCOSE}
// and DecodeEvidenceFromCOSE (private helpers inlined).

import (
	"fmt"
	"go/constant"
	"go/types"
	"regexp"
	"strings"

	"golang.org/x/tools/go/ssa"
)

var (
	cNewMsg      = pCOSE + ".NewSign1Message"
	cUnmarshal   = "(*" + pCOSE + ".Sign1Message).UnmarshalCBOR"
	cSign        = "(*" + pCOSE + ".Sign1Message).Sign"
	cVerify      = "(*" + pCOSE + ".Sign1Message).Verify"
	cMarshalMsg  = "(*" + pCOSE + ".Sign1Message).MarshalCBOR"
	cAlg         = "(" + pCOSE + ".ProtectedHeader).Algorithm"
	cSetAlg      = "(" + pCOSE + ".ProtectedHeader).SetAlgorithm"
	cNewVerifier = pCOSE + ".NewVerifier"
	cSignerAlg   = "invoke " + pCOSE + ".Signer.Algorithm"
)

func init() {
	register("C02", checkC02)
	register("C03", checkC03)
	register("C19", checkC19)
	register("C20", checkC20)
}

func callsTo(p Path, callee string) []Event {
	var out []Event
	for _, ev := range p.St.events {
		if ev.Kind == "call" && ev.Callee == callee {
			out = append(out, ev)
		}
	}
	return out
}

func eventIndex(p Path, ev Event) int {
	for i, x := range p.St.events {
		if x.Instr == ev.Instr && x.Kind == ev.Kind && x.Depth == ev.Depth {
			return i
		}
	}
	return -1
}

func resultElem(ev Event, i int) AV {
	if ev.Result.Kind == KTuple {
		if i < len(ev.Result.Elems) {
			return ev.Result.Elems[i]
		}
		return AV{}
	}
	if i == 0 {
		return ev.Result
	}
	return AV{}
}

// emptyBytesWorld: set by the checks that use isEmptyBytes, for resolving
// package-level variables.
var emptyBytesWorld *World

func isEmptyBytes(a AV) bool {
	// a package-level variable that only its initialiser writes, whose address
	// is not taken and whose initial value has length 0 (nil, []byte(""), an
	// empty literal): no element exists that could be changed later
	if w := emptyBytesWorld; w != nil && strings.HasPrefix(a.name(), "g:") {
		for g, gi := range w.globals {
			n := "g:" + globalName(g)
			if a.name() != n && !strings.HasPrefix(a.name(), n+"@") {
				continue
			}
			if !gi.InitOnly || len(gi.AddrEscapes) > 0 || gi.InitVal == nil {
				return false
			}
			switch v := gi.InitVal.(type) {
			case *ssa.Const:
				return v.Value == nil
			case *ssa.Convert:
				c, ok := v.X.(*ssa.Const)
				return ok && c.Value != nil && c.Value.Kind() == constant.String && constant.StringVal(c.Value) == ""
			case *ssa.Slice:
				if al, ok := v.X.(*ssa.Alloc); ok {
					if arr, ok := al.Type().(*types.Pointer).Elem().Underlying().(*types.Array); ok {
						return arr.Len() == 0
					}
				}
			}
			return false
		}
	}
	switch a.Kind {
	case KNil:
		return true
	case KSeq:
		return len(a.Elems) == 0
	case KStr:
		return a.S == ""
	}
	return false
}

// evidenceMethod finds a method of the exported type Evidence.
func evidenceMethod(w *World, r *Recorder, rule, name string) (*ssa.Function, *Summary) {
	fn := w.findFunc("Evidence", name)
	if fn == nil {
		r.Undecide(rule, "Evidence."+name, "-", "method not found")
		return nil, nil
	}
	s := w.SummariseWith(fn, noInlineValidate(w))
	r.Count("paths", len(s.Paths))
	r.Count("engine_steps", s.Steps)
	if ok, why := s.Complete(); !ok {
		r.Undecide(rule, "Evidence."+name, w.FnPos(fn), why)
		return nil, nil
	}
	return fn, s
}

// messageWriters: C02-V5 / C19-Y5 — who may write Evidence.message.
func messageWriters(w *World, r *Recorder, rule string) {
	allowed := map[string]bool{"Sign": true, "ValidateAndSign": true, "UnmarshalCOSE": true}
	eff := w.Effects()
	n := 0
	for _, fn := range w.Funcs {
		ef := eff[fn]
		if ef == nil {
			continue
		}
		for _, site := range ef.Sites {
			if site.Field != "Evidence."+w.envelopeField() {
				continue
			}
			n++
			ok := fn.Signature.Recv() != nil && allowed[fn.Name()] && strings.Contains(fn.Signature.Recv().Type().String(), "Evidence")
			if !ok {
				// a private helper called only from the allowed methods
				ok = !ssaExported(fn) && calledOnlyFrom(w, fn, allowed)
			}
			r.Check(ok, rule, "writer-of-Evidence.message:"+fnKey(fn), w.InstrPos(site.Instr),
				"written only by the methods that start a sign or decode", fnKey(fn)+" writes Evidence.message outside Sign/ValidateAndSign/UnmarshalCOSE")
		}
	}
	r.Count("message_write_sites", n)
	if n < 1 {
		r.Undecide(rule, "writer-of-Evidence.message#count", "-", "no write site of Evidence.message found")
	}
}

// envelopeField: the field of Evidence that holds the COSE envelope, by
// role: its type is a pointer to go-cose's Sign1Message.
func (w *World) envelopeField() string {
	if w.envField != "" {
		return w.envField
	}
	w.envField = "message"
	if t := w.NamedType(w.Root, "Evidence"); t != nil {
		if st, ok := t.Underlying().(*types.Struct); ok {
			for i := 0; i < st.NumFields(); i++ {
				if strings.HasSuffix(st.Field(i).Type().String(), "go-cose.Sign1Message") {
					w.envField = st.Field(i).Name()
				}
			}
		}
	}
	return w.envField
}

func ssaExported(fn *ssa.Function) bool {
	n := fn.Name()
	return n != "" && n[0] >= 'A' && n[0] <= 'Z'
}

func calledOnlyFrom(w *World, fn *ssa.Function, allowed map[string]bool) bool {
	node := w.CallGraph().Nodes[fn]
	if node == nil || len(node.In) == 0 {
		return false
	}
	for _, in := range node.In {
		c := in.Caller.Func
		if c == fn {
			continue
		}
		if !(allowed[c.Name()] && c.Signature.Recv() != nil) {
			if ssaExported(c) || !calledOnlyFrom(w, c, allowed) {
				return false
			}
		}
	}
	return true
}

// ---------------------------------------------------------------- C02 ----

func checkC02(w *World, r *Recorder) propInfo {
	emptyBytesWorld = w
	info := propInfo{
		Explanation: "Decided part (all in-repo): on every path of Evidence.Verify that can return nil, (V1) ProtectedHeader.Algorithm was called on the *protected* bucket of e.message and returned a nil error, (V2) cose.NewVerifier was called with that algorithm and the caller's key and returned nil error, (V3) (*Sign1Message).Verify was called on e.message itself with that verifier and a zero-length external AAD and returned nil, (V4) e.message is non-nil; every failing call makes Verify fail. (V5) Evidence.message is written only by Sign / ValidateAndSign / UnmarshalCOSE (and private helpers reachable only from them). (V6) in UnmarshalCOSE the claims are decoded from the Payload field of the very message whose tagged UnmarshalCBOR consumed the caller's buffer. Not decided: unforgeability of the signature schemes, go-cose's Sig_structure construction, bit-level behaviour of the CBOR decoders — cryptographic and library facts outside static reach; go-cose's Verify is modelled from its source (error when payload is nil, signature empty, or algorithm absent). (V8) nothing reachable from the claims decoders writes the buffer they are given — UnmarshalCOSE hands them the envelope's own Payload slice.",
		Rule:        "one obligation per (rule, path) of Verify and per writer site; decided by the path engine over call events",
		Trusted:     []string{"go/types+go/ssa", "path engine", "model of go-cose v1.3.0-rc.1 Sign1Message.Verify/ProtectedHeader.Algorithm/NewVerifier", "cryptographic primitives (not analysed)"},
		Assumptions: []string{"go-cose verifies (protected, external AAD, payload) as RFC 9052 prescribes"},
	}
	fn, s := evidenceMethod(w, r, "C02-V", "Verify")
	if fn != nil {
		recv := fn.Params[0].Name()
		pk := fn.Params[1].Name()
		msg := recv + "." + w.envelopeField()
		ei := errIndex(fn)
		okPaths := 0
		for _, p := range s.Paths {
			if p.Ret == nil {
				continue
			}
			_, nl := errOf(p, ei)
			pkey := "Verify#" + c08PathKey(p)
			if nl == 1 {
				r.Prove("C02-V4", pkey, w.InstrPos(p.Ret), "failing path", false)
				continue
			}
			okPaths++
			// V4: message non-nil
			if b, ok := p.St.atoms["nil("+msg+")"]; !ok || b {
				r.Refute("C02-V4", pkey, w.InstrPos(p.Ret), "Verify can succeed without a message (no e.message != nil test on this path)")
				continue
			}
			// V1
			algs := callsTo(p, cAlg)
			if len(algs) != 1 || len(algs[0].Args) != 1 || algs[0].Args[0].name() != msg+".Headers.Protected" {
				got := "none"
				if len(algs) > 0 && len(algs[0].Args) > 0 {
					got = algs[0].Args[0].name()
				}
				r.Refute("C02-V1", pkey, w.InstrPos(p.Ret), fmt.Sprintf("algorithm is not taken (once) from %s.Headers.Protected (found: %s)", msg, got))
				continue
			}
			alg := resultElem(algs[0], 0)
			if p.St.NilOf(resultElem(algs[0], 1)) != -1 {
				r.Refute("C02-V1", pkey, w.InstrPos(algs[0].Instr), "Verify can succeed although ProtectedHeader.Algorithm returned an error")
				continue
			}
			r.Prove("C02-V1", pkey, w.InstrPos(algs[0].Instr), "alg := e.message.Headers.Protected.Algorithm(), error fatal", true)
			// V2
			nvs := callsTo(p, cNewVerifier)
			if len(nvs) != 1 || len(nvs[0].Args) != 2 || nvs[0].Args[0].name() != alg.name() || avSubject(nvs[0].Args[1]) != pk {
				r.Refute("C02-V2", pkey, w.InstrPos(p.Ret), "verifier is not built (once) from the protected-header algorithm and the caller's key")
				continue
			}
			if p.St.NilOf(resultElem(nvs[0], 1)) != -1 {
				r.Refute("C02-V2", pkey, w.InstrPos(nvs[0].Instr), "Verify can succeed although NewVerifier returned an error")
				continue
			}
			ver := resultElem(nvs[0], 0)
			r.Prove("C02-V2", pkey, w.InstrPos(nvs[0].Instr), "verifier bound to protected alg and caller's key, error fatal", true)
			// V3
			vs := callsTo(p, cVerify)
			switch {
			case len(vs) != 1 || len(vs[0].Args) != 3:
				r.Refute("C02-V3", pkey, w.InstrPos(p.Ret), "Verify can succeed without exactly one Sign1Message.Verify call")
			case vs[0].Args[0].name() != msg:
				r.Refute("C02-V3", pkey, w.InstrPos(vs[0].Instr), "Sign1Message.Verify is called on "+vs[0].Args[0].name()+", not on e.message")
			case !isEmptyBytes(vs[0].Args[1]):
				r.Refute("C02-V3", pkey, w.InstrPos(vs[0].Instr), "external AAD passed to Verify is not statically empty: "+vs[0].Args[1].name())
			case vs[0].Args[2].name() != ver.name():
				r.Refute("C02-V3", pkey, w.InstrPos(vs[0].Instr), "verifier passed to Verify is not the one built from the protected algorithm and the caller's key")
			case p.St.NilOf(vs[0].Result) != -1:
				r.Refute("C02-V3", pkey, w.InstrPos(vs[0].Instr), "Verify can return nil although Sign1Message.Verify returned an error")
			default:
				r.Prove("C02-V3", pkey, w.InstrPos(vs[0].Instr), "e.message.Verify(empty external, verifier)==nil required", true)
				r.Prove("C02-V4", pkey, w.InstrPos(p.Ret), "success only under message!=nil ∧ all three calls nil", true)
			}
		}
		if okPaths == 0 {
			r.Refute("C02-V4", "Verify#reachable-success", w.FnPos(fn), "Verify has no path that can succeed")
		}
		// Verify must not write the message or claims
		for _, p := range s.Paths {
			for _, ev := range p.St.events {
				if ev.Kind == "store" && strings.HasPrefix(ev.Loc, "P:"+recv) {
					r.Refute("C02-V5", "Verify#store:"+ev.Loc, w.InstrPos(ev.Instr), "Verify writes "+ev.Loc)
				}
			}
		}
	}
	messageWriters(w, r, "C02-V5")
	c20Payload(w, r, "C02-V6")
	// V7: what Verify checks after a decode is the envelope as go-cose decoded
	// it: UnmarshalCOSE leaves it 'decoded here' or fresh/nil, never modified
	// afterwards (the C19 typestate of UnmarshalCOSE run again under this
	// property — a payload, signature or header rewritten between decode and
	// verification changes what "the message carries")
	importRules(w, r, checkC19, "C02-V7", func(o *Oblig) bool {
		return (o.Rule == "C19-Y1" || o.Rule == "C19-Y2") && strings.HasPrefix(o.Construct, "UnmarshalCOSE#")
	})
	// V8: the payload bytes Verify checks are the bytes that were received:
	// UnmarshalCOSE hands the envelope's own Payload slice to the claims
	// decoder, so nothing reachable from the claims decoders may write the
	// buffer they are given (a decoder that "normalises" its input in place
	// turns an altered payload back into the signed one before verification)
	for _, n := range []string{"DecodeClaimsFromCBOR", "DecodeAndValidateClaimsFromCBOR", "DecodeClaimsFromJSON", "DecodeAndValidateClaimsFromJSON"} {
		fn := w.Root.Func(n)
		if fn == nil {
			r.Undecide("C02-V8", n, "-", "decoder not found")
			continue
		}
		c18NoWrites(w, r, "C02-V8", apiFunc{fn, n, true})
	}
	r.Floor("C02-V8", 4)
	auditCoseVerify(w, r, "C02-audit")
	auditCoseUnmarshal(w, r, "C02-audit")
	r.Floor("C02-V1", 1)
	r.Floor("C02-V2", 1)
	r.Floor("C02-V3", 1)
	r.Floor("C02-V4", 1)
	r.Floor("C02-V5", 1)
	r.Floor("C02-V6", 1)
	return info
}

var reEpoch = regexp.MustCompile(`@\d+(~\d+)?$`)

// c20Payload: in UnmarshalCOSE the claims decoder's argument is the Payload of
// the message that the tagged UnmarshalCBOR was invoked on with the caller's
// buffer (C02-V6 / C20-U2).
func c20Payload(w *World, r *Recorder, rule string) {
	fn, s := evidenceMethod(w, r, rule, "UnmarshalCOSE")
	if fn == nil {
		return
	}
	dec := w.Root.Func("DecodeClaimsFromCBOR")
	if dec == nil {
		r.Undecide(rule, "DecodeClaimsFromCBOR", "-", "not found")
		return
	}
	cwt := fn.Params[1].Name()
	ei := errIndex(fn)
	n := 0
	for _, p := range s.Paths {
		if p.Ret == nil {
			continue
		}
		if _, nl := errOf(p, ei); nl == 1 {
			continue
		}
		n++
		pkey := "UnmarshalCOSE#" + c08PathKey(p)
		us := callsTo(p, cUnmarshal)
		if len(us) != 1 || len(us[0].Args) != 2 || us[0].Args[1].name() != cwt || p.St.NilOf(us[0].Result) != -1 {
			r.Refute(rule, pkey, w.InstrPos(p.Ret), "success path without exactly one successful tagged Sign1Message.UnmarshalCBOR of the caller's whole buffer")
			continue
		}
		msg := us[0].Args[0].name()
		var decArg *AV
		decErrNil := false
		for _, ev := range p.St.events {
			if (ev.Kind == "enter" || ev.Kind == "call") && ev.Static == dec && len(ev.Args) == 1 {
				a := ev.Args[0]
				decArg = &a
				if ev.Kind == "call" {
					decErrNil = p.St.NilOf(resultElem(ev, 1)) == -1
				}
			}
			if ev.Kind == "leave" && ev.Static == dec && len(ev.Args) == 2 {
				decErrNil = p.St.NilOf(ev.Args[1]) == -1
			}
		}
		if decArg == nil {
			r.Refute(rule, pkey, w.InstrPos(p.Ret), "success path does not decode claims with DecodeClaimsFromCBOR")
			continue
		}
		if !decErrNil {
			r.Refute(rule, pkey, w.InstrPos(p.Ret), "UnmarshalCOSE can succeed although decoding the payload as claims returned an error")
			continue
		}
		r.Check(reEpoch.ReplaceAllString(decArg.name(), "") == msg+".Payload", rule, pkey, w.InstrPos(p.Ret),
			"claims decoded from "+msg+".Payload, the payload of the message just decoded",
			fmt.Sprintf("claims are decoded from %s, not from the Payload of the message the signature covers (%s.Payload)", decArg.name(), msg))
	}
	if n == 0 {
		r.Refute(rule, "UnmarshalCOSE#reachable-success", w.FnPos(fn), "no path that can succeed")
	}
}

// ---------------------------------------------------------------- C03 ----

func checkC03(w *World, r *Recorder) propInfo {
	emptyBytesWorld = w
	info := propInfo{
		Explanation: "Decided part: on every path of ValidateAndSign / Sign that can return a nil error, (S1) the value stored into the message's Payload is result 0 of the package encoder applied to the Evidence's own Claims (for ValidateAndSign inside ValidateAndEncodeClaimsToCBOR, i.e. after validation — C08), its error being fatal; (S2) SetAlgorithm is applied to the *protected* header of that same message with the result of signer.Algorithm() of the caller's signer, Sign is invoked on that message with that signer and a zero-length external AAD, and the token returned is result 0 of the *tagged* (*Sign1Message).MarshalCBOR of that message; (S3) payload store and SetAlgorithm precede Sign, Sign's nil result precedes MarshalCBOR, and every failing path returns a nil token; the message is the fresh one stored into the Evidence in this call. Together with C02-V6 (decode side) this is the structural half of the round trip. Not decided: byte identity of payloads and claim-for-claim equality after decoding (run-time equalities of library encoders/decoders; see C09/C10 for their structural parts), success of verification with the matching key (cryptography). S9: Sign / ValidateAndSign fail only after an error of a call made on the path, the missing-claims guard, or a guard on the algorithm identifier that excludes all seven supported identifiers.",
		Rule:        "one obligation per (rule, success path) of the two signing methods",
		Trusted:     []string{"go/types+go/ssa", "path engine", "model of go-cose Sign1Message.Sign/MarshalCBOR/SetAlgorithm"},
	}
	for _, name := range []string{"ValidateAndSign", "Sign"} {
		fn, s := evidenceMethod(w, r, "C03-S", name)
		if fn == nil {
			continue
		}
		recv := fn.Params[0].Name()
		signer := fn.Params[1].Name()
		ei := errIndex(fn)
		succ := 0
		for _, p := range s.Paths {
			if p.Ret == nil {
				continue
			}
			_, nl := errOf(p, ei)
			pkey := name + "#" + c08PathKey(p)
			if nl == 1 {
				r.Check(p.Rets[0].Kind == KNil, "C03-S3", pkey, w.InstrPos(p.Ret), "failing path returns a nil token", "a failing path returns a token: "+p.Rets[0].name())
				continue
			}
			succ++
			// the message of this call
			msg := ""
			msgIdx := -1
			for i, ev := range p.St.events {
				if ev.Kind == "store" && ev.Loc == "P:"+recv+"|."+w.envelopeField() {
					msg, msgIdx = ev.Val.name(), i
				}
			}
			news := callsTo(p, cNewMsg)
			if msg == "" || len(news) == 0 || news[len(news)-1].Result.name() != msg {
				r.Refute("C03-S2", pkey, w.InstrPos(p.Ret), "the envelope signed is not a fresh NewSign1Message() stored into the Evidence in this call")
				continue
			}
			// S1 payload
			var payload *Event
			payIdx := -1
			for i, ev := range p.St.events {
				if ev.Kind == "store" && ev.Loc == "P:"+msg+"|.Payload" {
					e := ev
					payload, payIdx = &e, i
				}
			}
			var enc *Event
			for _, ev := range p.St.events {
				if a, ok := isMarshalCall(ev); ok && strings.Contains(ev.Callee, "EncMode.Marshal") {
					_ = a
					e := ev
					enc = &e
				}
			}
			switch {
			case payload == nil:
				r.Refute("C03-S1", pkey, w.InstrPos(p.Ret), "no payload is stored into the message on a success path")
				continue
			case enc == nil:
				r.Refute("C03-S1", pkey, w.InstrPos(p.Ret), "the claims are not CBOR-encoded with the package encoder on a success path")
				continue
			case avSubject(enc.Args[0]) != recv+".Claims":
				r.Refute("C03-S1", pkey, w.InstrPos(enc.Instr), "the value encoded is "+avSubject(enc.Args[0])+", not the Evidence's own Claims")
				continue
			case payload.Val.name() != resultElem(*enc, 0).name():
				r.Refute("C03-S1", pkey, w.InstrPos(payload.Instr), "the payload stored ("+payload.Val.name()+") is not the encoder's output")
				continue
			case p.St.NilOf(resultElem(*enc, 1)) != -1:
				r.Refute("C03-S1", pkey, w.InstrPos(enc.Instr), "signing proceeds although encoding returned an error")
				continue
			}
			if enc.Recv == nil || enc.Recv.name() != "g:psatoken.em" {
				r.Refute("C03-S1", pkey, w.InstrPos(enc.Instr), "claims are not encoded with the package encode mode")
				continue
			}
			r.Prove("C03-S1", pkey, w.InstrPos(payload.Instr), "payload := em.Marshal(e.Claims), error fatal", true)
			// S2
			sa := callsTo(p, cSignerAlg)
			set := callsTo(p, cSetAlg)
			sg := callsTo(p, cSign)
			mc := callsTo(p, cMarshalMsg)
			switch {
			case len(sa) == 0 || sa[0].Recv == nil || sa[0].Recv.name() != signer:
				r.Refute("C03-S2", pkey, w.InstrPos(p.Ret), "the algorithm is not obtained from the caller's signer")
			case len(set) != 1 || len(set[0].Args) != 2 || set[0].Args[0].name() != msg+".Headers.Protected" || set[0].Args[1].name() != sa[0].Result.name():
				r.Refute("C03-S2", pkey, w.InstrPos(p.Ret), "SetAlgorithm(signer.Algorithm()) is not applied (once) to the protected header of the message being signed")
			case len(sg) != 1 || len(sg[0].Args) != 4 || sg[0].Args[0].name() != msg || sg[0].Args[3].name() != signer:
				r.Refute("C03-S2", pkey, w.InstrPos(p.Ret), "Sign is not invoked (once) on the message with the caller's signer")
			case !isEmptyBytes(sg[0].Args[2]):
				r.Refute("C03-S2", pkey, w.InstrPos(sg[0].Instr), "external AAD passed to Sign is not statically empty: "+sg[0].Args[2].name())
			case p.St.NilOf(sg[0].Result) != -1:
				r.Refute("C03-S3", pkey, w.InstrPos(sg[0].Instr), "a token can be returned although Sign returned an error")
			case len(mc) != 1 || mc[0].Args[0].name() != msg || p.Rets[0].name() != resultElem(mc[0], 0).name():
				r.Refute("C03-S2", pkey, w.InstrPos(p.Ret), "the token returned is not the tagged MarshalCBOR of the signed message")
			case p.St.NilOf(resultElem(mc[0], 1)) != -1 && !(nl == 0 && p.Rets[ei].name() == resultElem(mc[0], 1).name()):
				// (both results of MarshalCBOR handed on unchanged is fine: go-cose
				// returns nil bytes with every error — model fact, audited in the
				// thorough tier by auditCoseMarshal)
				r.Refute("C03-S3", pkey, w.InstrPos(mc[0].Instr), "a token can be returned although MarshalCBOR returned an error")
			default:
				r.Prove("C03-S2", pkey, w.InstrPos(sg[0].Instr), "alg→protected header, Sign(empty external, signer), tagged marshal of the same message", true)
				// S3 order
				iSet, iSign, iMar := eventIndex(p, set[0]), eventIndex(p, sg[0]), eventIndex(p, mc[0])
				ok := msgIdx < payIdx && payIdx < iSign && iSet < iSign && iSign < iMar
				r.Check(ok, "C03-S3", pkey, w.InstrPos(sg[0].Instr), "reset < payload store, SetAlgorithm < Sign < MarshalCBOR",
					fmt.Sprintf("order violated: reset@%d payload@%d setalg@%d sign@%d marshal@%d", msgIdx, payIdx, iSet, iSign, iMar))
				// nothing writes the message between Sign and MarshalCBOR
				for _, ev := range p.St.events[iSign+1 : iMar] {
					if ev.Kind == "store" && strings.HasPrefix(ev.Loc, "P:"+msg) {
						r.Refute("C03-S3", pkey+"#post-sign-store", w.InstrPos(ev.Instr), "the message is modified after signing: "+ev.Loc)
					}
				}
			}
		}
		if succ == 0 {
			r.Refute("C03-S2", name+"#reachable-success", w.FnPos(fn), "no path that can succeed")
		}
	}
	// decode side: the claims exposed by a decoded Evidence are the decoding of
	// the payload the signature covers
	c20Payload(w, r, "C03-S4")
	if fn, s := evidenceMethod(w, r, "C03-S4", "UnmarshalCOSE"); fn != nil {
		recv := fn.Params[0].Name()
		for _, p := range s.Paths {
			if p.Ret == nil {
				continue
			}
			if _, nl := errOf(p, errIndex(fn)); nl == 1 {
				continue
			}
			st, _, claimsStore := envelopeState(w, p, recv)
			c19Claims(w, r, fn, p, "UnmarshalCOSE#"+c08PathKey(p), st, claimsStore, false)
		}
	}
	remapRule(r, "C19-Y4", "C03-S4")
	// S8: decoding the token gives back the claims, claim for claim: the claims
	// and component decoders are the inverse-shaped twins of the encoders (the
	// C09 shape rules I1 / I1c / I2 run again under this property)
	importRules(w, r, checkC09, "C03-S8", func(o *Oblig) bool { return o.Rule == "C09-I1" || o.Rule == "C09-I1c" || o.Rule == "C09-I2" })
	auditCoseSign(w, r, "C03-audit")
	auditCoseMarshal(w, r, "C03-audit")
	// S6: verification with the matching key succeeds only if Verify rejects
	// nothing that go-cose has not rejected: every failing path of Verify is
	// the missing-envelope guard or follows a non-nil error of one of the three
	// library calls (algorithm of the protected header, NewVerifier, Verify)
	if fn, s := evidenceMethod(w, r, "C03-S", "Verify"); fn != nil {
		recv := fn.Params[0].Name()
		n := 0
		for _, p := range s.Paths {
			if p.Ret == nil {
				continue
			}
			if _, nl := errOf(p, 0); nl != 1 {
				continue
			}
			n++
			pkey := "Verify#fails:" + c08PathKey(p)
			ok := false
			if b, has := p.St.atoms["nil("+recv+"."+w.envelopeField()+")"]; has && b {
				ok = true
			}
			for _, callee := range []string{cAlg, cNewVerifier, cVerify} {
				for _, ev := range callsTo(p, callee) {
					res := ev.Result
					if res.Kind == KTuple && len(res.Elems) > 0 {
						res = res.Elems[len(res.Elems)-1]
					}
					if p.St.NilOf(res) == 1 {
						ok = true
					}
				}
			}
			// an envelope whose protected header is empty carries no algorithm:
			// go-cose's Algorithm() fails on it (model table) and no token this
			// library signs looks like that (doSign sets the algorithm there)
			for t, set := range p.St.terms {
				if strings.HasPrefix(t, "len("+recv+"."+w.envelopeField()+".Headers.Protected") && set.equal(iset{{0, 0}}) {
					ok = true
				}
			}
			// an envelope without payload or with an empty signature is what
			// go-cose's own Verify rejects first (ErrMissingPayload /
			// ErrEmptySignature; audited from its source in the thorough tier): a
			// guard that fails on exactly these states refuses nothing go-cose
			// would have accepted, and no token this library signs looks like that
			if b, has := p.St.atoms["nil("+recv+"."+w.envelopeField()+".Payload)"]; has && b {
				ok = true
			}
			if set, has := p.St.terms["len("+recv+"."+w.envelopeField()+".Signature)"]; has && set.equal(iset{{0, 0}}) {
				ok = true
			}
			r.Check(ok, "C03-S6", pkey, w.InstrPos(p.Ret), "failure follows a go-cose error (or the missing-envelope / empty-protected-header guard)",
				"Verify returns an error although none of go-cose's calls has failed on this path: a correctly signed token can be refused (verification with the matching key must succeed)")
		}
		if n == 0 {
			r.Refute("C03-S6", "Verify#fails", w.FnPos(fn), "Verify has no failing path at all")
		}
	}
	// S9: signing with a supported algorithm and a valid claims-set produces a
	// token: Sign / ValidateAndSign fail only where a call they made (Validate,
	// the claims encoder, go-cose's Sign / MarshalCBOR) returned an error or no
	// claims are attached. A failing path that follows none of these is a guard
	// on the signer's algorithm identifier; it must exclude all seven supported
	// identifiers (ES256/384/512, EdDSA, PS256/384/512), or be the library's
	// own verdict on the identifier's name (strings.Contains on alg.String()
	// with a literal that occurs in none of the seven names).
	for _, name := range []string{"Sign", "ValidateAndSign"} {
		fn, sm := evidenceMethod(w, r, "C03-S", name)
		if fn == nil {
			continue
		}
		recv := fn.Params[0].Name()
		supported := []int64{-7, -35, -36, -8, -37, -38, -39}
		names := []string{"ES256", "ES384", "ES512", "EdDSA", "PS256", "PS384", "PS512"}
		for _, p := range sm.Paths {
			if p.Ret == nil {
				continue
			}
			if _, nl := errOf(p, errIndex(fn)); nl != 1 {
				continue
			}
			pkey := name + "#fails:" + c08PathKey(p)
			ok := false
			why := ""
			if b, has := p.St.atoms["nil("+recv+".Claims)"]; has && b {
				ok = true
			}
			for _, ev := range p.St.events {
				if ev.Kind != "call" {
					continue
				}
				ci, isCall := ev.Instr.(ssa.CallInstruction)
				if !isCall {
					continue
				}
				rs := ci.Common().Signature().Results()
				if rs.Len() == 0 || !isErrorType(rs.At(rs.Len()-1).Type()) {
					continue
				}
				if cn := calleeName(ci.Common()); cn == "errors.New" || cn == "fmt.Errorf" {
					continue // building the error to return is not a failed call
				}
				res := ev.Result
				if res.Kind == KTuple && len(res.Elems) > 0 {
					res = res.Elems[len(res.Elems)-1]
				}
				if p.St.NilOf(res) == 1 {
					ok = true
				}
			}
			if !ok {
				// a guard on the algorithm identifier
				for a, b := range p.St.atoms {
					if b && strings.HasPrefix(a, "strings.Contains((go-cose.Algorithm).String(") {
						lit := a[strings.LastIndex(a, ",")+1:]
						lit = strings.Trim(strings.TrimSuffix(lit, ")"), "\"")
						hit := lit == ""
						for _, n := range names {
							if lit != "" && strings.Contains(n, lit) {
								hit = true
							}
						}
						if !hit {
							ok = true
						} else {
							why = "the name guard " + a + " matches a supported algorithm's name"
						}
					}
				}
			}
			if !ok {
				algSeen := false
				excluded := true
				for t, set := range p.St.terms {
					if strings.HasPrefix(t, "go-cose.Signer.Algorithm(") && !strings.Contains(t, "#") {
						algSeen = true
						for _, id := range supported {
							taken := set.contains(id)
							// offsets computed from the identifier, (K-alg): the path
							// constrains them, which constrains the identifier
							for t2, set2 := range p.St.terms {
								if strings.HasPrefix(t2, "(") && strings.HasSuffix(t2, "-"+t+")") {
									if k, err := parseInt(t2[1 : len(t2)-len(t)-2]); err == nil && !set2.contains(k-id) {
										taken = false
									}
								}
							}
							if taken {
								excluded = false
								why = fmt.Sprintf("the path is taken with algorithm identifier %d (%s ∈ %s)", id, t, set)
							}
						}
					}
				}
				if algSeen && excluded {
					ok = true
				}
			}
			r.Check(ok, "C03-S9", pkey, w.InstrPos(p.Ret), "failure follows an error of a call made on the path, the missing-claims guard, or a guard that excludes every supported algorithm",
				name+" fails although nothing it called has failed: a valid claims-set and a supported signer do not produce a token ("+why+")")
		}
	}
	r.Floor("C03-S9", 2)
	// S5: the payload kept in the signing Evidence and the token returned are fresh memory (a reused buffer would let a later encode change the signed payload)
	for _, n := range []string{"EncodeClaimsToCBOR", "ValidateAndEncodeClaimsToCBOR"} {
		if fn := w.Root.Func(n); fn != nil {
			ruleResultFresh(w, r, "C03-S5", fn, n, 0)
		}
	}
	for _, n := range []string{"Sign", "ValidateAndSign"} {
		if fn := w.findFunc("Evidence", n); fn != nil {
			ruleResultFresh(w, r, "C03-S5", fn, "Evidence."+n, 0)
		}
	}
	r.Floor("C03-S4", 1)
	r.Floor("C03-S1", 2)
	r.Floor("C03-S2", 2)
	r.Floor("C03-S3", 2)
	return info
}

// ---------------------------------------------------------------- C19 ----

// envelopeState replays a path's events and returns the abstract state of
// the Evidence's envelope at the return.
func envelopeState(w *World, p Path, recv string) (state, msg string, claimsStore *Event) {
	state = "stale"
	headersTouched := false
	for _, ev := range p.St.events {
		ev := ev
		switch {
		case ev.Kind == "store" && ev.Loc == "P:"+recv+"|."+w.envelopeField():
			switch {
			case ev.Val.Kind == KNil:
				state, msg = "nil", ""
			case strings.HasPrefix(ev.Val.name(), "fresh:Sign1Message"):
				state, msg = "fresh-unsigned", ev.Val.name()
				headersTouched = false
			default:
				state, msg = "other("+ev.Val.name()+")", ev.Val.name()
			}
		case ev.Kind == "store" && ev.Loc == "P:"+recv+"|.Claims":
			claimsStore = &ev
		case ev.Kind == "store" && msg != "" && strings.HasPrefix(ev.Loc, "P:"+msg+"|"):
			if strings.HasPrefix(ev.Loc, "P:"+msg+"|.Headers") {
				headersTouched = true
			}
			if state == "signed-here" || state == "decoded-here" {
				state = "modified-after-" + state
			}
		case ev.Kind == "call" && ev.Callee == cSign && len(ev.Args) > 0 && ev.Args[0].name() == msg && msg != "":
			switch p.St.NilOf(ev.Result) {
			case -1:
				if state == "fresh-unsigned" {
					state = "signed-here"
				} else {
					state = "sign-on-" + state
				}
			case 0:
				state = "maybe-signed"
			}
		case ev.Kind == "call" && ev.Callee == cUnmarshal && len(ev.Args) > 0 && ev.Args[0].name() == msg && msg != "":
			switch p.St.NilOf(ev.Result) {
			case -1:
				if state == "fresh-unsigned" {
					state = "decoded-here"
				} else {
					state = "decode-on-" + state
				}
			case 0:
				state = "maybe-decoded"
			}
		case ev.Kind == "call" && ev.Callee == cMarshalMsg && len(ev.Args) > 0 && ev.Args[0].name() == msg && msg != "":
			// Model lemma (go-cose v1.3.0-rc.1 sign1.go getContent, headers.go marshal /
			// UnprotectedHeader.MarshalCBOR): for a message made by NewSign1Message in this
			// call whose headers were touched only by SetAlgorithm and whose Sign succeeded,
			// MarshalCBOR fails only if the signer produced an empty signature — and then
			// Verify fails as well (ErrEmptySignature).
			if state == "signed-here" && !headersTouched && p.St.NilOf(resultElem(ev, 1)) == 1 {
				state = "signed-empty"
			}
		case ev.Kind == "call" && msg != "" && ev.Callee != cSetAlg && ev.Callee != cAlg && c19TakesHeaders(ev, msg):
			headersTouched = true
		case ev.Kind == "call" && ev.Unmodelled && msg != "":
			for _, a := range ev.Args {
				if a.name() == msg {
					state = "unknown(after " + ev.Callee + ")"
				}
			}
		}
	}
	return
}

func checkC19(w *World, r *Recorder) propInfo {
	info := propInfo{
		Explanation: "Typestate of Evidence.message decided per path of Sign, ValidateAndSign and UnmarshalCOSE (private helpers inlined): states {stale (value on entry), fresh-unsigned (store of cose.NewSign1Message()), nil, signed-here (nil result of Sign on the fresh message), decoded-here (nil result of the tagged UnmarshalCBOR on it), modified-after-*}. Y1: every return with a non-nil error leaves the envelope fresh-unsigned or nil — for UnmarshalCOSE also decoded-here provided the claims are nil there; Y2: every return with a nil error leaves it signed-here resp. decoded-here, never stale; Y3: failing sign operations return a nil token; Y4: in UnmarshalCOSE the claims field is overwritten with result 0 of the claims decoder (nil on its error paths, shown on the decoder's own summary); Y5: nothing else writes the message. With the model 'Verify fails on a fresh-unsigned or nil envelope' (go-cose: empty signature ⇒ error) this yields: failed attempt ⇒ no token and verification fails until the next success; each attempt starts from a fresh envelope, so a failed attempt cannot poison a later one and two signings are independent. Not decided: histories in which the caller mutates the exported Claims field or the claims object between operations (excluded by the statement), the behaviour of signer implementations. Y13: Verify returns nil only where the one Sign1Message.Verify call on the Evidence's envelope returned nil (C02-V3 under this property). Y14: the map length header of the embedding-aware serialiser follows the CBOR table for every entry count (C15-H1 under this property).",
		Rule:        "one obligation per (method, path); decided by replaying the path's store/call events",
		Trusted:     []string{"go/types+go/ssa", "path engine", "model: NewSign1Message has an empty signature; Sign sets it only on success; UnmarshalCBOR replaces *m only on success; Verify fails on an empty signature"},
	}
	for _, name := range []string{"Sign", "ValidateAndSign", "UnmarshalCOSE"} {
		fn, s := evidenceMethod(w, r, "C19-Y", name)
		if fn == nil {
			continue
		}
		recv := fn.Params[0].Name()
		ei := errIndex(fn)
		for _, p := range s.Paths {
			if p.Ret == nil {
				continue
			}
			_, nl := errOf(p, ei)
			st, _, claimsStore := envelopeState(w, p, recv)
			pkey := name + "#" + c08PathKey(p)
			failing := nl == 1
			if failing {
				ok := st == "fresh-unsigned" || st == "nil" || st == "signed-empty"
				if name == "UnmarshalCOSE" && st == "decoded-here" {
					ok = claimsStore != nil && claimsStore.Val.Kind == KNil
				}
				r.Check(ok, "C19-Y1", pkey, w.InstrPos(p.Ret), "failing return leaves the envelope "+st,
					"a failing "+name+" leaves the envelope in state '"+st+"' (must be fresh-unsigned or nil, so that Verify fails until the next success)")
				if name != "UnmarshalCOSE" {
					r.Check(p.Rets[0].Kind == KNil, "C19-Y3", pkey, w.InstrPos(p.Ret), "nil token on failure", "a failing "+name+" returns a token: "+p.Rets[0].name())
				}
			} else {
				want := "signed-here"
				if name == "UnmarshalCOSE" {
					want = "decoded-here"
				}
				r.Check(st == want, "C19-Y2", pkey, w.InstrPos(p.Ret), "successful return leaves the envelope "+st,
					"a "+name+" that may succeed leaves the envelope in state '"+st+"', expected '"+want+"'")
			}
			if name == "UnmarshalCOSE" {
				c19Claims(w, r, fn, p, pkey, st, claimsStore, failing)
			}
		}
	}
	// the claims decoder returns nil claims on every failing path
	if dec := w.Root.Func("DecodeClaimsFromCBOR"); dec != nil {
		s := w.Summarise(dec)
		if ok, why := s.Complete(); !ok {
			r.Undecide("C19-Y4", "DecodeClaimsFromCBOR", w.FnPos(dec), why)
		} else {
			for _, p := range s.Paths {
				if p.Ret == nil {
					continue
				}
				if _, nl := errOf(p, 1); nl == 1 {
					r.Check(p.Rets[0].Kind == KNil, "C19-Y4", "DecodeClaimsFromCBOR#"+c08PathKey(p), w.InstrPos(p.Ret), "nil claims with the error", "the claims decoder returns claims together with an error: "+p.Rets[0].name())
				}
			}
		}
	} else {
		r.Undecide("C19-Y4", "DecodeClaimsFromCBOR", "-", "not found")
	}
	messageWriters(w, r, "C19-Y5")
	auditCoseSign(w, r, "C19-audit")
	auditCoseVerify(w, r, "C19-audit")
	auditCoseUnmarshal(w, r, "C19-audit")
	r.Floor("C19-Y1", 3)
	r.Floor("C19-Y2", 3)
	r.Floor("C19-Y3", 2)
	r.Floor("C19-Y4", 2)
	// Y6: two signings give two independent tokens — the token returned is
	// fresh memory, not a buffer the Evidence (or the package) keeps and reuses
	for _, name := range []string{"Sign", "ValidateAndSign"} {
		if fn := w.findFunc("Evidence", name); fn != nil {
			ruleResultFresh(w, r, "C19-Y6", fn, "Evidence."+name, 0)
		}
	}
	// Y7: the payload a signature covers is a faithful encoding of the attached
	// claims: the custom marshallers change nothing in the encoded copy beyond
	// nil-ing an empty component container (C09-I1)
	importRules(w, r, checkC09, "C19-Y7", func(o *Oblig) bool { return o.Rule == "C09-I1" })
	// Y8: a token this library signs is one it can decode ("equal to the
	// decoding of the payload", "two independently valid tokens"): the decoder
	// mode must accept every encoding the encoder can produce. Limits below the
	// library defaults are violations; the defaults themselves are the known
	// finding D9 seen from this property.
	ruleOptions(w, r, "C19-Y8", "DecOptions", "own-encodings")
	// Y10: "a failed attempt does not prevent a later successful one": whether
	// Verify fails depends on the envelope alone — every failing path follows a
	// go-cose error or the missing-envelope guard (C03-S6 run again under this
	// property), not some other state an earlier operation left in the Evidence
	importRules(w, r, checkC03, "C19-Y10", func(o *Oblig) bool { return o.Rule == "C03-S6" })
	// Y13: "after a failed signing attempt verification fails": the envelope a
	// failed attempt leaves (Y1: fresh and unsigned) is rejected only by go-cose
	// (ErrEmptySignature), so Verify may return nil only where the one
	// Sign1Message.Verify call on e.message returned nil — a Verify that maps
	// some of go-cose's errors and lets the others fall through succeeds on the
	// unsigned envelope (C02-V3 run again under this property)
	importRules(w, r, checkC02, "C19-Y13", func(o *Oblig) bool { return o.Rule == "C02-V3" })
	// Y11: the attached claims of a decoded Evidence are the decoding of the
	// payload and nothing more: the claims decoders are twins of the encoders
	// and clear the pre-populated profile before decoding (C09-I1 / I1c / I2) — a
	// decoder that keeps a default for an absent claim attaches claims the
	// verified payload does not carry
	importRules(w, r, checkC09, "C19-Y11", func(o *Oblig) bool { return o.Rule == "C09-I2" || o.Rule == "C09-I1c" })
	// Y9: for claims of an extension profile the payload signed comes from the
	// embedding-aware serialiser: it may leave a field out only under the C15-H4
	// conditions (a present claim silently dropped from the signed payload makes
	// the attached claims differ from the decoding of what was signed)
	for _, n := range []string{"doSerializeStructToCBOR"} {
		sub := NewRecorder(r.Property)
		c15Walker(w, sub, n)
		remap(r, sub, map[string]string{"C15-H4": "C19-Y9"})
	}
	// Y14: … and the payload it signs is a well-formed map: the length header
	// the serialiser writes follows the CBOR table for every entry count (a
	// header that disagrees at one count — 24 entries written with the 23-entry
	// form — gives a token that signs and verifies but whose payload does not
	// decode, so the attached claims are not the decoding of what was signed)
	if sf := w.encMapType("CBOR"); sf != nil {
		sub := NewRecorder(r.Property)
		c15Writer(w, sub, sf)
		remap(r, sub, map[string]string{"C15-H1": "C19-Y14"})
	}
	// Y12: … and the plain encoder flattens an embedded base profile into the
	// extension's map only as long as the base type's own codec methods are the
	// known ones (a promoted MarshalCBOR signs the embedded part alone)
	ruleCodecMethodSets(w, r, "C19-Y12")
	r.Floor("C19-Y5", 1)
	return info
}

func c19Claims(w *World, r *Recorder, fn *ssa.Function, p Path, pkey, st string, claimsStore *Event, failing bool) {
	dec := w.Root.Func("DecodeClaimsFromCBOR")
	if st != "decoded-here" {
		return // envelope cannot verify; claims are irrelevant for the binding
	}
	if claimsStore == nil {
		r.Refute("C19-Y4", pkey, w.InstrPos(p.Ret), "the envelope was replaced by the decoded one but the claims were not overwritten (stale claims could verify)")
		return
	}
	// value stored must be result 0 of the claims decoder of this call
	var res *AV
	for _, ev := range p.St.events {
		if ev.Static == dec && ev.Kind == "leave" && len(ev.Args) > 0 {
			a := ev.Args[0]
			res = &a
		}
		if ev.Static == dec && ev.Kind == "call" {
			a := resultElem(ev, 0)
			res = &a
		}
	}
	if res == nil {
		r.Refute("C19-Y4", pkey, w.InstrPos(p.Ret), "claims are stored but not obtained from DecodeClaimsFromCBOR in this call")
		return
	}
	r.Check(claimsStore.Val.name() == res.name(), "C19-Y4", pkey, w.InstrPos(claimsStore.Instr),
		"claims := result of the payload decode ("+res.name()+")", "claims stored ("+claimsStore.Val.name()+") are not the result of decoding the payload ("+res.name()+")")
}

// ---------------------------------------------------------------- C20 ----

func checkC20(w *World, r *Recorder) propInfo {
	regName := "psatoken.profilesRegister"
	if g := registerGlobal(w); g != nil {
		regName = regMemName(g)
	}
	info := propInfo{
		Explanation: "Decided part: (U1) every path of Evidence.UnmarshalCOSE that can succeed contains exactly one call of the *tagged* (*cose.Sign1Message).UnmarshalCBOR — no other go-cose decode entry (UntaggedSign1Message, SignMessage, …) appears on any path — applied to the caller's whole, unsliced buffer, with a nil result; its failure makes the method fail; (U2) the claims are then decoded with DecodeClaimsFromCBOR from that message's Payload and a decode error makes the method fail; DecodeEvidenceFromCOSE returns a nil Evidence on every failing path; (U3) DecodeClaimsFromCBOR succeeds only after the package decode mode decoded the payload into the profile-selector struct and into the claims object, both with nil error, and the profile was found in the register. Thorough tier: audit of the pinned go-cose source for the tag-18 prefix test, 4-element typed array, and empty-signature rejection. Not decided: the CBOR library's rejection of each malformed form (a library fact).",
		Rule:        "one obligation per (rule, path)",
		Trusted:     []string{"go/types+go/ssa", "path engine", "go-cose v1.3.0-rc.1 Sign1Message.UnmarshalCBOR (prefix d2 84, typed 4-array, tags forbidden, trailing bytes and empty signature rejected)", "fxamacker/cbor v2.5.0 decoding into a struct rejects non-map input"},
	}
	fn, s := evidenceMethod(w, r, "C20-U1", "UnmarshalCOSE")
	if fn != nil {
		cwt := fn.Params[1].Name()
		ei := errIndex(fn)
		for _, p := range s.Paths {
			if p.Ret == nil {
				continue
			}
			pkey := "UnmarshalCOSE#" + c08PathKey(p)
			// no foreign decode entry on any path
			for _, ev := range p.St.events {
				if ev.Kind == "call" && strings.Contains(ev.Callee, pCOSE) && strings.Contains(ev.Callee, "Unmarshal") && ev.Callee != cUnmarshal {
					r.Refute("C20-U1", pkey+"#foreign:"+shortName(ev.Callee), w.InstrPos(ev.Instr), "a COSE decode entry other than the tagged Sign1Message.UnmarshalCBOR is used: "+ev.Callee)
				}
			}
			_, nl := errOf(p, ei)
			us := callsTo(p, cUnmarshal)
			if nl == 1 {
				r.Prove("C20-U1", pkey, w.InstrPos(p.Ret), "failing path", false)
				continue
			}
			switch {
			case len(us) != 1:
				r.Refute("C20-U1", pkey, w.InstrPos(p.Ret), fmt.Sprintf("a path that can succeed has %d tagged UnmarshalCBOR calls (want exactly 1)", len(us)))
			case us[0].Args[1].name() != cwt:
				r.Refute("C20-U1", pkey, w.InstrPos(us[0].Instr), "the tagged decoder is given "+us[0].Args[1].name()+", not the caller's whole buffer")
			case p.St.NilOf(us[0].Result) != -1:
				r.Refute("C20-U1", pkey, w.InstrPos(us[0].Instr), "UnmarshalCOSE can succeed although the tagged COSE_Sign1 decode failed")
			default:
				r.Prove("C20-U1", pkey, w.InstrPos(us[0].Instr), "tagged Sign1Message.UnmarshalCBOR(cwt)==nil required", true)
			}
		}
	}
	c20Payload(w, r, "C20-U2")
	// U2b: DecodeEvidenceFromCOSE and the validating variant return nil evidence on failure
	for _, name := range []string{"DecodeEvidenceFromCOSE", "DecodeAndValidateEvidenceFromCOSE"} {
		f := w.Root.Func(name)
		if f == nil {
			r.Undecide("C20-U2", name, "-", "not found")
			continue
		}
		sm := w.SummariseWith(f, noInlineValidate(w))
		if ok, why := sm.Complete(); !ok {
			r.Undecide("C20-U2", name, w.FnPos(f), why)
			continue
		}
		um := w.findFunc("Evidence", "UnmarshalCOSE")
		for _, p := range sm.Paths {
			if p.Ret == nil {
				continue
			}
			pkey := name + "#" + c08PathKey(p)
			if _, nl := errOf(p, 1); nl == 1 {
				r.Check(p.Rets[0].Kind == KNil, "C20-U2", pkey, w.InstrPos(p.Ret), "nil evidence with the error", "an Evidence is returned together with an error")
				continue
			}
			// success requires UnmarshalCOSE on the returned object with the caller's buffer
			found := false
			for _, ev := range p.St.events {
				if ev.Kind == "enter" && ev.Static == um && len(ev.Args) == 2 && ev.Args[0].name() == p.Rets[0].name() && ev.Args[1].name() == f.Params[0].Name() {
					found = true
				}
			}
			r.Check(found, "C20-U2", pkey, w.InstrPos(p.Ret), "evidence returned is the object UnmarshalCOSE(buf) populated", "success path does not go through UnmarshalCOSE on the returned Evidence with the caller's buffer")
		}
	}
	// U3
	if dec := w.Root.Func("DecodeClaimsFromCBOR"); dec == nil {
		r.Undecide("C20-U3", "DecodeClaimsFromCBOR", "-", "not found")
	} else {
		sm := w.Summarise(dec)
		if ok, why := sm.Complete(); !ok {
			r.Undecide("C20-U3", "DecodeClaimsFromCBOR", w.FnPos(dec), why)
		} else {
			buf := dec.Params[0].Name()
			for _, p := range sm.Paths {
				if p.Ret == nil {
					continue
				}
				if _, nl := errOf(p, 1); nl == 1 {
					continue
				}
				pkey := "DecodeClaimsFromCBOR#" + c08PathKey(p)
				var dms []Event
				for _, ev := range p.St.events {
					if ev.Kind == "call" && strings.HasSuffix(ev.Callee, "cbor/v2.DecMode.Unmarshal") {
						dms = append(dms, ev)
					}
				}
				ok := len(dms) == 2
				why := fmt.Sprintf("%d decode calls on a success path (want: selector, then claims)", len(dms))
				if ok {
					for _, d := range dms {
						if d.Recv == nil || d.Recv.name() != "g:psatoken.dm" || d.Args[0].name() != buf || p.St.NilOf(d.Result) != -1 {
							ok = false
							why = "a decode call does not use the package decode mode on the caller's buffer with a fatal error"
						}
					}
				}
				if ok && avSubject(dms[1].Args[1]) != avSubject(p.Rets[0]) {
					ok = false
					why = "the object returned is not the one the buffer was decoded into"
				}
				hasOK := false
				for a, b := range p.St.atoms {
					if strings.HasPrefix(a, "ok:lookup(g:"+regName) && b {
						hasOK = true
					}
				}
				if ok && !hasOK {
					ok = false
					why = "success does not require the declared profile to be found in the register"
				}
				r.Check(ok, "C20-U3", pkey, w.InstrPos(p.Ret), "selector decode, register lookup ok, claims decode — all fatal", why)
			}
		}
	}
	// U4: "the payload is itself a decodable claims map" is decided by the
	// claims types' own unmarshallers, which the codec calls back: each fails
	// exactly when its inner decode fails (C09-I2 run again under this property)
	importRules(w, r, checkC09, "C20-U4", func(o *Oblig) bool { return o.Rule == "C09-I2" })
	auditCoseUnmarshal(w, r, "C20-audit")
	r.Floor("C20-U1", 1)
	r.Floor("C20-U2", 3)
	r.Floor("C20-U3", 1)
	return info
}

func c19TakesHeaders(ev Event, msg string) bool {
	for _, a := range ev.Args {
		if strings.HasPrefix(a.name(), msg+".Headers") {
			return true
		}
	}
	return false
}

// remapRule renames the rule of obligations recorded by a shared helper.
func remapRule(r *Recorder, from, to string) {
	for _, o := range r.Obs {
		if o.Rule == from {
			delete(r.seen, o.Key())
			o.Rule = to
			r.seen[o.Key()] = o
		}
	}
}
