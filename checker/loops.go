package main

// Slice-walk recognition on SSA (range loops and canonical index loops) and
// the "validating walk" rule used for the component containers: every
// element of the walked slice is validated in every iteration, a failing
// element leaves the function with an error, and success is only reachable
// through the loop's normal exit.

import (
	"fmt"
	"go/constant"
	"go/token"
	"go/types"

	"golang.org/x/tools/go/ssa"
)

type SliceLoop struct {
	Header, Body, Done *ssa.BasicBlock
	Idx                ssa.Value // index value used inside the body
	S                  ssa.Value // the slice walked (operand of len)
	Latches            []*ssa.BasicBlock
	First              int64 // first index visited
}

func constInt(v ssa.Value) (int64, bool) {
	c, ok := v.(*ssa.Const)
	if !ok || c.Value == nil || c.Value.Kind() != constant.Int {
		return 0, false
	}
	return constant.Int64Val(c.Value)
}

func lenOperand(v ssa.Value) (ssa.Value, bool) {
	c, ok := v.(*ssa.Call)
	if !ok {
		return nil, false
	}
	b, ok := c.Call.Value.(*ssa.Builtin)
	if !ok || b.Name() != "len" || len(c.Call.Args) != 1 {
		return nil, false
	}
	return c.Call.Args[0], true
}

// sliceLoops finds loops of the two shapes
//
//	range:  i = φ(-1, i'); i' = i+1; if i' < len(S) → body(i') else done
//	index:  i = φ(0, i');  if i < len(S) → body(i) … i' = i+1 else done
func sliceLoops(fn *ssa.Function) []SliceLoop {
	var out []SliceLoop
	for _, b := range fn.Blocks {
		if len(b.Instrs) == 0 {
			continue
		}
		ifi, ok := b.Instrs[len(b.Instrs)-1].(*ssa.If)
		if !ok {
			continue
		}
		cmp, ok := ifi.Cond.(*ssa.BinOp)
		if !ok || cmp.Op != token.LSS {
			continue
		}
		S, ok := lenOperand(cmp.Y)
		if !ok {
			continue
		}
		var phi *ssa.Phi
		var idx ssa.Value
		switch x := cmp.X.(type) {
		case *ssa.BinOp: // range form: cmp.X = phi + 1
			p, isPhi := x.X.(*ssa.Phi)
			k, isK := constInt(x.Y)
			if x.Op == token.ADD && isPhi && isK && k == 1 && p.Block() == b {
				phi, idx = p, x
			}
		case *ssa.Phi:
			if x.Block() == b {
				phi, idx = x, x
			}
		}
		if phi == nil {
			continue
		}
		// init and step edges
		var init int64
		haveInit, stepOK := false, true
		var latches []*ssa.BasicBlock
		for i, e := range phi.Edges {
			pred := b.Preds[i]
			if b.Dominates(pred) {
				// back edge: must carry idx (range form) or idx+1 (index form)
				latches = append(latches, pred)
				if e == idx && idx != ssa.Value(phi) {
					continue
				}
				if bo, ok := e.(*ssa.BinOp); ok && bo.Op == token.ADD && bo.X == ssa.Value(phi) {
					if k, ok := constInt(bo.Y); ok && k == 1 && idx == ssa.Value(phi) {
						continue
					}
				}
				stepOK = false
			} else {
				k, ok := constInt(e)
				if !ok {
					stepOK = false
					continue
				}
				if haveInit && k != init {
					stepOK = false
				}
				init, haveInit = k, true
			}
		}
		if !haveInit || !stepOK || len(latches) == 0 {
			continue
		}
		first := init
		if idx != ssa.Value(phi) {
			first = init + 1
		}
		out = append(out, SliceLoop{Header: b, Body: b.Succs[0], Done: b.Succs[1], Idx: idx, S: S, Latches: latches, First: first})
	}
	return out
}

// sameSlice: two SSA values denote the same slice: identical values, or loads
// of the same field address chain of the same base with no store to that
// field in the function.
func sameSlice(a, b ssa.Value) bool {
	if a == b {
		return true
	}
	la, ok1 := a.(*ssa.UnOp)
	lb, ok2 := b.(*ssa.UnOp)
	if !ok1 || !ok2 || la.Op != token.MUL || lb.Op != token.MUL {
		return false
	}
	fa, ok1 := la.X.(*ssa.FieldAddr)
	fb, ok2 := lb.X.(*ssa.FieldAddr)
	if !ok1 || !ok2 || fa.Field != fb.Field || fa.X != fb.X {
		return false
	}
	// no store to that field anywhere in the function
	for _, blk := range la.Parent().Blocks {
		for _, in := range blk.Instrs {
			if st, ok := in.(*ssa.Store); ok {
				if f, ok := st.Addr.(*ssa.FieldAddr); ok && f.X == fa.X && f.Field == fa.Field {
					return false
				}
			}
		}
	}
	return true
}

// elementOf: v is the element S[idx] (load through IndexAddr, or Index).
func elementOf(v ssa.Value, S, idx ssa.Value) bool {
	v = stripIface(v)
	switch x := v.(type) {
	case *ssa.UnOp:
		if ia, ok := x.X.(*ssa.IndexAddr); ok && x.Op == token.MUL {
			return sameSlice(ia.X, S) && ia.Index == idx
		}
		// value-receiver method called through a pointer element: *S[idx]
		if x.Op == token.MUL {
			if inner, ok := x.X.(*ssa.UnOp); ok && inner.Op == token.MUL {
				return elementOf(inner, S, idx)
			}
		}
	case *ssa.Index:
		return sameSlice(x.X, S) && x.Index == idx
	}
	return false
}

type WalkReport struct {
	OK     bool
	Why    string
	Detail string
	Pos    ssa.Instruction
	Fresh  *ssa.MakeSlice // wantCopy: the fresh slice the elements are copied into
}

// validatingWalk checks the rule described at the top of the file for the
// loop in fn that walks `source` (decided by isSource on the len operand).
// If wantCopy is set, the function must also store each element, at the
// same index, into a fresh slice of the same length and return it on success.
func validatingWalk(w *World, fn *ssa.Function, isSource func(ssa.Value) bool, wantCopy bool) WalkReport {
	return validatingWalkOpt(w, fn, isSource, wantCopy, false)
}

// validatingWalkOpt: with keepSlice the copy is not returned but used by the
// function itself after the walk (the caller judges what happens to it).
func validatingWalkOpt(w *World, fn *ssa.Function, isSource func(ssa.Value) bool, wantCopy, keepSlice bool) WalkReport {
	var cands []*SliceLoop
	loops := sliceLoops(fn)
	for i := range loops {
		if isSource(loops[i].S) {
			cands = append(cands, &loops[i])
		}
	}
	if len(cands) == 0 {
		return WalkReport{Why: fmt.Sprintf("no full walk (range or 0..len) over the component list found (%d candidate loops)", len(loops))}
	}
	ei := errIndex(fn)
	// the validating loop: the first walk over the list in which every
	// iteration that goes on has seen the element's Validate() return nil
	var vl *SliceLoop
	var call ssa.CallInstruction
	var first WalkReport
	for _, l := range cands {
		c, rep := validatingLoop(w, fn, l)
		if rep.OK {
			vl, call = l, c
			break
		}
		if first.Why == "" {
			first = rep
		}
	}
	if vl == nil {
		if len(cands) > 1 {
			first.Why = fmt.Sprintf("none of the %d loops over the component list validates every element: %s", len(cands), first.Why)
		}
		return first
	}
	// (4) success only after the walk has run to its end
	if rep := successOnlyThrough(fn, vl, ei); !rep.OK {
		return rep
	}
	var fresh *ssa.MakeSlice
	if wantCopy {
		// the copying loop (the validating one, or a later walk over the same
		// list): element idx goes to position idx of a fresh slice
		var cl *SliceLoop
		var result ssa.Value
		var cwhy WalkReport
		for _, l := range cands {
			ms, res, rep := copyingLoop(fn, l)
			if rep.OK {
				cl, fresh, result = l, ms, res
				break
			}
			if cwhy.Why == "" || l == vl {
				cwhy = rep
			}
		}
		if cl == nil {
			if cwhy.Pos == nil {
				cwhy.Pos = call
			}
			return cwhy
		}
		if cl != vl {
			if !vl.Done.Dominates(cl.Header) {
				return WalkReport{Why: "the copying walk is not preceded by the completed validating walk", Pos: cl.Header.Instrs[0]}
			}
			if rep := successOnlyThrough(fn, cl, ei); !rep.OK {
				return rep
			}
		}
		// the success return returns that slice
		for _, b := range fn.Blocks {
			ret, ok := b.Instrs[len(b.Instrs)-1].(*ssa.Return)
			if !ok || ei < 0 {
				continue
			}
			ev := ret.Results[ei]
			if definitelyNonNilErr(ev) || knownNonNilAt(ev, b) {
				continue
			}
			if emptyListExits(fn, vl.S)[b] && freshEmptySlice(ret.Results[0]) {
				continue // the empty list: a fresh empty slice is what the copy of zero elements is
			}
			if !keepSlice && !onlyValueOrNil(ret.Results[0], result, map[ssa.Value]bool{}) {
				return WalkReport{Why: "the success return does not return the slice the elements were copied into", Pos: ret}
			}
		}
	}
	return WalkReport{OK: true, Detail: fmt.Sprintf("range over the whole list from index 0; Validate() on every element dominates the back edge; err!=nil leaves with an error; success only through the loop exit (header block %d)", vl.Header.Index), Pos: call, Fresh: fresh}
}

// onlyValueOrNil: v is want, or a φ all of whose edges are want or nil.
func onlyValueOrNil(v, want ssa.Value, seen map[ssa.Value]bool) bool {
	if v == want {
		return true
	}
	phi, ok := v.(*ssa.Phi)
	if !ok || seen[phi] {
		return false
	}
	seen[phi] = true
	some := false
	for _, e := range phi.Edges {
		if isNilConst(e) {
			continue
		}
		if !onlyValueOrNil(e, want, seen) {
			return false
		}
		some = true
	}
	return some
}

// validatingLoop: the walk starts at index 0, a Validate() call on the
// current element (or a helper that performs it) dominates every back edge,
// and an iteration goes on only when that call returned nil.
func validatingLoop(w *World, fn *ssa.Function, loop *SliceLoop) (ssa.CallInstruction, WalkReport) {
	if loop.First != 0 {
		return nil, WalkReport{Why: fmt.Sprintf("the walk starts at index %d, not 0", loop.First), Pos: loop.Header.Instrs[0]}
	}
	var call ssa.CallInstruction
	for _, b := range fn.Blocks {
		if !loop.Body.Dominates(b) {
			continue
		}
		for _, in := range b.Instrs {
			c, ok := in.(ssa.CallInstruction)
			if !ok {
				continue
			}
			cc := c.Common()
			name := ""
			var recv ssa.Value
			if cc.IsInvoke() {
				name, recv = cc.Method.Name(), cc.Value
			} else if f := cc.StaticCallee(); f != nil && f.Signature.Recv() != nil && len(cc.Args) > 0 {
				name, recv = f.Name(), cc.Args[0]
			}
			if name != "Validate" || recv == nil || !elementOf(recv, loop.S, loop.Idx) {
				// the per-element check may be delegated to a helper that is
				// given the element and returns nil only after the element's
				// own Validate() returned nil
				if h := cc.StaticCallee(); h == nil || cc.IsInvoke() || !w.InRepo(h) || h.Blocks == nil {
					continue
				} else {
					k := -1
					for i, a := range cc.Args {
						if elementOf(a, loop.S, loop.Idx) {
							k = i
						}
					}
					if k < 0 || !validatesParam(w, h, k) {
						continue
					}
				}
			}
			dom := true
			for _, l := range loop.Latches {
				if !b.Dominates(l) {
					dom = false
				}
			}
			if dom {
				call = c
			}
		}
	}
	if call == nil {
		return nil, WalkReport{Why: "no Validate() call on the current element that every iteration passes through", Pos: loop.Body.Instrs[0]}
	}
	cv := call.(ssa.Value)
	// (3) continuing requires err == nil
	for _, l := range loop.Latches {
		if !knownNilAt(cv, l) && !nilEdgeInto(cv, l, loop.Header) {
			return nil, WalkReport{Why: "an iteration can continue although the element's Validate() returned an error", Pos: call}
		}
	}
	return call, WalkReport{OK: true}
}

// freshEmptySlice: make([]T, 0) in either of its SSA forms (a MakeSlice of
// constant length 0, or a slice of a new zero-length array).
func freshEmptySlice(v ssa.Value) bool {
	switch x := v.(type) {
	case *ssa.MakeSlice:
		k, isK := constInt(x.Len)
		return isK && k == 0
	case *ssa.Slice:
		al, ok := x.X.(*ssa.Alloc)
		if !ok {
			return false
		}
		arr, ok := al.Type().Underlying().(*types.Pointer).Elem().Underlying().(*types.Array)
		return ok && arr.Len() == 0
	}
	return false
}

// emptyListExits: the blocks reached only under a test that the walked list
// is empty (len(S) == 0 and its equivalent forms): a walk would run zero
// iterations there, so returning what the empty walk returns is the same.
func emptyListExits(fn *ssa.Function, S ssa.Value) map[*ssa.BasicBlock]bool {
	emptyExit := map[*ssa.BasicBlock]bool{}
	for _, b := range fn.Blocks {
		if len(b.Instrs) == 0 {
			continue
		}
		ifi, ok := b.Instrs[len(b.Instrs)-1].(*ssa.If)
		if !ok {
			continue
		}
		cmp, ok := ifi.Cond.(*ssa.BinOp)
		if !ok {
			continue
		}
		lo, isLen := lenOperand(cmp.X)
		k, isK := constInt(cmp.Y)
		if !isLen || !isK || !sameSlice(lo, S) {
			continue
		}
		emptySucc := -1
		switch {
		case cmp.Op == token.EQL && k == 0, cmp.Op == token.LSS && k == 1, cmp.Op == token.LEQ && k == 0:
			emptySucc = 0
		case cmp.Op == token.NEQ && k == 0, cmp.Op == token.GTR && k == 0, cmp.Op == token.GEQ && k == 1:
			emptySucc = 1
		}
		if emptySucc < 0 {
			continue
		}
		t := b.Succs[emptySucc]
		if len(t.Preds) != 1 {
			continue
		}
		for _, d := range fn.Blocks {
			if t.Dominates(d) {
				emptyExit[d] = true
			}
		}
	}
	return emptyExit
}

// successOnlyThrough: a return of fn that may carry a nil error is reached
// only through the loop's normal exit (the header finding the index at the
// end). A loop may also be left early (return inside the body, break): such a
// way out must end in a non-nil error and nil other results — either directly
// or through the φ of a result variable whose early-exit edges carry errors.
func successOnlyThrough(fn *ssa.Function, loop *SliceLoop, ei int) WalkReport {
	if ei < 0 {
		return WalkReport{OK: true}
	}
	// blocks reachable from the entry without taking the normal exit edge
	early := map[*ssa.BasicBlock]bool{}
	var dfs func(b *ssa.BasicBlock)
	dfs = func(b *ssa.BasicBlock) {
		if early[b] {
			return
		}
		early[b] = true
		for _, s := range b.Succs {
			if b == loop.Header && s == loop.Done {
				continue
			}
			dfs(s)
		}
	}
	dfs(fn.Blocks[0])
	emptyExit := emptyListExits(fn, loop.S)
	nonNil := func(v ssa.Value, at *ssa.BasicBlock) bool {
		return !isNilConst(v) && (definitelyNonNilErr(v) || knownNonNilAt(v, at))
	}
	// nilOnlyAfterWalk: value v, observed on arrival from block `from` (nil:
	// at its use in block at), can be nil only when the walk was completed
	var nilOnlyAfterWalk func(v ssa.Value, at *ssa.BasicBlock, seen map[ssa.Value]bool) bool
	nilOnlyAfterWalk = func(v ssa.Value, at *ssa.BasicBlock, seen map[ssa.Value]bool) bool {
		if nonNil(v, at) || !early[at] {
			return true
		}
		phi, ok := v.(*ssa.Phi)
		if !ok || seen[phi] {
			return false
		}
		seen[phi] = true
		for i, e := range phi.Edges {
			p := phi.Block().Preds[i]
			if p == loop.Header && phi.Block() == loop.Done {
				continue // the normal exit edge
			}
			if nonNil(e, p) || nilEdgeCannotBeTaken(e, p, phi.Block()) {
				continue
			}
			if !nilOnlyAfterWalk(e, p, seen) {
				return false
			}
		}
		return true
	}
	for _, b := range fn.Blocks {
		ret, ok := b.Instrs[len(b.Instrs)-1].(*ssa.Return)
		if !ok {
			continue
		}
		ev := ret.Results[ei]
		if nonNil(ev, b) {
			// a failing return: reached before the walk is complete, the other results must be nil
			if early[b] {
				for i, rv := range ret.Results {
					if i != ei && !isNilConst(rv) {
						return WalkReport{Why: "a failing iteration returns a non-nil result besides the error", Pos: ret}
					}
				}
			}
			continue
		}
		if !early[b] {
			continue // only through the normal exit
		}
		if emptyExit[b] && isNilConst(ev) {
			continue // the list is empty here: the walk has nothing to validate
		}
		// reachable early: the error returned must be a variable that early
		// exits leave non-nil (or this return is taken only when it is nil)
		carrier := ev
		if isNilConst(ev) {
			carrier = nil
			for _, blk := range fn.Blocks {
				for _, in := range blk.Instrs {
					if phi, ok := in.(*ssa.Phi); ok && isErrorType(phi.Type()) && knownNilAt(phi, b) {
						carrier = phi
					}
				}
			}
			if carrier == nil {
				return WalkReport{Why: "a return that may carry a nil error is reachable without finishing the walk", Pos: ret}
			}
		}
		if !nilOnlyAfterWalk(carrier, b, map[ssa.Value]bool{}) {
			if len(loop.Done.Preds) != 1 {
				return WalkReport{Why: "the loop has an exit other than running to the end (break) after which a nil error can be returned", Pos: ret}
			}
			return WalkReport{Why: "a return that may carry a nil error is reachable without finishing the walk", Pos: ret}
		}
		// the other results: non-nil only where the error is known to be nil
		for i, rv := range ret.Results {
			if i == ei || isNilConst(rv) {
				continue
			}
			if !nonNilOnlyWhenNil(rv, carrier, b, map[ssa.Value]bool{}) {
				return WalkReport{Why: "a failing iteration returns a non-nil result besides the error", Pos: ret}
			}
		}
	}
	return WalkReport{OK: true}
}

// nilEdgeCannotBeTaken: placeholder for edge-sensitive facts (none needed yet).
func nilEdgeCannotBeTaken(e ssa.Value, p, target *ssa.BasicBlock) bool { return false }

// nonNilOnlyWhenNil: result value rv is non-nil only on ways on which the
// error carrier is known to be nil: rv is used where carrier is known nil, or
// rv is a φ whose non-nil edges come from such places.
func nonNilOnlyWhenNil(rv, carrier ssa.Value, at *ssa.BasicBlock, seen map[ssa.Value]bool) bool {
	if isNilConst(rv) || knownNilAt(carrier, at) {
		return true
	}
	phi, ok := rv.(*ssa.Phi)
	if !ok || seen[phi] {
		return false
	}
	seen[phi] = true
	for i, e := range phi.Edges {
		if !nonNilOnlyWhenNil(e, carrier, phi.Block().Preds[i], seen) {
			return false
		}
	}
	return true
}

// copyingLoop: every iteration that goes on has put the current element at
// its own index into a fresh slice: out[idx] = elem with out made with the
// list's length, or out = append(out, elem) with out starting empty. Returns
// the allocation and the value that holds the complete copy after the loop.
func copyingLoop(fn *ssa.Function, loop *SliceLoop) (*ssa.MakeSlice, ssa.Value, WalkReport) {
	if loop.First != 0 {
		return nil, nil, WalkReport{Why: fmt.Sprintf("the walk starts at index %d, not 0", loop.First), Pos: loop.Header.Instrs[0]}
	}
	elemOf := func(src ssa.Value) bool {
		src = stripIface(src)
		if ta, ok := src.(*ssa.Extract); ok { // comma-ok type assertion
			if t, ok := ta.Tuple.(*ssa.TypeAssert); ok {
				src = t.X
			}
		}
		if t, ok := src.(*ssa.TypeAssert); ok {
			src = t.X
		}
		return elementOf(src, loop.S, loop.Idx)
	}
	var store *ssa.Store
	for _, b := range fn.Blocks {
		if !loop.Body.Dominates(b) {
			continue
		}
		for _, in := range b.Instrs {
			st, ok := in.(*ssa.Store)
			if !ok {
				continue
			}
			ia, ok := st.Addr.(*ssa.IndexAddr)
			if !ok || ia.Index != loop.Idx {
				continue
			}
			if _, ok := ia.X.(*ssa.MakeSlice); !ok {
				continue
			}
			store = st
		}
	}
	if store != nil {
		ms := store.Addr.(*ssa.IndexAddr).X.(*ssa.MakeSlice)
		lo, ok := lenOperand(ms.Len)
		if !ok || !sameSlice(lo, loop.S) {
			return nil, nil, WalkReport{Why: "the result slice is not made with the length of the list walked", Pos: ms}
		}
		if !elemOf(store.Val) {
			return nil, nil, WalkReport{Why: "the value stored into the result slice is not the element just validated", Pos: store}
		}
		for _, l := range loop.Latches {
			if !store.Block().Dominates(l) {
				return nil, nil, WalkReport{Why: "an iteration can continue without storing its element", Pos: store}
			}
		}
		return ms, ms, WalkReport{OK: true}
	}
	// append form: acc = φ(make([]T, 0, …), append(acc, elem)) at the header
	for _, in := range loop.Header.Instrs {
		acc, ok := in.(*ssa.Phi)
		if !ok {
			break
		}
		if _, isSlice := acc.Type().Underlying().(*types.Slice); !isSlice {
			continue
		}
		var ms *ssa.MakeSlice
		okAll := true
		for i, e := range acc.Edges {
			pred := loop.Header.Preds[i]
			if !loop.Header.Dominates(pred) {
				m, isMS := e.(*ssa.MakeSlice)
				if !isMS {
					okAll = false
					break
				}
				if k, isK := constInt(m.Len); !isK || k != 0 {
					okAll = false
					break
				}
				ms = m
				continue
			}
			app, isCall := e.(*ssa.Call)
			if !isCall {
				okAll = false
				break
			}
			bi, isB := app.Call.Value.(*ssa.Builtin)
			if !isB || bi.Name() != "append" || len(app.Call.Args) != 2 || app.Call.Args[0] != ssa.Value(acc) {
				okAll = false
				break
			}
			el, single := singleAppended(app.Call.Args[1])
			if !single || !elemOf(el) {
				okAll = false
				break
			}
			for _, l := range loop.Latches {
				if !app.Block().Dominates(l) {
					okAll = false
				}
			}
		}
		if okAll && ms != nil {
			return ms, acc, WalkReport{OK: true}
		}
	}
	return nil, nil, WalkReport{Why: "elements are not copied index-for-index into a fresh result slice"}
}

// singleAppended: the variadic argument of append(x, v): a one-element slice
// of a fresh array holding v.
func singleAppended(arg ssa.Value) (ssa.Value, bool) {
	sl, ok := arg.(*ssa.Slice)
	if !ok {
		return nil, false
	}
	al, ok := sl.X.(*ssa.Alloc)
	if !ok {
		return nil, false
	}
	arr, ok := al.Type().Underlying().(*types.Pointer).Elem().Underlying().(*types.Array)
	if !ok || arr.Len() != 1 {
		return nil, false
	}
	var val ssa.Value
	n := 0
	for _, ref := range *al.Referrers() {
		ia, ok := ref.(*ssa.IndexAddr)
		if !ok {
			continue
		}
		for _, r2 := range *ia.Referrers() {
			if st, ok := r2.(*ssa.Store); ok && st.Addr == ssa.Value(ia) {
				val = st.Val
				n++
			}
		}
	}
	return val, n == 1
}

// validatesParam: every path of h that may return a nil error has called
// Validate() on h's parameter k and seen it return nil.
func validatesParam(w *World, h *ssa.Function, k int) bool {
	ei := errIndex(h)
	if ei < 0 || k >= len(h.Params) {
		return false
	}
	s := w.SummariseWith(h, func(e *Engine) { e.MaxSteps = 20000 })
	if ok, _ := s.Complete(); !ok {
		return false
	}
	param := h.Params[k].Name()
	for _, p := range s.Paths {
		if p.Ret == nil {
			continue // a panicking path does not return nil (C05 judges it)
		}
		if _, nl := errOf(p, ei); nl == 1 {
			continue
		}
		ok := false
		for _, ev := range p.St.events {
			if ev.Kind == "call" && ev.Method == "Validate" && ev.Recv != nil && avSubject(*ev.Recv) == param && p.St.NilOf(ev.Result) == -1 {
				ok = true
			}
		}
		if !ok {
			return false
		}
	}
	return len(s.Paths) > 0
}

// definitelyNonNilErr: the value is the result of fmt.Errorf / errors.New or
// a load of an init-only sentinel.
func definitelyNonNilErr(v ssa.Value) bool { return nonNilErrDepth(v, 0) }

// nonNilErrDepth also accepts a call of a function with a body (an error
// constructor helper) all of whose returns are themselves definitely non-nil.
func nonNilErrDepth(v ssa.Value, depth int) bool {
	v = stripIface(v)
	c, ok := v.(*ssa.Call)
	if !ok || depth > 4 {
		return false
	}
	n := calleeName(&c.Call)
	if n == "fmt.Errorf" || n == "errors.New" {
		return true
	}
	f := c.Call.StaticCallee()
	if f == nil || f.Blocks == nil || f.Signature.Results().Len() != 1 {
		return false
	}
	rets := 0
	for _, b := range f.Blocks {
		for _, in := range b.Instrs {
			if r, ok := in.(*ssa.Return); ok {
				rets++
				if !nonNilErrDepth(r.Results[0], depth+1) {
					return false
				}
			}
		}
	}
	return rets > 0
}

var _ = types.Typ

// nilEdgeInto: block l ends in a nil test of v whose nil edge goes to target.
func nilEdgeInto(v ssa.Value, l, target *ssa.BasicBlock) bool {
	ifi, ok := l.Instrs[len(l.Instrs)-1].(*ssa.If)
	if !ok {
		return false
	}
	x, nilSucc, ok := nilGuard(ifi)
	return ok && stripIface(x) == stripIface(v) && l.Succs[nilSucc] == target && l.Succs[1-nilSucc] != target
}

// baseName: the declared name of a function, without type arguments.
func baseName(fn *ssa.Function) string {
	if o := fn.Origin(); o != nil {
		return o.Name()
	}
	return fn.Name()
}

// orderedCopyWalk: the function copies every element of the walked slice,
// index for index from 0, into a fresh slice of the same length that it
// returns on success (wire order preserved). Validation is not required here.
func orderedCopyWalk(w *World, fn *ssa.Function, isSource func(ssa.Value) bool) WalkReport {
	var loop *SliceLoop
	for _, l := range sliceLoops(fn) {
		if isSource(l.S) {
			l := l
			loop = &l
		}
	}
	if loop == nil {
		// a function may legitimately return the slice itself converted: accept make+copy-less identity? no: report
		return WalkReport{Why: "no full walk over the element slice found"}
	}
	if loop.First != 0 {
		return WalkReport{Why: fmt.Sprintf("the walk starts at index %d", loop.First)}
	}
	var store *ssa.Store
	for _, b := range fn.Blocks {
		if !loop.Body.Dominates(b) {
			continue
		}
		for _, in := range b.Instrs {
			st, ok := in.(*ssa.Store)
			if !ok {
				continue
			}
			ia, ok := st.Addr.(*ssa.IndexAddr)
			if !ok || ia.Index != loop.Idx {
				continue
			}
			if _, ok := ia.X.(*ssa.MakeSlice); ok {
				store = st
			}
		}
	}
	if store == nil {
		// append form: acc = φ(make([]T, 0, …), append(acc, s[i])) at the header,
		// the append on every iteration; a walk from index 0 that appends exactly
		// its element each time fills the result index for index
		if acc := appendCopyAcc(loop); acc != nil {
			ei := errIndex(fn)
			for _, b := range fn.Blocks {
				if ret, ok := b.Instrs[len(b.Instrs)-1].(*ssa.Return); ok && loop.Done.Dominates(b) && ei >= 0 && isNilConst(ret.Results[ei]) && ret.Results[0] != ssa.Value(acc) {
					return WalkReport{Why: "the success return does not return the slice the elements were copied into"}
				}
			}
			return WalkReport{OK: true, Detail: "index-for-index copy (append form)"}
		}
		return WalkReport{Why: "elements are not copied index-for-index into a fresh result slice"}
	}
	for _, l := range loop.Latches {
		if !store.Block().Dominates(l) {
			return WalkReport{Why: "an iteration can continue without storing its element", Pos: store}
		}
	}
	ms := store.Addr.(*ssa.IndexAddr).X.(*ssa.MakeSlice)
	if lo, ok := lenOperand(ms.Len); !ok || !sameSlice(lo, loop.S) {
		return WalkReport{Why: "the result slice is not made with the length of the list walked"}
	}
	if !elementOf(stripIface(store.Val), loop.S, loop.Idx) {
		return WalkReport{Why: "the value stored into the result slice is not the element at the same index"}
	}
	ei := errIndex(fn)
	for _, b := range fn.Blocks {
		if ret, ok := b.Instrs[len(b.Instrs)-1].(*ssa.Return); ok && loop.Done.Dominates(b) && ei >= 0 && isNilConst(ret.Results[ei]) && ret.Results[0] != ssa.Value(ms) {
			return WalkReport{Why: "the success return does not return the slice the elements were copied into"}
		}
	}
	return WalkReport{OK: true, Detail: "index-for-index copy"}
}

// appendCopyAcc: the loop's accumulator φ when the loop is an append-built copy
// of the walked slice: acc = φ(make([]T, 0, …) from outside, append(acc, s[i])
// from every latch), the append dominating every latch. nil otherwise.
func appendCopyAcc(loop *SliceLoop) *ssa.Phi {
	for _, in := range loop.Header.Instrs {
		acc, ok := in.(*ssa.Phi)
		if !ok {
			break
		}
		if _, isSlice := acc.Type().Underlying().(*types.Slice); !isSlice {
			continue
		}
		okAll, fresh := true, false
		for i, e := range acc.Edges {
			pred := loop.Header.Preds[i]
			if !loop.Header.Dominates(pred) {
				m, isMS := e.(*ssa.MakeSlice)
				if !isMS {
					okAll = false
					break
				}
				if k, isK := constInt(m.Len); !isK || k != 0 {
					okAll = false
					break
				}
				fresh = true
				continue
			}
			app, isCall := e.(*ssa.Call)
			if !isCall {
				okAll = false
				break
			}
			bi, isB := app.Call.Value.(*ssa.Builtin)
			if !isB || bi.Name() != "append" || len(app.Call.Args) != 2 || app.Call.Args[0] != ssa.Value(acc) {
				okAll = false
				break
			}
			el, single := singleAppended(app.Call.Args[1])
			if !single || !elementOf(stripIface(el), loop.S, loop.Idx) {
				okAll = false
				break
			}
			for _, l := range loop.Latches {
				if !app.Block().Dominates(l) {
					okAll = false
				}
			}
		}
		if okAll && fresh {
			return acc
		}
	}
	return nil
}

// validatedThenCopied: the other accepted shape of the container's Values():
// the container's own Validate() (which R3 judges as a validating walk) has
// returned nil before the walk starts, and the walk copies every element index
// for index into the fresh slice that is returned.
func validatedThenCopied(w *World, fn *ssa.Function, isSource func(ssa.Value) bool) WalkReport {
	var loop *SliceLoop
	for _, l := range sliceLoops(fn) {
		if isSource(l.S) {
			l := l
			loop = &l
		}
	}
	if loop == nil {
		return WalkReport{Why: "no full walk over the element slice found"}
	}
	var call *ssa.Call
	for _, b := range fn.Blocks {
		for _, in := range b.Instrs {
			c, ok := in.(*ssa.Call)
			if !ok {
				continue
			}
			sib := c.Call.StaticCallee()
			if sib == nil || sib.Signature.Recv() == nil || baseName(sib) != "Validate" || len(c.Call.Args) == 0 {
				continue
			}
			if !types.Identical(sib.Signature.Recv().Type(), fn.Signature.Recv().Type()) && !types.Identical(derefType(sib.Signature.Recv().Type()), derefType(fn.Signature.Recv().Type())) {
				continue
			}
			if !isReceiverOf(fn, c.Call.Args[0]) {
				continue
			}
			call = c
		}
	}
	if call == nil {
		return WalkReport{Why: "no call of the container's own Validate() on the receiver"}
	}
	if !call.Block().Dominates(loop.Header) || !knownNilAt(call, loop.Header) {
		return WalkReport{Why: "the copy loop can be reached although the container's Validate() did not return nil", Pos: call}
	}
	rep := orderedCopyWalk(w, fn, isSource)
	if !rep.OK {
		return rep
	}
	if len(loop.Done.Preds) != 1 {
		return WalkReport{Why: "the copy loop has an exit other than running to the end"}
	}
	ei := errIndex(fn)
	for _, b := range fn.Blocks {
		ret, ok := b.Instrs[len(b.Instrs)-1].(*ssa.Return)
		if !ok || ei < 0 {
			continue
		}
		ev := ret.Results[ei]
		mayNil := isNilConst(ev) || !(definitelyNonNilErr(ev) || knownNonNilAt(ev, b))
		if mayNil && !loop.Done.Dominates(b) {
			return WalkReport{Why: "a return that may carry a nil error is reachable without finishing the copy", Pos: ret}
		}
		if !mayNil {
			for i, rv := range ret.Results {
				if i != ei && !isNilConst(rv) {
					return WalkReport{Why: "a failing path returns a non-nil result besides the error", Pos: ret}
				}
			}
		}
	}
	return WalkReport{OK: true, Detail: "the container's own Validate() returned nil before the walk; every element copied index for index into the returned slice", Pos: call}
}

func derefType(t types.Type) types.Type {
	if p, ok := t.Underlying().(*types.Pointer); ok {
		return p.Elem()
	}
	return t
}

// isReceiverOf: v is fn's receiver: the parameter itself, a load through it,
// or a load of the local the (value) receiver was spilled to and which is
// written only by that spill.
func isReceiverOf(fn *ssa.Function, v ssa.Value) bool {
	recv := ssa.Value(fn.Params[0])
	if v == recv {
		return true
	}
	ld, ok := v.(*ssa.UnOp)
	if !ok || ld.Op != token.MUL {
		return false
	}
	if ld.X == recv {
		return true
	}
	al, ok := ld.X.(*ssa.Alloc)
	if !ok {
		return false
	}
	spills := 0
	for _, ref := range *al.Referrers() {
		switch x := ref.(type) {
		case *ssa.Store:
			if x.Addr != ssa.Value(al) || x.Val != recv {
				return false
			}
			spills++
		case *ssa.UnOp, *ssa.DebugRef:
		case *ssa.FieldAddr:
			for _, r2 := range *x.Referrers() {
				switch r2.(type) {
				case *ssa.UnOp, *ssa.DebugRef:
				default:
					return false // the copy of the receiver may be written through this address
				}
			}
		default:
			return false
		}
	}
	return spills == 1
}
