package main

// Dependency audit (thorough tier): the model-table entries about go-cose that
// C02 / C03 / C19 / C20 lean on are re-derived from the pinned dependency's own
// SSA with the same path engine. Still static: nothing is executed.

import (
	"fmt"
	"go/constant"
	"go/types"
	"os"
	"reflect"
	"strings"

	"golang.org/x/tools/go/ssa"
)

func (w *World) depFunc(name string) *ssa.Function {
	for f := range w.AllFuncs {
		if f.Blocks != nil && f.String() == name {
			return f
		}
	}
	return nil
}

func (w *World) depPackage(path string) *ssa.Package {
	for _, p := range w.Prog.AllPackages() {
		if p.Pkg.Path() == path {
			return p
		}
	}
	return nil
}

// sentinelLoad: the value is a load of a package-level error variable of the
// dependency (Err…), which is initialised once with errors.New.
func sentinelLoad(a AV) bool {
	return (a.Kind == KSym || a.Kind == KUnknown) && strings.HasPrefix(a.Sym, "g:cose.Err")
}

func depErrNil(p Path, idx int) int {
	if idx >= len(p.Rets) {
		return 0
	}
	a := p.Rets[idx]
	if sentinelLoad(a) {
		return 1
	}
	return p.St.NilOf(a)
}

// auditCoseVerify: Sign1Message.Verify can return a nil error only when the
// message and its payload are non-nil, the signature is non-empty, the
// algorithm check succeeded and the result is the verifier's own verdict.
func auditCoseVerify(w *World, r *Recorder, rule string) {
	if !w.Whole {
		return
	}
	fn := w.depFunc(cVerify)
	if fn == nil {
		r.Undecide(rule, "go-cose Sign1Message.Verify", "-", "dependency function not found in the whole-program load")
		return
	}
	e := NewEngine(w)
	paths := e.Run(fn, nil, nil)
	m := fn.Params[0].Name()
	ok, why, n := true, "", 0
	for _, p := range paths {
		if p.Ret == nil {
			if p.Cut != nil {
				ok, why = false, "path left the fragment"
			}
			continue
		}
		if depErrNil(p, 0) == 1 {
			continue
		}
		n++
		if b, has := p.St.atoms["nil("+m+".Payload)"]; !has || b {
			ok, why = false, "may succeed with a nil payload"
		}
		if set, has := p.St.terms["len("+m+".Signature)"]; !has || set.contains(0) {
			ok, why = false, "may succeed with an empty signature"
		}
		algOK := false
		for a, b := range p.St.atoms {
			if strings.Contains(a, "ensureVerificationAlgorithm") && strings.HasPrefix(a, "nil(") && b {
				algOK = true
			}
		}
		if !algOK {
			ok, why = false, "may succeed without the header-algorithm check"
		}
		if !strings.Contains(p.Rets[0].name(), "Verifier.Verify") {
			ok, why = false, "success is not the verifier's own verdict: "+p.Rets[0].name()
		}
		for _, ev := range p.St.events {
			if ev.Kind == "store" && strings.HasPrefix(ev.Loc, "P:"+m) {
				ok, why = false, "writes the message: "+ev.Loc
			}
		}
	}
	r.Check(ok && n > 0, rule, "audit: go-cose Sign1Message.Verify", w.FnPos(fn), "from the pinned source: nil only for non-nil payload, non-empty signature, matching header algorithm and a nil verdict of verifier.Verify; does not write the message", "the pinned go-cose does not behave as the model table says: "+why)
}

// auditCoseUnmarshal: UnmarshalCBOR requires the tag-18/array-4 prefix and
// returns doUnmarshal's verdict; doUnmarshal replaces *m only on success and
// rejects an empty signature; the wire struct is a 4-field toarray struct.
func auditCoseUnmarshal(w *World, r *Recorder, rule string) {
	if !w.Whole {
		return
	}
	fn := w.depFunc(cUnmarshal)
	du := w.depFunc("(*" + pCOSE + ".Sign1Message).doUnmarshal")
	pkg := w.depPackage(pCOSE)
	if fn == nil || du == nil || pkg == nil {
		r.Undecide(rule, "go-cose Sign1Message.UnmarshalCBOR", "-", "dependency functions not found in the whole-program load")
		return
	}
	e := NewEngine(w)
	paths := e.Run(fn, nil, nil)
	ok, why, n := true, "", 0
	for _, p := range paths {
		if p.Ret == nil || depErrNil(p, 0) == 1 {
			continue
		}
		n++
		pref := false
		for a, b := range p.St.atoms {
			if strings.HasPrefix(a, "bytes.HasPrefix("+fn.Params[1].Name()+",g:cose.sign1MessagePrefix") && b {
				pref = true
			}
		}
		if !pref {
			ok, why = false, "can succeed without the tagged-message prefix test"
		}
		if !strings.Contains(p.Rets[0].name(), "doUnmarshal") {
			ok, why = false, "success is not doUnmarshal's verdict"
		}
	}
	// the prefix bytes
	prefix := depGlobalBytes(pkg, "sign1MessagePrefix")
	if len(prefix) != 2 || prefix[0] != 0xd2 || prefix[1] != 0x84 {
		ok, why = false, fmt.Sprintf("prefix constant is % x, expected d2 84 (tag 18, array of 4)", prefix)
	}
	r.Check(ok && n > 0, rule, "audit: go-cose Sign1Message.UnmarshalCBOR", w.FnPos(fn), "from the pinned source: success only behind bytes.HasPrefix(data, d2 84) and doUnmarshal's nil verdict", "the pinned go-cose does not behave as the model table says: "+why)

	e2 := NewEngine(w)
	paths2 := e2.Run(du, nil, nil)
	m := du.Params[0].Name()
	ok2, why2, n2 := true, "", 0
	for _, p := range paths2 {
		if p.Ret == nil {
			continue
		}
		nl := depErrNil(p, 0)
		stores := 0
		for _, ev := range p.St.events {
			if ev.Kind == "store" && (ev.Loc == "P:"+m || strings.HasPrefix(ev.Loc, "P:"+m+"|")) {
				stores++
			}
		}
		if nl == 1 {
			if stores > 0 {
				ok2, why2 = false, "writes *m on a failing path"
			}
			continue
		}
		n2++
		if stores == 0 {
			ok2, why2 = false, "a success path does not replace *m"
			if os.Getenv("PSACHECK_DEBUG") != "" {
				for _, ev := range p.St.events {
					if ev.Kind == "store" {
						fmt.Fprintln(os.Stderr, "   store", ev.Loc, ":=", ev.Val.name())
					}
				}
			}
		}
		sigOK := false
		for t, set := range p.St.terms {
			if strings.HasPrefix(t, "len(") && strings.Contains(t, ".Signature") && !set.contains(0) {
				sigOK = true
			}
		}
		if !sigOK {
			ok2, why2 = false, "may succeed with an empty signature"
		}
		tagsForbidden := false
		for _, ev := range p.St.events {
			if ev.Kind == "call" && ev.Recv != nil && strings.Contains(ev.Recv.name(), "decModeWithTagsForbidden") {
				tagsForbidden = true
			}
		}
		if !tagsForbidden {
			ok2, why2 = false, "does not decode with the tags-forbidden mode"
		}
	}
	r.Check(ok2 && n2 > 0, rule, "audit: go-cose Sign1Message.doUnmarshal", w.FnPos(du), "from the pinned source: tags-forbidden typed decode, empty signature rejected, *m replaced only on success", "the pinned go-cose does not behave as the model table says: "+why2)

	// wire struct
	okS, whyS := false, "type sign1Message not found"
	if tm, isT := pkg.Members["sign1Message"].(*ssa.Type); isT {
		if st, isS := tm.Type().Underlying().(*types.Struct); isS {
			toarray, fields := false, 0
			var kinds []string
			for i := 0; i < st.NumFields(); i++ {
				f := st.Field(i)
				if f.Name() == "_" {
					if v, has := reflect.StructTag(st.Tag(i)).Lookup("cbor"); has && strings.Contains(v, "toarray") {
						toarray = true
					}
					continue
				}
				fields++
				kinds = append(kinds, f.Name()+" "+f.Type().String())
			}
			okS = toarray && fields == 4
			whyS = fmt.Sprintf("toarray=%v fields=%v", toarray, kinds)
		}
	}
	r.Check(okS, rule, "audit: go-cose sign1Message wire struct", "-", "4-element toarray struct (protected, unprotected, payload, signature): "+whyS, "the pinned go-cose wire struct is not a 4-field toarray struct: "+whyS)
}

// depGlobalBytes recovers the constant bytes of a package-level []byte
// literal from the package initialiser.
func depGlobalBytes(pkg *ssa.Package, name string) []byte {
	g, ok := pkg.Members[name].(*ssa.Global)
	if !ok {
		return nil
	}
	init := pkg.Func("init")
	if init == nil {
		return nil
	}
	for _, b := range init.Blocks {
		for _, in := range b.Instrs {
			st, ok := in.(*ssa.Store)
			if !ok || st.Addr != ssa.Value(g) {
				continue
			}
			sl, ok := st.Val.(*ssa.Slice)
			if !ok {
				return nil
			}
			al, ok := sl.X.(*ssa.Alloc)
			if !ok {
				return nil
			}
			at, ok := al.Type().Underlying().(*types.Pointer).Elem().Underlying().(*types.Array)
			if !ok {
				return nil
			}
			out := make([]byte, at.Len())
			for _, ref := range *al.Referrers() {
				ia, ok := ref.(*ssa.IndexAddr)
				if !ok {
					continue
				}
				k, ok := constInt(ia.Index)
				if !ok {
					continue
				}
				for _, r2 := range *ia.Referrers() {
					if s2, ok := r2.(*ssa.Store); ok {
						if c, ok := s2.Val.(*ssa.Const); ok && c.Value != nil {
							v, _ := constant.Int64Val(c.Value)
							out[k] = byte(v)
						}
					}
				}
			}
			return out
		}
	}
	return nil
}

// auditCoseSign: Sign stores the signature only after the signer succeeded,
// refuses a message that already has one and one without payload; a message
// from NewSign1Message has no signature.
func auditCoseSign(w *World, r *Recorder, rule string) {
	if !w.Whole {
		return
	}
	fn := w.depFunc(cSign)
	nm := w.depFunc(cNewMsg)
	if fn == nil || nm == nil {
		r.Undecide(rule, "go-cose Sign1Message.Sign", "-", "dependency functions not found in the whole-program load")
		return
	}
	e := NewEngine(w)
	paths := e.Run(fn, nil, nil)
	m := fn.Params[0].Name()
	ok, why, n := true, "", 0
	for _, p := range paths {
		if p.Ret == nil {
			continue
		}
		nl := depErrNil(p, 0)
		var sigStore bool
		for _, ev := range p.St.events {
			if ev.Kind == "store" && ev.Loc == "P:"+m+"|.Signature" {
				sigStore = true
			} else if ev.Kind == "store" && strings.HasPrefix(ev.Loc, "P:"+m) {
				ok, why = false, "writes "+ev.Loc
			}
		}
		if nl == 1 {
			if sigStore {
				ok, why = false, "stores a signature on a failing path"
			}
			continue
		}
		n++
		if !sigStore {
			ok, why = false, "a success path stores no signature"
		}
		signerOK := false
		for a, b := range p.St.atoms {
			if strings.HasPrefix(a, "nil(") && strings.Contains(a, "Signer.Sign") && b {
				signerOK = true
			}
		}
		if !signerOK {
			ok, why = false, "a signature is stored without a nil error from signer.Sign"
		}
		if b, has := p.St.atoms["nil("+m+".Payload)"]; !has || b {
			ok, why = false, "may sign a nil payload"
		}
		if set, has := p.St.terms["len("+m+".Signature)"]; !has || !set.equal(iset{{0, 0}}) {
			ok, why = false, "may sign a message that already carries a signature"
		}
	}
	r.Check(ok && n > 0, rule, "audit: go-cose Sign1Message.Sign", w.FnPos(fn), "from the pinned source: Signature is stored only after signer.Sign returned nil, on a message with payload and without signature; nothing else is written", "the pinned go-cose does not behave as the model table says: "+why)

	e2 := NewEngine(w)
	p2 := e2.Run(nm, nil, nil)
	ok2 := len(p2) == 1 && p2[0].Ret != nil && p2[0].Rets[0].Kind == KAddr
	if ok2 {
		base := ensureSel(p2[0].Rets[0].Loc)
		if v, has := p2[0].St.mem[base+".Signature"]; has && !(v.Kind == KNil || v.Kind == KZero) {
			ok2 = false
		}
		if v, has := p2[0].St.mem[base+".Payload"]; has && !(v.Kind == KNil || v.Kind == KZero) {
			ok2 = false
		}
	}
	r.Check(ok2, rule, "audit: go-cose NewSign1Message", w.FnPos(nm), "from the pinned source: fresh message without payload and signature", "NewSign1Message does not return a fresh message with empty payload and signature")
}

// auditNilOnError: every return of fn (and of the functions whose results it
// passes through unchanged, to depth 4) that may carry a non-nil error carries
// a nil first result. Syntactic, over the dependency's SSA: a return is fine
// when its error operand is the nil constant, when its first operand is the
// nil constant, or when both operands are the two results of one call to a
// function that satisfies the rule itself.
func auditNilOnError(w *World, fn *ssa.Function, depth int) (bool, string) {
	if fn == nil || fn.Blocks == nil {
		return false, "no body"
	}
	if depth > 4 {
		return false, "pass-through chain too deep"
	}
	n := fn.Signature.Results().Len()
	if n < 2 {
		return false, "not a (value, error) function"
	}
	for _, b := range fn.Blocks {
		ret, ok := b.Instrs[len(b.Instrs)-1].(*ssa.Return)
		if !ok {
			continue
		}
		v, e := ret.Results[0], ret.Results[n-1]
		if isNilConst(e) || isNilConst(v) {
			continue
		}
		ev, ok1 := e.(*ssa.Extract)
		vv, ok2 := v.(*ssa.Extract)
		if ok1 && ok2 && ev.Tuple == vv.Tuple && vv.Index == 0 {
			if c, ok := ev.Tuple.(*ssa.Call); ok {
				var callees []*ssa.Function
				if f := c.Call.StaticCallee(); f != nil {
					callees = []*ssa.Function{f}
				} else if c.Call.IsInvoke() {
					callees = w.depImplementations(c.Call.Value.Type(), c.Call.Method.Name())
				}
				if len(callees) == 0 {
					return false, "unresolved pass-through callee at " + w.InstrPos(c)
				}
				for _, f := range callees {
					if ok, why := auditNilOnError(w, f, depth+1); !ok {
						return false, f.String() + ": " + why
					}
				}
				continue
			}
		}
		// error known non-nil here only if the value is nil: anything else is unproven
		if knownNilAt(e, b) {
			continue
		}
		return false, "return at " + w.InstrPos(ret) + " may carry both a value and an error"
	}
	return true, ""
}

// depImplementations: the methods named m of all types in the program that
// implement the interface type t (whole-program load).
func (w *World) depImplementations(t types.Type, m string) []*ssa.Function {
	it, ok := t.Underlying().(*types.Interface)
	if !ok {
		return nil
	}
	var out []*ssa.Function
	for _, T := range w.Prog.RuntimeTypes() {
		if types.IsInterface(T) || !types.Implements(T, it) {
			continue
		}
		if sel := w.Prog.MethodSets.MethodSet(T).Lookup(nil, m); sel != nil {
			if f := w.Prog.MethodValue(sel); f != nil && f.Blocks != nil {
				out = append(out, f)
			}
		} else if f := w.Prog.LookupMethod(T, nil, m); f != nil && f.Blocks != nil {
			out = append(out, f)
		}
	}
	return out
}

// auditCoseMarshal: the tagged MarshalCBOR of a Sign1Message returns nil bytes
// whenever it returns an error (so passing both results through is as good as
// returning nil explicitly on the error path).
func auditCoseMarshal(w *World, r *Recorder, rule string) {
	if !w.Whole {
		return
	}
	fn := w.depFunc(cMarshalMsg)
	if fn == nil {
		r.Undecide(rule, "go-cose Sign1Message.MarshalCBOR", "-", "dependency function not found in the whole-program load")
		return
	}
	ok, why := auditNilOnError(w, fn, 0)
	r.Check(ok, rule, "audit: go-cose Sign1Message.MarshalCBOR nil-on-error", w.FnPos(fn), "from the pinned sources: every return that may carry an error carries nil bytes (through the encoder it delegates to)", "the pinned go-cose/cbor may return bytes together with an error: "+why)
}
