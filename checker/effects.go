package main

// E5 — effects (mod/ref) and provenance summaries over in-repo functions,
// computed to a fixpoint over the call graph.

import (
	"go/types"
	"sort"
	"strings"

	"golang.org/x/tools/go/ssa"
)

// Prov says where a value's memory may come from.
type Prov struct {
	// Deep: bit i: reachable from parameter i through at least one load
	// (not the parameter's immediate pointee). Deep is a subset of Params.
	Deep    uint64
	Params  uint64               // bit i: reachable from parameter i
	Globals map[*ssa.Global]bool // reachable from these package-level variables
	Fresh   bool                 // allocated during this call (here or in a callee)
	Unknown bool                 // cannot tell
	// Holds: the (fresh) object contains references into the memory of these
	// package-level variables (a shallow copy of a global struct with maps /
	// slices / pointers in it). Writing the object itself is not a write to the
	// global; handing it out makes the global's memory reachable from it.
	Holds map[*ssa.Global]bool
	// HoldsParams: bit i: the (fresh) object contains references into memory
	// reachable from parameter i (a new slice filled with the receiver's
	// element pointers). Writing the object itself is not a write to the
	// parameter; loading from it, or handing it to a callee that writes
	// through what it loads, reaches the parameter's memory.
	HoldsParams uint64
	// DeepVia: for a Deep bit i, the fields of parameter i's pointee struct
	// through which the memory was reached (first load). -1 / empty: unknown.
	DeepVia map[int]map[int]bool
}

func (p *Prov) merge(q Prov) bool {
	ch := false
	for i, fs := range q.DeepVia {
		for f := range fs {
			if !p.DeepVia[i][f] {
				if p.DeepVia == nil {
					p.DeepVia = map[int]map[int]bool{}
				}
				if p.DeepVia[i] == nil {
					p.DeepVia[i] = map[int]bool{}
				}
				p.DeepVia[i][f] = true
				ch = true
			}
		}
	}
	// a deep bit arriving without field information is reached through unknown fields
	for i := 0; i < 64; i++ {
		if q.Deep&(1<<uint(i)) != 0 && len(q.DeepVia[i]) == 0 && !p.DeepVia[i][-1] {
			if p.DeepVia == nil {
				p.DeepVia = map[int]map[int]bool{}
			}
			if p.DeepVia[i] == nil {
				p.DeepVia[i] = map[int]bool{}
			}
			p.DeepVia[i][-1] = true
			ch = true
		}
	}
	if p.Params|q.Params != p.Params {
		p.Params |= q.Params
		ch = true
	}
	if p.Deep|q.Deep != p.Deep {
		p.Deep |= q.Deep
		ch = true
	}
	if q.Fresh && !p.Fresh {
		p.Fresh = true
		ch = true
	}
	if p.HoldsParams|q.HoldsParams != p.HoldsParams {
		p.HoldsParams |= q.HoldsParams
		ch = true
	}
	if q.Unknown && !p.Unknown {
		p.Unknown = true
		ch = true
	}
	for g := range q.Globals {
		if !p.Globals[g] {
			if p.Globals == nil {
				p.Globals = map[*ssa.Global]bool{}
			}
			p.Globals[g] = true
			ch = true
		}
	}
	for g := range q.Holds {
		if !p.Holds[g] {
			if p.Holds == nil {
				p.Holds = map[*ssa.Global]bool{}
			}
			p.Holds[g] = true
			ch = true
		}
	}
	return ch
}

// sharedGlobals: the package-level variables whose memory a value with this
// provenance references, directly or through what it holds.
func (p Prov) sharedGlobals() []*ssa.Global {
	var out []*ssa.Global
	seen := map[*ssa.Global]bool{}
	for g := range p.Globals {
		if !seen[g] {
			seen[g] = true
			out = append(out, g)
		}
	}
	for g := range p.Holds {
		if !seen[g] {
			seen[g] = true
			out = append(out, g)
		}
	}
	sort.Slice(out, func(i, j int) bool { return out[i].Name() < out[j].Name() })
	return out
}

func (p Prov) String() string {
	var s []string
	for i := 0; i < 64; i++ {
		if p.Params&(1<<uint(i)) != 0 {
			s = append(s, "param"+string(rune('0'+i)))
		}
	}
	for i := 0; i < 64; i++ {
		if p.Deep&(1<<uint(i)) != 0 {
			s = append(s, "deep"+string(rune('0'+i)))
		}
	}
	var gs []string
	for g := range p.Globals {
		gs = append(gs, "global:"+g.Name())
	}
	for g := range p.Holds {
		gs = append(gs, "holds:"+g.Name())
	}
	sort.Strings(gs)
	s = append(s, gs...)
	for k := 0; k < 64; k++ {
		if p.HoldsParams&(1<<uint(k)) != 0 {
			s = append(s, "holds-param"+string(rune('0'+k)))
		}
	}
	if p.Fresh {
		s = append(s, "fresh")
	}
	if p.Unknown {
		s = append(s, "unknown")
	}
	if len(s) == 0 {
		return "none"
	}
	return strings.Join(s, "|")
}

func (p Prov) onlyFresh() bool {
	return p.Params == 0 && p.Deep == 0 && len(p.Globals) == 0 && !p.Unknown
}

// deepen: the value was loaded from memory described by p.
func (p Prov) deepen() Prov {
	q := p
	q.Deep |= p.Params
	return q
}

type WriteSite struct {
	Instr ssa.Instruction
	What  string // "store", "mapupdate", "append", "copy", "delete", "call <callee>"
	Prov  Prov
	Field string // "Type.Field" when the store goes through a FieldAddr
	// Target: for leak sites, the provenance of the memory written (Prov is
	// then the provenance of the value).
	Target Prov
}

type Effects struct {
	Fn              *ssa.Function
	WritesParam     []bool
	WritesParamDeep []bool // the write goes through a pointer loaded from the parameter's memory
	// WritesParamShallow: the parameter's immediate pointee (its own fields /
	// elements) is written. DeepFields: the fields of the parameter's pointee
	// struct through which deep writes go (-1: unknown).
	WritesParamShallow []bool
	DeepFields         []map[int]bool
	WritesGlobals      map[*ssa.Global]bool
	WritesUnknown      bool
	Sites              []WriteSite // direct write sites in this function (non-local targets)
	FieldReads         map[string]bool
	GlobalReads        map[*ssa.Global]bool
	RetProv            []Prov
	Unmodelled         map[string]bool
	Calls              map[string]bool // external callees (by name), for source-of-nondeterminism rules
	Spawns             bool
	MapRanges          []ssa.Instruction // range over a map
	// StoresParam: bit i set when memory reachable from parameter i may be
	// stored (retained) in non-local memory by this function or a callee.
	StoresParam uint64
	RetainSites []WriteSite
	// LeakSites: a value that references package-level memory is stored into
	// non-local memory (an object of the caller, another global).
	LeakSites []WriteSite
	// ParamCalls (second pass only): calls through this function's own
	// function-typed parameters, with the provenance (in terms of this
	// function's parameters) of the memory each argument refers to. Their
	// effects are not part of the summary: each call site of this function
	// applies the effects of the function it actually binds.
	ParamCalls map[int]*ParamCall
}

type ParamCall struct {
	K    int    // index of the function-typed parameter
	Args []Prov // per argument of the call: provenance of the memory it refers to
}

func (ef *Effects) Writes() bool {
	if ef.WritesUnknown || len(ef.WritesGlobals) > 0 {
		return true
	}
	for _, b := range ef.WritesParam {
		if b {
			return true
		}
	}
	return false
}

type effectsAnalysis struct {
	w   *World
	sum map[*ssa.Function]*Effects
	// full: the finished context-insensitive summaries while the second,
	// callback-sensitive pass runs (nil during the first pass)
	full map[*ssa.Function]*Effects
	prov map[ssa.Value]*Prov
	// contents of local allocations: union of provenance of stored values
	changed bool
}

func (w *World) Effects() map[*ssa.Function]*Effects {
	if w.effects != nil {
		return w.effects
	}
	a := &effectsAnalysis{w: w, sum: map[*ssa.Function]*Effects{}}
	var fns []*ssa.Function
	for fn := range w.AllFuncs {
		if w.Inlinable(fn) && fn.Blocks != nil {
			if fn.TypeParams().Len() > 0 && len(fn.TypeArgs()) == 0 {
				continue
			}
			fns = append(fns, fn)
		}
	}
	sort.Slice(fns, func(i, j int) bool { return fns[i].String() < fns[j].String() })
	for _, fn := range fns {
		a.sum[fn] = newEffects(fn)
	}
	fixpoint := func() {
		for round := 0; round < 20; round++ {
			a.changed = false
			for _, fn := range fns {
				a.analyse(fn)
			}
			if !a.changed {
				w.effectRounds = round + 1
				break
			}
		}
	}
	fixpoint()
	// Second pass, only when some function calls through a function-typed
	// parameter of its own (a visitor / callback): the first pass charges such
	// a function with the effects of every function any caller binds; the
	// second keeps those calls symbolic (ParamCalls) and lets each call site
	// apply the effects of the function it binds. A function whose callbacks
	// are all resolved that way gets the sharper summary; a function that still
	// has symbolic callback calls (it is itself the visitor's host) keeps the
	// first, context-insensitive one.
	if hasParamCalls(fns) {
		full := a.sum
		a.full = full
		a.sum = map[*ssa.Function]*Effects{}
		for _, fn := range fns {
			a.sum[fn] = newEffects(fn)
			a.sum[fn].ParamCalls = map[int]*ParamCall{}
			a.sum[fn].RetProv = full[fn].RetProv
		}
		fixpoint()
		for _, fn := range fns {
			if len(a.sum[fn].ParamCalls) > 0 {
				a.sum[fn] = full[fn]
			}
		}
		a.full = nil
	}
	w.effects = a.sum
	return a.sum
}

func newEffects(fn *ssa.Function) *Effects {
	n := len(fn.Params) + len(fn.FreeVars)
	return &Effects{Fn: fn, WritesParam: make([]bool, n), WritesParamDeep: make([]bool, n), WritesParamShallow: make([]bool, n), DeepFields: make([]map[int]bool, n), WritesGlobals: map[*ssa.Global]bool{},
		FieldReads: map[string]bool{}, GlobalReads: map[*ssa.Global]bool{}, RetProv: make([]Prov, fn.Signature.Results().Len()),
		Unmodelled: map[string]bool{}, Calls: map[string]bool{}}
}

// hasParamCalls: some function calls a function-typed parameter of its own.
func hasParamCalls(fns []*ssa.Function) bool {
	for _, fn := range fns {
		for _, b := range fn.Blocks {
			for _, in := range b.Instrs {
				if ci, ok := in.(ssa.CallInstruction); ok {
					if prm, ok := ci.Common().Value.(*ssa.Parameter); ok && !ci.Common().IsInvoke() && prm.Parent() == fn {
						return true
					}
				}
			}
		}
	}
	return false
}

func paramIndex(fn *ssa.Function, p *ssa.Parameter) int {
	for i, q := range fn.Params {
		if q == p {
			return i
		}
	}
	return -1
}

// ShallowWritesOracle: per parameter, whether the function (or a callee) may
// write the parameter's immediate pointee; nil when unknown.
func (w *World) ShallowWritesOracle() func(fn *ssa.Function) []bool {
	sum := w.Effects()
	return func(fn *ssa.Function) []bool {
		ef := sum[fn]
		if ef == nil || ef.WritesUnknown {
			return nil
		}
		return ef.WritesParamShallow
	}
}

// EffectsOracle adapts the summaries for the path engine.
func (w *World) EffectsOracle() func(fn *ssa.Function) (bool, bool) {
	sum := w.Effects()
	return func(fn *ssa.Function) (bool, bool) {
		ef := sum[fn]
		if ef == nil {
			return true, false
		}
		return ef.Writes(), true
	}
}

func (a *effectsAnalysis) analyse(fn *ssa.Function) {
	ef := a.sum[fn]
	a.prov = map[ssa.Value]*Prov{}
	// local fixpoint for provenance (phi cycles, alloc contents)
	for i := 0; i < 10; i++ {
		ch := false
		for _, b := range fn.Blocks {
			for _, in := range b.Instrs {
				if v, ok := in.(ssa.Value); ok {
					if a.update(fn, v) {
						ch = true
					}
				}
			}
		}
		if !ch {
			break
		}
	}
	ef.Sites = ef.Sites[:0]
	ef.RetainSites = ef.RetainSites[:0]
	ef.LeakSites = ef.LeakSites[:0]
	ef.MapRanges = ef.MapRanges[:0]
	for _, b := range fn.Blocks {
		for _, in := range b.Instrs {
			switch x := in.(type) {
			case *ssa.Store:
				p := a.addrProv(x.Addr)
				field := ""
				if fa, ok := x.Addr.(*ssa.FieldAddr); ok {
					field = fieldKey(fa)
				}
				a.write(ef, p, WriteSite{Instr: x, What: "store", Prov: p, Field: field})
				if !p.onlyFresh() && pointerLike(x.Val.Type()) {
					a.retain(ef, a.get(x.Val), WriteSite{Instr: x, What: "store", Prov: p, Field: field})
				}
			case *ssa.MapUpdate:
				p := a.get(x.Map)
				a.write(ef, p, WriteSite{Instr: x, What: "mapupdate", Prov: p})
				if !p.onlyFresh() {
					if pointerLike(x.Value.Type()) {
						a.retain(ef, a.get(x.Value), WriteSite{Instr: x, What: "mapupdate", Prov: p})
					}
					if pointerLike(x.Key.Type()) {
						a.retain(ef, a.get(x.Key), WriteSite{Instr: x, What: "mapupdate-key", Prov: p})
					}
				}
			case *ssa.Go:
				ef.Spawns = true
			case *ssa.Range:
				if _, ok := x.X.Type().Underlying().(*types.Map); ok {
					ef.MapRanges = append(ef.MapRanges, x)
				}
			case *ssa.FieldAddr:
				if p := a.get(x.X); !p.onlyFresh() {
					ef.FieldReads[fieldKey(x)] = true
				}
			case *ssa.Field:
				ef.FieldReads[typeFieldKey(x.X.Type(), x.Field)] = true
			case *ssa.UnOp:
				if g, ok := x.X.(*ssa.Global); ok {
					if !ef.GlobalReads[g] {
						ef.GlobalReads[g] = true
					}
				}
			case *ssa.Return:
				for i, r := range x.Results {
					if i < len(ef.RetProv) {
						if ef.RetProv[i].merge(a.get(r)) {
							a.changed = true
						}
					}
				}
			case ssa.CallInstruction:
				a.callEffects(fn, ef, x)
			case *ssa.MakeClosure:
				a.closureEffects(ef, x)
			}
		}
	}
}

func fieldKey(fa *ssa.FieldAddr) string {
	return typeFieldKey(fa.X.Type().Underlying().(*types.Pointer).Elem(), fa.Field)
}

func typeFieldKey(t types.Type, i int) string {
	name := t.String()
	if n, ok := t.(*types.Named); ok {
		name = n.Obj().Name()
		if n.TypeArgs().Len() > 0 {
			name = n.Origin().Obj().Name()
		}
	}
	st, ok := t.Underlying().(*types.Struct)
	if !ok {
		return name + ".?"
	}
	return name + "." + st.Field(i).Name()
}

func (a *effectsAnalysis) write(ef *Effects, p Prov, site WriteSite) {
	if p.onlyFresh() {
		return
	}
	ef.Sites = append(ef.Sites, site)
	for i := range ef.WritesParam {
		if (p.Params|p.Deep)&(1<<uint(i)) != 0 && !ef.WritesParam[i] {
			ef.WritesParam[i] = true
			a.changed = true
		}
		if p.Deep&(1<<uint(i)) != 0 && !ef.WritesParamDeep[i] {
			ef.WritesParamDeep[i] = true
			a.changed = true
		}
		if p.Params&(1<<uint(i)) != 0 && p.Deep&(1<<uint(i)) == 0 && !ef.WritesParamShallow[i] {
			ef.WritesParamShallow[i] = true
			a.changed = true
		}
		if p.Deep&(1<<uint(i)) != 0 {
			fs := p.DeepVia[i]
			if len(fs) == 0 {
				fs = map[int]bool{-1: true}
			}
			for f := range fs {
				if !ef.DeepFields[i][f] {
					if ef.DeepFields[i] == nil {
						ef.DeepFields[i] = map[int]bool{}
					}
					ef.DeepFields[i][f] = true
					a.changed = true
				}
			}
		}
	}
	for g := range p.Globals {
		if !ef.WritesGlobals[g] {
			ef.WritesGlobals[g] = true
			a.changed = true
		}
	}
	if p.Unknown && !ef.WritesUnknown {
		ef.WritesUnknown = true
		a.changed = true
	}
}

// retain records that memory reachable from parameters (per vp) is stored
// into non-local memory.
func (a *effectsAnalysis) retain(ef *Effects, vp Prov, site WriteSite) {
	if len(vp.Globals)+len(vp.Holds) > 0 {
		ls := site
		ls.Target = site.Prov
		ls.Prov = vp
		ef.LeakSites = append(ef.LeakSites, ls)
	}
	if vp.Params == 0 {
		return
	}
	if ef.StoresParam|vp.Params != ef.StoresParam {
		ef.StoresParam |= vp.Params
		a.changed = true
	}
	site.Prov = vp
	ef.RetainSites = append(ef.RetainSites, site)
}

func (a *effectsAnalysis) get(v ssa.Value) Prov {
	switch x := v.(type) {
	case *ssa.Const, *ssa.Function, *ssa.Builtin:
		return Prov{}
	case *ssa.Global:
		return Prov{Globals: map[*ssa.Global]bool{x: true}}
	case *ssa.Parameter:
		for i, p := range x.Parent().Params {
			if p == x {
				if !pointerLike(x.Type()) {
					return Prov{}
				}
				return Prov{Params: 1 << uint(i)}
			}
		}
	case *ssa.FreeVar:
		// a captured variable is a pseudo-parameter after the real ones: what
		// the closure does to it is charged to the function that creates the
		// closure, at the MakeClosure instruction (closureEffects)
		fn := x.Parent()
		for j, fv := range fn.FreeVars {
			if fv == x && len(fn.Params)+j < 64 {
				return Prov{Params: 1 << uint(len(fn.Params)+j)}
			}
		}
		return Prov{Unknown: true}
	}
	if p := a.prov[v]; p != nil {
		return *p
	}
	return Prov{}
}

// addrProv: provenance of the memory an address designates.
func (a *effectsAnalysis) addrProv(addr ssa.Value) Prov {
	if al, ok := addrRootAlloc(addr); ok && !al.Heap {
		_ = al
		return Prov{Fresh: true}
	}
	return a.get(addr)
}

// addrRootAlloc follows FieldAddr/IndexAddr chains to a local allocation.
func addrRootAlloc(v ssa.Value) (*ssa.Alloc, bool) {
	for {
		switch x := v.(type) {
		case *ssa.Alloc:
			return x, true
		case *ssa.FieldAddr:
			v = x.X
		case *ssa.IndexAddr:
			// only arrays accessed through their pointer stay within the allocation
			if _, ok := x.X.Type().Underlying().(*types.Pointer); ok {
				v = x.X
			} else {
				return nil, false
			}
		default:
			return nil, false
		}
	}
}

// pointerLike: values of this type can reference memory.
func pointerLike(t types.Type) bool {
	switch u := t.Underlying().(type) {
	case *types.Basic:
		return u.Kind() == types.UnsafePointer
	case *types.Struct:
		for i := 0; i < u.NumFields(); i++ {
			if pointerLike(u.Field(i).Type()) {
				return true
			}
		}
		return false
	case *types.Array:
		return pointerLike(u.Elem())
	case *types.Tuple:
		for i := 0; i < u.Len(); i++ {
			if pointerLike(u.At(i).Type()) {
				return true
			}
		}
		return false
	}
	return true
}

func (a *effectsAnalysis) set(v ssa.Value, p Prov) bool {
	cur := a.prov[v]
	if cur == nil {
		cur = &Prov{}
		a.prov[v] = cur
	}
	return cur.merge(p)
}

// update recomputes the provenance of one value; reports change.
func (a *effectsAnalysis) update(fn *ssa.Function, v ssa.Value) bool {
	if !pointerLike(v.Type()) {
		return false
	}
	switch x := v.(type) {
	case *ssa.Alloc:
		// the allocation itself is fresh; what it *contains* is the union of
		// what is stored into it (handled at loads). References into
		// package-level memory among the contents are remembered as Holds.
		np := Prov{Fresh: true}
		var cont Prov
		a.allocContents(x, &cont, map[ssa.Value]bool{})
		for g := range cont.Globals {
			if np.Holds == nil {
				np.Holds = map[*ssa.Global]bool{}
			}
			np.Holds[g] = true
		}
		for g := range cont.Holds {
			if np.Holds == nil {
				np.Holds = map[*ssa.Global]bool{}
			}
			np.Holds[g] = true
		}
		np.HoldsParams = cont.Params | cont.HoldsParams
		return a.set(v, np)
	case *ssa.MakeSlice:
		// a new slice: fresh; what is stored into its elements (index stores,
		// copy, callees handed the slice) is remembered as what it holds
		np := Prov{Fresh: true}
		var cont Prov
		a.allocContents(x, &cont, map[ssa.Value]bool{})
		for g := range cont.Globals {
			if np.Holds == nil {
				np.Holds = map[*ssa.Global]bool{}
			}
			np.Holds[g] = true
		}
		for g := range cont.Holds {
			if np.Holds == nil {
				np.Holds = map[*ssa.Global]bool{}
			}
			np.Holds[g] = true
		}
		np.HoldsParams = cont.Params | cont.HoldsParams
		return a.set(v, np)
	case *ssa.MakeMap, *ssa.MakeChan:
		return a.set(v, Prov{Fresh: true})
	case *ssa.MakeClosure:
		p := Prov{Fresh: true}
		for _, b := range x.Bindings {
			p.merge(a.get(b))
		}
		return a.set(v, p)
	case *ssa.FieldAddr:
		return a.set(v, a.get(x.X))
	case *ssa.IndexAddr:
		return a.set(v, a.get(x.X))
	case *ssa.Field:
		return a.set(v, a.get(x.X))
	case *ssa.Index:
		return a.set(v, a.get(x.X))
	case *ssa.Slice:
		return a.set(v, a.get(x.X))
	case *ssa.Lookup:
		return a.set(v, a.get(x.X))
	case *ssa.Range:
		return a.set(v, a.get(x.X))
	case *ssa.Next:
		return a.set(v, a.get(x.Iter))
	case *ssa.Extract:
		if c, ok := x.Tuple.(*ssa.Call); ok {
			return a.set(v, a.callResultProv(c, x.Index))
		}
		return a.set(v, a.get(x.Tuple))
	case *ssa.Phi:
		ch := false
		for _, e := range x.Edges {
			if a.set(v, a.get(e)) {
				ch = true
			}
		}
		return ch
	case *ssa.Convert:
		return a.set(v, a.get(x.X))
	case *ssa.ChangeType:
		return a.set(v, a.get(x.X))
	case *ssa.ChangeInterface:
		return a.set(v, a.get(x.X))
	case *ssa.MakeInterface:
		return a.set(v, a.get(x.X))
	case *ssa.SliceToArrayPointer:
		return a.set(v, a.get(x.X))
	case *ssa.TypeAssert:
		return a.set(v, a.get(x.X))
	case *ssa.BinOp:
		p := a.get(x.X)
		p.merge(a.get(x.Y))
		return a.set(v, p)
	case *ssa.UnOp:
		if x.Op.String() != "*" {
			return a.set(v, a.get(x.X))
		}
		// load
		if fa, ok := x.X.(*ssa.FieldAddr); ok {
			if al, ok := fa.X.(*ssa.Alloc); ok {
				// a field of a local struct: what was stored into that field
				p := Prov{}
				a.allocFieldContents(al, fa.Field, &p)
				return a.set(v, p.deepen())
			}
		}
		if al, ok := addrRootAlloc(x.X); ok {
			// contents of a local/heap allocation made here: union of stored values
			p := Prov{}
			a.allocContents(al, &p, map[ssa.Value]bool{})
			return a.set(v, p.deepen())
		}
		src := a.get(x.X)
		res := src.deepen()
		if src.HoldsParams != 0 {
			// loading from a fresh object that holds references into a
			// parameter's memory yields that memory
			res.Params |= src.HoldsParams
			res.Deep |= src.HoldsParams
		}
		// first-level loads: remember through which field of the parameter's
		// pointee the deeper memory is reached
		first := src.Params &^ src.Deep
		if first != 0 {
			res.DeepVia = map[int]map[int]bool{}
			for i, fs := range src.DeepVia {
				res.DeepVia[i] = fs
			}
			f := -1
			if fa, ok := x.X.(*ssa.FieldAddr); ok {
				if bp := a.get(fa.X); bp.Params&^bp.Deep == first && bp.Deep == 0 {
					f = fa.Field
				}
			}
			for i := 0; i < 64; i++ {
				if first&(1<<uint(i)) != 0 {
					res.DeepVia[i] = map[int]bool{f: true}
				}
			}
		}
		return a.set(v, res)
	case *ssa.Call:
		if x.Call.Signature().Results().Len() == 1 {
			return a.set(v, a.callResultProv(x, 0))
		}
		return false
	}
	return a.set(v, Prov{Unknown: true})
}

// allocContents unions the provenance of every value stored into the
// allocation (or a sub-location of it), and of memory a callee may have
// written into it.
func (a *effectsAnalysis) allocContents(root ssa.Value, p *Prov, seen map[ssa.Value]bool) {
	if seen[root] {
		return
	}
	seen[root] = true
	refs := root.Referrers()
	if refs == nil {
		return
	}
	for _, r := range *refs {
		switch y := r.(type) {
		case *ssa.Store:
			if y.Addr == root {
				p.merge(a.get(y.Val))
			}
		case *ssa.FieldAddr:
			if y.X == root {
				a.allocContents(y, p, seen)
			}
		case *ssa.IndexAddr:
			if y.X == root {
				a.allocContents(y, p, seen)
			}
		case *ssa.Slice:
			if y.X == root {
				a.allocContents(y, p, seen)
			}
		case ssa.CallInstruction:
			// address passed to a callee that may store into it: the contents
			// may then be anything the callee can produce from its arguments
			c := y.Common()
			for _, arg := range c.Args {
				if arg == root {
					p.merge(a.calleeMayStore(y))
				}
			}
		case *ssa.MakeInterface:
			if y.X == root {
				a.allocContents(y, p, seen)
			}
		}
	}
}

// allocFieldContents: what field f of the local struct al may hold: values
// stored to that field, whole-struct stores, and what a callee handed the
// struct's address may have stored — unless its summary shows that it does not
// write the struct's own fields.
func (a *effectsAnalysis) allocFieldContents(al *ssa.Alloc, f int, p *Prov) {
	refs := al.Referrers()
	if refs == nil {
		return
	}
	for _, r := range *refs {
		switch y := r.(type) {
		case *ssa.Store:
			if y.Addr == ssa.Value(al) {
				p.merge(a.get(y.Val))
			}
		case *ssa.FieldAddr:
			if y.X == ssa.Value(al) && y.Field == f {
				a.allocContents(y, p, map[ssa.Value]bool{})
			}
		case ssa.CallInstruction:
			c := y.Common()
			full := a.fullArgs(c)
			for i, arg := range full {
				if arg != ssa.Value(al) {
					continue
				}
				shallow := true
				if callees := a.w.Callees(y); len(callees) > 0 {
					shallow = false
					for _, cf := range callees {
						cs := a.sum[cf]
						if cs == nil || i >= len(cs.WritesParamShallow) || cs.WritesParamShallow[i] || cs.WritesUnknown {
							shallow = true
						}
					}
				}
				if shallow {
					p.merge(a.calleeMayStore(y))
				}
			}
		case *ssa.MakeInterface:
			if y.X == ssa.Value(al) {
				a.allocContents(y, p, map[ssa.Value]bool{})
			}
		}
	}
}

// calleeMayStore: provenance of what a callee handed an address might store
// there: fresh memory plus anything reachable from the other arguments.
func (a *effectsAnalysis) calleeMayStore(site ssa.CallInstruction) Prov {
	c := site.Common()
	name := calleeName(c)
	if m, ok := lookupModel(name); ok {
		p := Prov{Fresh: true}
		// decoders copy: modelled callees with an explicit Retains list keep
		// references only to those arguments
		full := a.fullArgs(c)
		for _, i := range m.Retains {
			if i < len(full) {
				p.merge(a.get(full[i]))
			}
		}
		return p
	}
	p := Prov{Fresh: true}
	for _, arg := range c.Args {
		p.merge(a.get(arg))
	}
	if c.IsInvoke() {
		p.merge(a.get(c.Value))
	}
	return p
}

func (a *effectsAnalysis) fullArgs(c *ssa.CallCommon) []ssa.Value {
	if c.IsInvoke() {
		return append([]ssa.Value{c.Value}, c.Args...)
	}
	return c.Args
}

var provPropagators = map[string]bool{
	"reflect.ValueOf": true, "reflect.TypeOf": false,
	"(reflect.Value).Addr": true, "(reflect.Value).Elem": true, "(reflect.Value).Field": true, "(reflect.Value).Interface": true,
	"(*bytes.Buffer).Bytes": true, "bytes.NewReader": true, "encoding/json.NewDecoder": true,
	"strings.Split": true,
}

func (a *effectsAnalysis) callResultProv(x *ssa.Call, idx int) Prov {
	c := &x.Call
	sig := c.Signature()
	if idx < sig.Results().Len() && !pointerLike(sig.Results().At(idx).Type()) {
		return Prov{}
	}
	if b, ok := c.Value.(*ssa.Builtin); ok {
		switch b.Name() {
		case "append":
			p := Prov{Fresh: true}
			p.merge(a.get(c.Args[0]))
			if len(c.Args) > 1 {
				// elements appended are *contents*; for reachability they count
				p.merge(a.get(c.Args[1]))
			}
			return p
		case "min", "max", "len", "cap":
			return Prov{}
		}
		return Prov{Unknown: true}
	}
	callees := a.w.Callees(x)
	full := a.fullArgs(c)
	var p Prov
	resolved := false
	for _, f := range callees {
		sum := a.sum[f]
		if sum == nil {
			// a function value resolved to a library function or to a bound
			// method of a library interface (em.Marshal handed to a helper): its
			// model says what the result may reference
			if c.StaticCallee() == nil && !c.IsInvoke() {
				if m, ok := lookupModel(externalModelName(f)); ok {
					resolved = true
					p.Fresh = true
					for _, i := range m.Retains {
						if i < len(full) {
							p.merge(a.get(full[i]))
						}
					}
				}
			}
			continue
		}
		resolved = true
		if idx >= len(sum.RetProv) {
			continue
		}
		rp := sum.RetProv[idx]
		if rp.Fresh {
			p.Fresh = true
		}
		if rp.Unknown {
			p.Unknown = true
		}
		for g := range rp.Globals {
			p.merge(Prov{Globals: map[*ssa.Global]bool{g: true}})
		}
		for g := range rp.Holds {
			p.merge(Prov{Holds: map[*ssa.Global]bool{g: true}})
		}
		for i := range f.Params {
			if rp.HoldsParams&(1<<uint(i)) != 0 && i < len(full) {
				q := a.get(full[i])
				p.HoldsParams |= q.Params | q.HoldsParams
				for g := range q.Globals {
					p.merge(Prov{Holds: map[*ssa.Global]bool{g: true}})
				}
				for g := range q.Holds {
					p.merge(Prov{Holds: map[*ssa.Global]bool{g: true}})
				}
				if q.Unknown {
					p.Unknown = true
				}
			}
		}
		if (rp.Params|rp.Deep)>>uint(len(f.Params)) != 0 {
			p.Unknown = true // the result may reference a captured variable of the closure
		}
		for i := range f.Params {
			if rp.Params&(1<<uint(i)) != 0 && i < len(full) {
				q := a.get(full[i])
				if rp.Deep&(1<<uint(i)) != 0 {
					q = q.deepen()
				}
				p.merge(q)
			}
		}
	}
	if resolved {
		return p
	}
	name := calleeName(c)
	if m, ok := lookupModel(name); ok {
		if prop, has := provPropagators[name]; has {
			if !prop {
				return Prov{}
			}
			q := Prov{}
			for _, arg := range full {
				q.merge(a.get(arg))
			}
			return q
		}
		q := Prov{Fresh: true}
		if !m.Pure || len(m.Retains) > 0 {
			for _, i := range m.Retains {
				if i < len(full) {
					q.merge(a.get(full[i]))
				}
			}
		}
		if name == "invoke "+pCBOR+".DecMode.UnmarshalFirst" && idx == 0 {
			q.merge(a.get(full[1])) // rest aliases data
		}
		if strings.HasPrefix(name, "("+pEAT+".Nonce).GetI") || name == "("+pEAT+".Profile).Get" {
			q.merge(a.get(full[0]))
		}
		return q
	}
	// unmodelled external: may return anything reachable from its arguments
	q := Prov{Fresh: true}
	for _, arg := range full {
		q.merge(a.get(arg))
	}
	return q
}

// closureEffects charges what a closure does to its captured variables to the
// function that creates it: the bindings are known here and nowhere else. A
// call of the closure elsewhere (through a function-typed parameter, resolved
// by the call graph) applies its effects on real parameters only; a call that
// the call graph cannot resolve has unknown effects anyway.
func (a *effectsAnalysis) closureEffects(ef *Effects, mc *ssa.MakeClosure) {
	f, ok := mc.Fn.(*ssa.Function)
	if !ok {
		return
	}
	sum := a.sum[f]
	if sum == nil {
		// a bound method value of a library type (em.Marshal): creating it has
		// no effect; what calling it does is decided where it is called, from
		// the model of the method
		if strings.HasSuffix(f.Name(), "$bound") {
			if _, ok := lookupModel(externalModelName(f)); ok {
				return
			}
		}
		if !ef.WritesUnknown {
			ef.WritesUnknown = true
			a.changed = true
		}
		return
	}
	n := len(f.Params)
	for j, b := range mc.Bindings {
		i := n + j
		if i < len(sum.WritesParam) && sum.WritesParam[i] {
			deep := sum.WritesParamDeep[i]
			if _, isLocal := addrRootAlloc(b); !isLocal || deep {
				p := a.argPointeeProv(b)
				if deep {
					p = p.deepen()
				}
				a.write(ef, p, WriteSite{Instr: mc, What: "closure " + f.String() + " (writes through captured " + f.FreeVars[j].Name() + ")", Prov: p})
			}
		}
		if i < 64 && sum.StoresParam&(1<<uint(i)) != 0 {
			a.retain(ef, a.argPointeeProv(b), WriteSite{Instr: mc, What: "closure " + f.String() + " (retains captured " + f.FreeVars[j].Name() + ")"})
		}
	}
}

func (a *effectsAnalysis) callEffects(fn *ssa.Function, ef *Effects, site ssa.CallInstruction) {
	c := site.Common()
	if b, ok := c.Value.(*ssa.Builtin); ok {
		switch b.Name() {
		case "append":
			p := a.get(c.Args[0])
			if !appendStoredBack(site) {
				// x = append(x, …) writes only spare capacity of x's array, which no
				// other holder of x can observe; the store of the result is what counts
				a.write(ef, p, WriteSite{Instr: site, What: "append", Prov: p})
			}
			if !p.onlyFresh() && len(c.Args) > 1 {
				if sl, ok := c.Args[1].Type().Underlying().(*types.Slice); ok && pointerLike(sl.Elem()) {
					a.retain(ef, a.get(c.Args[1]), WriteSite{Instr: site, What: "append", Prov: p})
				}
			}
		case "copy":
			p := a.get(c.Args[0])
			a.write(ef, p, WriteSite{Instr: site, What: "copy", Prov: p})
		case "delete", "clear":
			p := a.get(c.Args[0])
			a.write(ef, p, WriteSite{Instr: site, What: b.Name(), Prov: p})
		}
		return
	}
	if a.w.onceOfDo(c) != nil {
		// a recognised lazy initialisation (globals.go, onceInits): what F writes
		// is written before anything reads it and never again — for every
		// observer the same as initialisation in the package initialiser
		return
	}
	full := a.fullArgs(c)
	callees := a.w.Callees(site)
	resolved := false
	if a.full != nil && !c.IsInvoke() {
		// second pass: a call through an own function-typed parameter stays symbolic
		if prm, ok := c.Value.(*ssa.Parameter); ok && prm.Parent() == fn {
			if k := paramIndex(fn, prm); k >= 0 {
				args := make([]Prov, len(full))
				for i, arg := range full {
					if pointerLike(arg.Type()) {
						args[i] = a.argPointeeProv(arg)
					}
				}
				a.addParamCall(ef, k, args)
				return
			}
		}
	}
	for _, f := range callees {
		sum := a.sum[f]
		if sum == nil {
			continue
		}
		if a.full != nil && len(sum.ParamCalls) > 0 {
			// the callee keeps calls through its function-typed parameters
			// symbolic: apply the effects of what this site binds to them
			if !a.applyParamCalls(fn, ef, site, f, sum, full) {
				sum = a.full[f] // a binding this site does not determine: the union
			}
		}
		resolved = true
		for i, wr := range sum.WritesParam {
			if wr && i < len(full) {
				deep := i < len(sum.WritesParamDeep) && sum.WritesParamDeep[i]
				if _, isLocal := addrRootAlloc(stripIface(full[i])); isLocal && !deep {
					continue // the callee writes only the caller's local variable itself
				}
				if deep && i < len(sum.WritesParamShallow) && sum.WritesParamShallow[i] {
					// the callee writes the argument's immediate pointee as well as
					// what it reaches from there: record the shallow write too
					if _, isLocal := addrRootAlloc(stripIface(full[i])); !isLocal {
						p0 := a.argPointeeProv(full[i])
						a.write(ef, p0, WriteSite{Instr: site, What: "call " + f.String(), Prov: p0})
					}
				}
				p := a.argPointeeProv(full[i])
				if al, isAl := stripIface(full[i]).(*ssa.Alloc); isAl && deep && i < len(sum.DeepFields) && len(sum.DeepFields[i]) > 0 && !sum.DeepFields[i][-1] {
					// the callee writes only what it reaches through these fields
					// of the caller's local struct
					p = Prov{Fresh: true}
					for fld := range sum.DeepFields[i] {
						a.allocFieldContents(al, fld, &p)
					}
				}
				if deep {
					if p.HoldsParams != 0 {
						// the callee writes through what it loads from the argument,
						// and the argument holds references into our parameters
						p.Params |= p.HoldsParams
						p.Deep |= p.HoldsParams
					}
					first := p.Params &^ p.Deep
					p = p.deepen()
					// the callee reaches what it writes through known fields of its
					// parameter's struct: the same fields of ours, when the argument
					// is our own parameter handed on
					if first != 0 && i < len(sum.DeepFields) && len(sum.DeepFields[i]) > 0 && !sum.DeepFields[i][-1] {
						via := map[int]map[int]bool{}
						for j, fs := range p.DeepVia {
							via[j] = fs
						}
						for j := 0; j < 64; j++ {
							if first&(1<<uint(j)) != 0 {
								via[j] = sum.DeepFields[i]
							}
						}
						p.DeepVia = via
					}
				}
				a.write(ef, p, WriteSite{Instr: site, What: "call " + f.String(), Prov: p})
			}
		}
		for g := range sum.WritesGlobals {
			if !ef.WritesGlobals[g] {
				ef.WritesGlobals[g] = true
				a.changed = true
			}
		}
		if sum.WritesUnknown && !ef.WritesUnknown {
			ef.WritesUnknown = true
			a.changed = true
		}
		for k := range sum.Unmodelled {
			ef.Unmodelled[k] = true
		}
		for i := range f.Params {
			if sum.StoresParam&(1<<uint(i)) != 0 && i < len(full) {
				a.retain(ef, a.get(full[i]), WriteSite{Instr: site, What: "call " + f.String() + " (retains argument)"})
			}
		}
		if sum.Spawns {
			ef.Spawns = true
		}
	}
	if resolved {
		return
	}
	name := calleeName(c)
	ef.Calls[name] = true
	if name != "dynamic" {
		// an in-repo function handed to a library function (once.Do(f),
		// sort.Slice(x, less), …) may be run by it: what it does to package state
		// happens during this call (its captured variables are charged where the
		// closure is made, its own parameters are the library's)
		for _, arg := range c.Args {
			v := arg
			for {
				if ct, ok := v.(*ssa.ChangeType); ok {
					v = ct.X
					continue
				}
				break
			}
			var f *ssa.Function
			switch x := v.(type) {
			case *ssa.Function:
				f = x
			case *ssa.MakeClosure:
				f, _ = x.Fn.(*ssa.Function)
			}
			if f == nil {
				continue
			}
			sum := a.sum[f]
			if sum == nil {
				continue
			}
			for g := range sum.WritesGlobals {
				if !ef.WritesGlobals[g] {
					ef.WritesGlobals[g] = true
					a.changed = true
				}
			}
			if sum.WritesUnknown && !ef.WritesUnknown {
				ef.WritesUnknown = true
				a.changed = true
			}
			for k := range sum.Unmodelled {
				ef.Unmodelled[k] = true
			}
			if sum.Spawns {
				ef.Spawns = true
			}
		}
	}
	if name == "dynamic" {
		// a call through a function-typed parameter to which every (static)
		// caller binds nil or nothing with a body: no callee, no effect (the call
		// is guarded by a nil test or panics — C05's concern)
		if prm, isPrm := c.Value.(*ssa.Parameter); isPrm {
			if fs := a.w.paramFuncs(a.w.CallGraph(), site.Parent(), prm, 0); fs != nil && len(fs) == 0 {
				return
			}
		}
		// a hook variable nothing ever assigns is nil: the call (guarded by a
		// nil test, or a panic) has no callee and no effect
		if ld, isLd := c.Value.(*ssa.UnOp); isLd {
			if gv, isG := ld.X.(*ssa.Global); isG && a.w.nilFuncVar(gv) {
				return
			}
		}
		// call of a function value: unknown effects
		if !ef.WritesUnknown {
			ef.WritesUnknown = true
			a.changed = true
		}
		return
	}
	if strings.HasSuffix(name, ".init") {
		return // package initialisers of imports
	}
	m, ok := lookupModel(name)
	if !ok && c.IsInvoke() && !a.w.InRepoPath(pkgPathOfType(c.Value.Type())) {
		if _, anon := c.Value.Type().(*types.Named); !anon || !strings.Contains(pkgPathOfType(c.Value.Type()), ".") {
			// a method of a caller-supplied object behind an anonymous or
			// standard-library interface (io.Reader, hash.Hash, interface{Equal(..)}, …):
			// its behaviour is the caller's; it can write its receiver and what it is handed
			for _, arg := range full {
				switch arg.Type().Underlying().(type) {
				case *types.Pointer, *types.Slice, *types.Map, *types.Interface:
					p := a.argPointeeProv(arg)
					a.write(ef, p, WriteSite{Instr: site, What: "invoke " + c.Method.Name() + " on a caller-supplied object (may write it and its pointer arguments)", Prov: p})
				}
			}
			return
		}
	}
	if !ok && isStdlibCallee(name) {
		// standard-library default: a function without a model entry can write
		// only through the pointers, slices and maps it is handed; it cannot
		// reach this repository's package state or retain beyond its results
		for _, arg := range full {
			switch arg.Type().Underlying().(type) {
			case *types.Pointer, *types.Slice, *types.Map:
				p := a.argPointeeProv(arg)
				a.write(ef, p, WriteSite{Instr: site, What: "call " + name + " (stdlib default: may write its pointer arguments)", Prov: p})
			default:
				// a reflect.Value is a handle: Set*, Grow, Clear, reflect.Copy … write
				// the variable it designates
				if arg.Type().String() == "reflect.Value" {
					p := a.argPointeeProv(arg)
					a.write(ef, p, WriteSite{Instr: site, What: "call " + name + " (no model: a reflect.Value argument may be written through)", Prov: p})
				}
			}
		}
		return
	}
	if !ok {
		ef.Unmodelled[name] = true
		for _, arg := range full {
			if pointerLike(arg.Type()) {
				p := a.argPointeeProv(arg)
				a.write(ef, p, WriteSite{Instr: site, What: "call " + name + " (unmodelled)", Prov: p})
				a.retain(ef, a.get(arg), WriteSite{Instr: site, What: "call " + name + " (unmodelled, may retain)"})
			}
		}
		return
	}
	for _, i := range m.Writes {
		if i < len(full) {
			p := a.argPointeeProv(full[i])
			a.write(ef, p, WriteSite{Instr: site, What: "call " + name, Prov: p})
		}
	}
}

func (a *effectsAnalysis) addParamCall(ef *Effects, k int, args []Prov) {
	pc := ef.ParamCalls[k]
	if pc == nil {
		pc = &ParamCall{K: k}
		ef.ParamCalls[k] = pc
		a.changed = true
	}
	for len(pc.Args) < len(args) {
		pc.Args = append(pc.Args, Prov{})
		a.changed = true
	}
	for i, p := range args {
		if pc.Args[i].merge(p) {
			a.changed = true
		}
	}
}

// translate maps a provenance stated over the callee's parameters to the
// caller's terms at a call site with the given arguments.
func (a *effectsAnalysis) translate(p Prov, callee *ssa.Function, full []ssa.Value) Prov {
	out := Prov{Fresh: p.Fresh, Unknown: p.Unknown}
	for g := range p.Globals {
		out.merge(Prov{Globals: map[*ssa.Global]bool{g: true}})
	}
	bits := p.Params | p.Deep
	if bits>>uint(len(callee.Params)) != 0 {
		out.Unknown = true // a captured variable of the callee: not nameable here
	}
	for j := 0; j < len(callee.Params) && j < len(full); j++ {
		if bits&(1<<uint(j)) == 0 {
			continue
		}
		q := a.argPointeeProv(full[j])
		if p.Deep&(1<<uint(j)) != 0 {
			q = q.deepen()
		}
		out.merge(q)
	}
	return out
}

// applyParamCalls: for each symbolic callback call of callee f, apply the
// effects of the function this site binds to that parameter (a function, a
// closure), or keep it symbolic when the site forwards a function-typed
// parameter of the caller. Reports false when a binding is neither.
func (a *effectsAnalysis) applyParamCalls(fn *ssa.Function, ef *Effects, site ssa.CallInstruction, f *ssa.Function, sum *Effects, full []ssa.Value) bool {
	type bound struct {
		pc *ParamCall
		h  *ssa.Function
		k  int // caller's own parameter (forwarded) when h == nil
	}
	var bs []bound
	for _, pc := range sum.ParamCalls {
		if pc.K >= len(full) {
			return false
		}
		v := full[pc.K]
		for {
			if ct, ok := v.(*ssa.ChangeType); ok {
				v = ct.X
				continue
			}
			break
		}
		switch x := v.(type) {
		case *ssa.Function:
			bs = append(bs, bound{pc: pc, h: x})
		case *ssa.MakeClosure:
			h, ok := x.Fn.(*ssa.Function)
			if !ok {
				return false
			}
			bs = append(bs, bound{pc: pc, h: h})
		case *ssa.Parameter:
			k := paramIndex(fn, x)
			if k < 0 {
				return false
			}
			bs = append(bs, bound{pc: pc, k: k})
		case *ssa.Const:
			if !x.IsNil() {
				return false
			}
			// nil: the call panics or is guarded — no effect
		default:
			return false
		}
	}
	for _, b := range bs {
		if b.pc == nil {
			continue
		}
		args := make([]Prov, len(b.pc.Args))
		for i, p := range b.pc.Args {
			args[i] = a.translate(p, f, full)
		}
		if b.h == nil {
			a.addParamCall(ef, b.k, args)
			continue
		}
		hs := a.sum[b.h]
		if hs == nil || len(hs.ParamCalls) > 0 {
			hs = a.full[b.h]
		}
		if hs == nil {
			// a library function or a bound method of a library interface: the model decides
			if m, ok := lookupModel(externalModelName(b.h)); ok {
				off := 0
				if strings.HasSuffix(b.h.Name(), "$bound") {
					off = 1 // the model counts the receiver first; it is bound, not passed
				}
				for _, wi := range m.Writes {
					if j := wi - off; j >= 0 && j < len(args) {
						a.write(ef, args[j], WriteSite{Instr: site, What: "call " + f.String() + " → callback " + externalModelName(b.h), Prov: args[j]})
					}
				}
				continue
			}
		}
		if hs == nil {
			if !ef.WritesUnknown {
				ef.WritesUnknown = true
				a.changed = true
			}
			continue
		}
		for i, wr := range hs.WritesParam {
			if !wr || i >= len(args) || i >= len(b.h.Params) {
				continue // captured variables are charged where the closure is made
			}
			p := args[i]
			if hs.WritesParamDeep[i] {
				p = p.deepen()
			}
			a.write(ef, p, WriteSite{Instr: site, What: "call " + f.String() + " → callback " + b.h.String(), Prov: p})
		}
		for g := range hs.WritesGlobals {
			if !ef.WritesGlobals[g] {
				ef.WritesGlobals[g] = true
				a.changed = true
			}
		}
		if hs.WritesUnknown && !ef.WritesUnknown {
			ef.WritesUnknown = true
			a.changed = true
		}
		for k := range hs.Unmodelled {
			ef.Unmodelled[k] = true
		}
		for i := range b.h.Params {
			if i < 64 && hs.StoresParam&(1<<uint(i)) != 0 && i < len(args) {
				a.retain(ef, args[i], WriteSite{Instr: site, What: "call " + f.String() + " → callback " + b.h.String() + " (retains argument)"})
			}
		}
		if hs.Spawns {
			ef.Spawns = true
		}
	}
	return true
}

// externalModelName: the model-table name of a function value's target: the
// function's own name, or "invoke <iface>.<method>" for the bound-method
// wrapper of an interface value.
func externalModelName(f *ssa.Function) string {
	if strings.HasSuffix(f.Name(), "$bound") && len(f.FreeVars) == 1 {
		return "invoke " + f.FreeVars[0].Type().String() + "." + strings.TrimSuffix(f.Name(), "$bound")
	}
	return f.String()
}

// argPointeeProv: provenance of the memory an argument refers to. For the
// address of a local allocation that memory is the allocation itself (fresh).
func (a *effectsAnalysis) argPointeeProv(arg ssa.Value) Prov {
	if al, ok := addrRootAlloc(stripIface(arg)); ok {
		p := Prov{Fresh: true}
		a.allocContents(al, &p, map[ssa.Value]bool{})
		return p
	}
	return a.get(arg)
}

// appendStoredBack: the call is append(*A, …) and its result is used only by
// stores back to A (the idiom x = append(x, …)).
func appendStoredBack(site ssa.CallInstruction) bool {
	call, ok := site.(*ssa.Call)
	if !ok || len(call.Call.Args) == 0 {
		return false
	}
	ld, ok := call.Call.Args[0].(*ssa.UnOp)
	if !ok {
		return false
	}
	refs := call.Referrers()
	if refs == nil || len(*refs) == 0 {
		return false
	}
	for _, r := range *refs {
		st, ok := r.(*ssa.Store)
		if !ok || st.Val != ssa.Value(call) || !sameAddr(st.Addr, ld.X) {
			return false
		}
	}
	return true
}

func sameAddr(a, b ssa.Value) bool {
	if a == b {
		return true
	}
	fa, ok1 := a.(*ssa.FieldAddr)
	fb, ok2 := b.(*ssa.FieldAddr)
	return ok1 && ok2 && fa.Field == fb.Field && sameAddr(fa.X, fb.X)
}

// isStdlibCallee: the callee's package path has no dot in its first segment.
func isStdlibCallee(name string) bool {
	n := strings.TrimPrefix(name, "invoke ")
	n = strings.TrimLeft(n, "(*")
	if n == "" || strings.HasPrefix(n, "interface{") || n == "dynamic" || strings.HasPrefix(n, "builtin ") {
		return false
	}
	seg := n
	if i := strings.IndexByte(seg, '/'); i >= 0 {
		seg = seg[:i]
	} else if i := strings.IndexByte(seg, '.'); i >= 0 {
		seg = seg[:i]
	}
	return seg != "" && !strings.Contains(seg, ".")
}
