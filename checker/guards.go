package main

// E2 — guard facts by dominance (in the style of x/tools' nilness pass).

import (
	"go/token"

	"golang.org/x/tools/go/ssa"
)

// edgeDominates reports whether every path to block b passes through the
// edge from -> from.Succs[i].
func edgeDominates(from *ssa.BasicBlock, i int, b *ssa.BasicBlock) bool {
	succ := from.Succs[i]
	// the edge dominates b if succ dominates b and succ's only way in is
	// this edge (or all other preds are dominated by succ: loop back edges)
	if !succ.Dominates(b) {
		return false
	}
	for _, p := range succ.Preds {
		if p == from {
			// both successors may be the same block
			if from.Succs[1-i] == succ {
				return false
			}
			continue
		}
		if !succ.Dominates(p) {
			return false
		}
	}
	return true
}

func isNilConst(v ssa.Value) bool {
	c, ok := v.(*ssa.Const)
	return ok && c.Value == nil && isNilable(c.Type())
}

// nilGuard describes an If on `x == nil` / `x != nil`.
func nilGuard(in *ssa.If) (x ssa.Value, nilSucc int, ok bool) {
	b, isBin := in.Cond.(*ssa.BinOp)
	if !isBin || (b.Op != token.EQL && b.Op != token.NEQ) {
		return nil, 0, false
	}
	switch {
	case isNilConst(b.Y):
		x = b.X
	case isNilConst(b.X):
		x = b.Y
	default:
		return nil, 0, false
	}
	if b.Op == token.EQL {
		return x, 0, true
	}
	return x, 1, true
}

// knownNonNilAt: v is known non-nil at block b through a dominating nil test.
func knownNonNilAt(v ssa.Value, b *ssa.BasicBlock) bool {
	v = stripIface(v)
	fn := b.Parent()
	for _, blk := range fn.Blocks {
		if len(blk.Instrs) == 0 {
			continue
		}
		ifi, ok := blk.Instrs[len(blk.Instrs)-1].(*ssa.If)
		if !ok {
			continue
		}
		x, nilSucc, ok := nilGuard(ifi)
		if !ok || stripIface(x) != v {
			continue
		}
		if edgeDominates(blk, 1-nilSucc, b) {
			return true
		}
	}
	return false
}

// knownNilAt: v is known nil at block b through a dominating nil test.
func knownNilAt(v ssa.Value, b *ssa.BasicBlock) bool {
	v = stripIface(v)
	fn := b.Parent()
	for _, blk := range fn.Blocks {
		if len(blk.Instrs) == 0 {
			continue
		}
		ifi, ok := blk.Instrs[len(blk.Instrs)-1].(*ssa.If)
		if !ok {
			continue
		}
		x, nilSucc, ok := nilGuard(ifi)
		if !ok || stripIface(x) != v {
			continue
		}
		if edgeDominates(blk, nilSucc, b) {
			return true
		}
	}
	return false
}
