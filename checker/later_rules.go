package main

// Rules added after the first build (rounds of seeded changes and neutral
// refactorings); appended to each property's explanation in the evidence.
var laterRules = map[string]string{
	"C14": "C14-rejected: imports C11-Q2 for the lifecycle setters.",
	"C02": "V7: imports the C19 typestate of UnmarshalCOSE (the envelope is not modified after go-cose decoded it).",
	"C01": "Also: the container's IsEmpty() is true exactly for len(values)=0 (R3); the per-element check of the container walks may be delegated to a helper that validates its element parameter on every nil-returning path. R1 also accepts a Validate method that walks the getters itself. R3 decided per φ edge of the returned error; copy may be a second walk or append-built.",
	"C03": "S5: the payload kept in the signing Evidence and the token returned are freshly allocated memory (E5 provenance). S6: Verify fails only after an error of one of its go-cose calls or under the nil-message guard.",
	"C04": "T3 also judges the acceptance side of the decoder limits; the library defaults are known findings, any other limit is a violation. T7: fresh instances. T9: imports C01-R1..R3 (acceptance is the validator's verdict on the decoded object).",
	"C05": "Comparisons of interface values and map lookups with interface keys are panic sites too. The nil check of an interface method value is a site. E9: no reflect.Value mutator in the encoding package.",
	"C06": "A5: no loop-carried accumulation through a superlinear builder (string +, fmt, errors.Join, strings.Join/Repeat) in decode-reachable code unless the trip count is constant. A5 also: append to a capacity-clipped accumulator; a buffer sized by the remaining input kept per iteration of an input-bounded loop. A6: every mutex taken in decode-reachable code is released on every path to a return.",
	"C07": "P7: the COSE path decodes claims only through DecodeClaimsFromCBOR. P8: imports the C08-G1 gates for the validating decoders (the object's own Validate()). P1: the lookup key is exactly the decoded selector field.",
	"C08": "G4: the validating encoders return freshly allocated memory.",
	"C09": "I5d: acceptance side of the decoder limits (default = known finding). I6: encode returns the codec's output. I7: walker skip conditions and visit-all for extension profiles. I9: imports C07-P1 (the CBOR dispatcher looks at nothing but the profile key the encoder emits). I10: imports C07-P4 (GetProfile cells). I11: imports C15-H5/H6 (repeated keys refused).",
	"C10": "W7: encode returns the codec's output. W8: emitted bytes are fresh memory. W9: extension-profile serialiser omits only under the C15-H4 conditions. W10: length-header cells. W11: P1 flag validity vs presence. W12: imports C01-R3 (what is emitted is what validation walked). W13: imports C07-P4 (GetProfile cells).",
	"C12": "J7: encode returns the codec's output. J8: JSON walkers for extension profiles skip only under the C15-H4 conditions. J9: the dispatcher reads only profile members. J10: imports C07-P4 (GetProfile cells).",
	"C13": "K5: IsEmpty() ⇔ len(values)=0. Calls through function-typed parameters are resolved per call site. K6: imports C07-P4 (GetProfile cells).",
	"C15": "H4 also: the recursion over collected embedded structs visits every one. Anchors are found by role. H1: header operands are exactly the count (or its width conversion). H8: the embed collector asks only structural questions. H4 hosted form: shared field loop + per-field visitor judged on both regions. H9: no reflect.Value mutator in the encoding package.",
	"C16": "N2 also: a failing registration writes no package-level state at all. N5: no pointer to a loop-overwritten variable kept across iterations. N6: imports C07-P1 (exact key).",
	"C17": "X5: no mutable package-level memory reachable from objects handed to callers (E5 'holds' provenance, leak sites, API results). E5: captured variables as pseudo-parameters, callback-sensitive second pass, reflect.Value handles may be written through.",
	"C18": "M4: encoders and signers return freshly allocated memory. E5: captured variables as pseudo-parameters, callback-sensitive second pass, reflect.Value handles may be written through.",
	"C19": "Y6: the token returned by Sign / ValidateAndSign is freshly allocated memory. Y7: imports C09-I1 (the payload signed is the encoding of the attached claims). Y8: decoder limits on the acceptance side (default = known finding). Y9: imports C15-H4 for the CBOR serialiser.",
}
