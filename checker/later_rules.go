package main

// Rules added after the first build (rounds of seeded changes and neutral
// refactorings); appended to each property's explanation in the evidence.
var laterRules = map[string]string{
	"C01": "Also: the container's IsEmpty() is true exactly for len(values)=0 (R3); the per-element check of the container walks may be delegated to a helper that validates its element parameter on every nil-returning path.",
	"C03": "S5: the payload kept in the signing Evidence and the token returned are freshly allocated memory (E5 provenance).",
	"C04": "T3 also judges the acceptance side of the decoder limits; the library defaults are known findings, any other limit is a violation. T7: fresh instances.",
	"C05": "Comparisons of interface values and map lookups with interface keys are panic sites too.",
	"C06": "A5: no loop-carried accumulation through a superlinear builder (string +, fmt, errors.Join, strings.Join/Repeat) in decode-reachable code unless the trip count is constant.",
	"C07": "P7: the COSE path decodes claims only through DecodeClaimsFromCBOR.",
	"C08": "G4: the validating encoders return freshly allocated memory.",
	"C09": "I5d: acceptance side of the decoder limits (default = known finding). I6: encode returns the codec's output. I7: walker skip conditions and visit-all for extension profiles.",
	"C10": "W7: encode returns the codec's output. W8: emitted bytes are fresh memory. W9: extension-profile serialiser omits only under the C15-H4 conditions.",
	"C12": "J7: encode returns the codec's output. J8: JSON walkers for extension profiles skip only under the C15-H4 conditions.",
	"C13": "K5: IsEmpty() ⇔ len(values)=0. Calls through function-typed parameters are resolved per call site.",
	"C15": "H4 also: the recursion over collected embedded structs visits every one. Anchors are found by role.",
	"C16": "N2 also: a failing registration writes no package-level state at all.",
	"C17": "X5: no mutable package-level memory reachable from objects handed to callers (E5 'holds' provenance, leak sites, API results).",
	"C18": "M4: encoders and signers return freshly allocated memory.",
	"C19": "Y6: the token returned by Sign / ValidateAndSign is freshly allocated memory.",
}
