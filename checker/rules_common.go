package main

// Helpers shared by the property rules: cached path summaries, error
// nil-ness of returns, lookup of API anchors by exported name / interface.

import (
	"fmt"
	"go/constant"
	"go/token"
	"go/types"
	"sort"
	"strings"

	"golang.org/x/tools/go/ssa"
)

type Summary struct {
	Fn    *ssa.Function
	Paths []Path
	Err   error
	Steps int
}

var summaryCache = map[*ssa.Function]*Summary{}

// Summarise runs the E3 engine on fn with symbolic parameters (cached).
func (w *World) Summarise(fn *ssa.Function) *Summary {
	if s, ok := summaryCache[fn]; ok {
		return s
	}
	e := NewEngine(w)
	e.Effects = w.EffectsOracle()
	e.ErrClasses = w.errClassOracle()
	paths := e.Run(fn, nil, nil)
	s := &Summary{Fn: fn, Paths: paths, Err: e.Err, Steps: e.steps}
	summaryCache[fn] = s
	return s
}

// SummariseWith runs the engine with a caller-prepared engine (not cached).
func (w *World) SummariseWith(fn *ssa.Function, prep func(e *Engine)) *Summary {
	e := NewEngine(w)
	e.Effects = w.EffectsOracle()
	e.ErrClasses = w.errClassOracle()
	if prep != nil {
		prep(e)
	}
	paths := e.Run(fn, nil, nil)
	return &Summary{Fn: fn, Paths: paths, Err: e.Err, Steps: e.steps}
}

// Complete reports whether every path ended in a return or a panic, i.e. the
// function stayed inside the engine's fragment.
func (s *Summary) Complete() (bool, string) {
	if s.Err != nil {
		return false, s.Err.Error()
	}
	if len(s.Paths) == 0 {
		return false, "no paths"
	}
	for _, p := range s.Paths {
		if p.Cut != nil {
			why := fmt.Sprintf("path left the fragment at block %d", p.Cut.Index)
			if p.St.unsupported != "" {
				why += ": " + p.St.unsupported
			} else {
				why += " (loop whose iteration the state does not decide)"
			}
			return false, why
		}
		if p.Stop != nil {
			return false, "stopped"
		}
	}
	return true, ""
}

func isErrorType(t types.Type) bool {
	n, ok := t.(*types.Named)
	return ok && n.Obj().Pkg() == nil && n.Obj().Name() == "error"
}

// errIndex gives the index of the (last) error result of fn, or -1.
func errIndex(fn *ssa.Function) int {
	rs := fn.Signature.Results()
	for i := rs.Len() - 1; i >= 0; i-- {
		if isErrorType(rs.At(i).Type()) {
			return i
		}
	}
	return -1
}

// errOf returns the abstract error value of a return path and its nil-ness
// (+1 non-nil, -1 nil, 0 unknown).
func errOf(p Path, idx int) (AV, int) {
	if idx < 0 || idx >= len(p.Rets) {
		return AV{}, 0
	}
	a := p.Rets[idx]
	return a, p.St.NilOf(a)
}

// trail renders the branch decisions of a path.
func trailOf(p Path) string {
	if len(p.St.trail) == 0 {
		return "(straight line)"
	}
	return strings.Join(p.St.trail, " ")
}

// ---- anchors ----

func (w *World) constInt(pkg *ssa.Package, name string) (int64, bool) {
	c, ok := pkg.Members[name].(*ssa.NamedConst)
	if !ok || c.Value == nil || c.Value.Value == nil {
		return 0, false
	}
	return constant.Int64Val(c.Value.Value)
}

func (w *World) constStr(pkg *ssa.Package, name string) (string, bool) {
	c, ok := pkg.Members[name].(*ssa.NamedConst)
	if !ok || c.Value == nil || c.Value.Value == nil || c.Value.Value.Kind() != constant.String {
		return "", false
	}
	return constant.StringVal(c.Value.Value), true
}

func (w *World) iface(pkg *ssa.Package, name string) *types.Interface {
	n := w.NamedType(pkg, name)
	if n == nil {
		return nil
	}
	i, _ := n.Underlying().(*types.Interface)
	return i
}

// Implementations lists the named in-repo (non-interface) types T such that T
// or *T implements the interface, sorted by name.
func (w *World) Implementations(it *types.Interface) []*types.Named {
	var out []*types.Named
	for _, pkg := range []*ssa.Package{w.Root, w.Enc} {
		for _, m := range pkg.Members {
			tn, ok := m.(*ssa.Type)
			if !ok {
				continue
			}
			n, ok := tn.Type().(*types.Named)
			if !ok || types.IsInterface(n) || n.TypeParams().Len() > 0 {
				continue
			}
			if types.Implements(n, it) || types.Implements(types.NewPointer(n), it) {
				out = append(out, n)
			}
		}
	}
	sort.Slice(out, func(i, j int) bool { return out[i].Obj().Name() < out[j].Obj().Name() })
	return out
}

// MethodImpl returns the declared method `name` of T (value or pointer
// receiver), never a synthetic wrapper.
func (w *World) MethodImpl(t *types.Named, name string) *ssa.Function {
	fn, _ := w.DeclaredMethod(t, name)
	if fn == nil {
		return nil
	}
	// look through promotion/pointer wrappers to the declared function
	for fn != nil && fn.Synthetic != "" && !strings.HasPrefix(fn.Synthetic, "instance of") {
		var next *ssa.Function
		for _, b := range fn.Blocks {
			for _, in := range b.Instrs {
				if c, ok := in.(*ssa.Call); ok {
					if f := c.Call.StaticCallee(); f != nil && f.Name() == name {
						next = f
					}
				}
			}
		}
		if next == nil || next == fn {
			break
		}
		fn = next
	}
	return fn
}

func fnKey(fn *ssa.Function) string {
	if fn == nil {
		return "?"
	}
	s := fn.String()
	s = strings.ReplaceAll(s, "github.com/veraison/psatoken/encoding", "encoding")
	s = strings.ReplaceAll(s, "github.com/veraison/psatoken", "psatoken")
	return s
}

func joinLimited(items []string, n int) string {
	if len(items) > n {
		return strings.Join(items[:n], "; ") + fmt.Sprintf("; … (%d more)", len(items)-n)
	}
	return strings.Join(items, "; ")
}

// errClassOracle flattens the E4 alternatives of an un-inlined in-repo call's
// error result into one class list (union; markers kept).
func (w *World) errClassOracle() func(site *ssa.Call, idx int) []string {
	if w.errRes == nil {
		w.errRes = w.ErrResolver()
	}
	return func(site *ssa.Call, idx int) []string {
		set := map[string]bool{}
		for _, a := range w.errRes.callAlts(site, idx, map[ssa.Value]bool{}) {
			for _, c := range a.Cls {
				set[c] = true
			}
		}
		return sortedKeys(set)
	}
}

var nonNilBusy = map[*ssa.Function]bool{}
var nonNilMemo = map[string]bool{}

// nonNilOracle: result idx of every in-repo callee of the site is non-nil on
// all of its return paths (summaries computed by the engine itself).
func (w *World) nonNilOracle() func(site *ssa.Call, idx int) bool {
	return w.nonNilOracleMode(false)
}

// nonNilOnSuccessOracle: as nonNilOracle, restricted to return paths whose
// last (error) result may be nil.
func (w *World) nonNilOnSuccessOracle() func(site *ssa.Call, idx int) bool {
	return w.nonNilOracleMode(true)
}

func (w *World) nonNilOracleMode(onSuccess bool) func(site *ssa.Call, idx int) bool {
	return func(site *ssa.Call, idx int) bool {
		var callees []*ssa.Function
		if f := site.Call.StaticCallee(); f != nil {
			callees = []*ssa.Function{f}
		} else if oracleCallee != nil {
			callees = []*ssa.Function{oracleCallee}
		} else {
			callees = w.Callees(site)
		}
		if len(callees) == 0 {
			return false
		}
		for _, f := range callees {
			if !w.InRepo(f) || f.Blocks == nil {
				return false
			}
			key := fmt.Sprintf("%p#%d/%v", f, idx, onSuccess)
			if v, ok := nonNilMemo[key]; ok {
				if !v {
					return false
				}
				continue
			}
			if nonNilBusy[f] {
				return false
			}
			nonNilBusy[f] = true
			s := w.SummariseWith(f, func(e *Engine) {
				e.MaxSteps = 20000
				e.Lean = true
				e.NonNilResult = w.nonNilOracle()
				e.NoInline = map[*ssa.Function]bool{}
				for _, g := range w.Funcs {
					if baseName(g) == "Validate" || baseName(g) == "FilterError" || (c13IsWalker(w, g) && strings.HasPrefix(baseName(g), "Validate")) {
						e.NoInline[g] = true
					}
				}
			})
			delete(nonNilBusy, f)
			ok, _ := s.Complete()
			if ok {
				n := 0
				for _, p := range s.Paths {
					if p.Ret == nil {
						continue
					}
					if onSuccess {
						if _, nl := errOf(p, errIndex(f)); nl == 1 {
							continue
						}
					}
					n++
					if idx >= len(p.Rets) || p.St.NilOf(p.Rets[idx]) != 1 {
						// a profile read from the register: non-nil by the register
						// lemma (premise: the only writer invoked it before storing
						// it; C05 records the premise as an obligation)
						if idx < len(p.Rets) && w.registerEntryValue(p.Rets[idx].name()) && strings.HasSuffix(avSubject(p.Rets[idx]), ".Profile") && w.registerEntriesNonNil() {
							continue
						}
						ok = false
					}
				}
				if n == 0 {
					ok = false
				}
			}
			nonNilMemo[key] = ok
			if !ok {
				return false
			}
		}
		return true
	}
}

// ruleIsEmptyMeansNoEntries: the container's IsEmpty is true exactly when it
// holds no entries — a predicate of len(values) only. The getters treat
// IsEmpty as "claim absent", so anything else (ignoring null entries, looking
// at entry contents) turns a malformed list into an absent one.
func ruleIsEmptyMeansNoEntries(w *World, r *Recorder, rule string) {
	n := 0
	for _, fn := range w.Funcs {
		if fn.Signature.Recv() == nil || len(fn.TypeArgs()) == 0 || baseName(fn) != "IsEmpty" {
			continue
		}
		if !strings.Contains(fn.Signature.Recv().Type().String(), "SwComponents[") {
			continue
		}
		n++
		key := fnKey(fn) + "#len"
		s := w.Summarise(fn)
		if ok, why := s.Complete(); !ok {
			r.Refute(rule, key, w.FnPos(fn), "IsEmpty is not a simple predicate of the number of entries: "+why)
			continue
		}
		trueSet, falseSet := iset{}, iset{}
		why := ""
		dom := iset{{0, maxI}}
		for _, p := range s.Paths {
			if p.Ret == nil || len(p.Rets) != 1 {
				why = "it walks the entries (a path does not end in a plain boolean result)"
				break
			}
			term := ""
			set := dom
			for t, is := range p.St.terms {
				if strings.HasPrefix(t, "len(") && strings.HasSuffix(t, ".values)") {
					term, set = t, inter(is, dom)
				} else {
					why = "the result depends on " + t
				}
			}
			for a := range p.St.atoms {
				why = "the result depends on " + a
			}
			if len(p.St.events) > 0 {
				why = "IsEmpty calls " + p.St.events[0].Callee
			}
			switch a := p.Rets[0]; a.Kind {
			case KBool:
				if a.B {
					trueSet = union(trueSet, set)
				} else {
					falseSet = union(falseSet, set)
				}
			case KCmp:
				if term != "" && a.Term != term || !(strings.HasPrefix(a.Term, "len(") && strings.HasSuffix(a.Term, ".values)")) {
					why = "the result compares " + a.Term
				} else {
					ts := inter(set, cmpSet(a.Op, a.K))
					trueSet = union(trueSet, ts)
					falseSet = union(falseSet, minus(set, ts))
				}
			default:
				why = "the result is " + a.name()
			}
		}
		if why != "" {
			r.Refute(rule, key, w.FnPos(fn), "IsEmpty is not decided by the number of entries alone: "+why)
			continue
		}
		r.Check(trueSet.equal(iset{{0, 0}}) && falseSet.equal(iset{{1, maxI}}), rule, key, w.FnPos(fn),
			"IsEmpty() ⇔ len(values) = 0",
			fmt.Sprintf("IsEmpty is true for len(values) ∈ %s and false for %s; the getters read it as 'claim absent', which must mean exactly: no entries", trueSet, falseSet))
	}
	if n == 0 {
		r.Undecide(rule, "IsEmpty", "-", "no IsEmpty method on the component container found")
	}
}

// ruleResultFresh: result idx of fn is memory allocated during the call and
// nothing else — not the receiver's, an argument's or a package-level
// buffer's. A token or encoding handed to the caller must not change when the
// library is used again (E5 provenance of the returned value).
func ruleResultFresh(w *World, r *Recorder, rule string, fn *ssa.Function, name string, idx int) {
	ef := w.Effects()[fn]
	if fn == nil || ef == nil || idx >= len(ef.RetProv) {
		r.Undecide(rule, name+"#result-fresh", "-", "no provenance summary")
		return
	}
	pr := ef.RetProv[idx]
	ok := pr.onlyFresh() && len(pr.Holds) == 0
	r.Check(ok, rule, name+"#result-fresh", w.FnPos(fn), "the bytes returned are freshly allocated (provenance: "+pr.String()+")",
		"the bytes returned may share memory with "+pr.String()+": a later call (or the caller's object) can change what was handed out")
}

// importRules runs another property's check and takes over the obligations
// that keep(o) selects, filed under newRule (the construct is prefixed with
// the original rule so that keys stay distinct). A property whose statement
// presupposes another's ("all C01 rules met", "encoding is faithful") decides
// that part with the same rule instances.
var importDepth int

func importRules(w *World, r *Recorder, from func(*World, *Recorder) propInfo, newRule string, keep func(*Oblig) bool) {
	// imports do not nest: no import keeps an obligation that the presupposed
	// property itself imported, and two properties may import from each other
	// (C02-V7 <- C19, C19-Y13 <- C02)
	if importDepth > 0 {
		return
	}
	importDepth++
	defer func() { importDepth-- }()
	sub := NewRecorder(r.Property)
	from(w, sub)
	n := 0
	for _, o := range sub.Obs {
		if o.Rule == "floor" || !keep(o) {
			continue
		}
		o.Construct = o.Rule + ":" + o.Construct
		o.Rule = newRule
		r.add(o)
		n++
	}
	if n == 0 {
		r.Undecide(newRule, "imported", "-", "no obligation of the presupposed property was produced")
	}
}

// ruleNoReflectAssign: the embedding-aware helpers give a destination field
// its value only by handing the field's address to the decoder; they never
// assign through the reflect handle themselves (Set*, SetZero, Grow, Clear,
// reflect.Copy). A value built that way — a typed nil pointer inside an
// interface, a freshly allocated embedded struct — bypasses what the decoder
// guarantees about the destination (C05: later value-receiver calls through a
// nil pointer), writes objects the serialisers only read (C17/C18) and can
// change which fields are present (C15).
func ruleNoReflectAssign(w *World, r *Recorder, rule string) {
	n := 0
	for _, fn := range w.Funcs {
		if fnPkg(fn) != w.Enc {
			continue
		}
		for _, b := range fn.Blocks {
			for _, in := range b.Instrs {
				ci, ok := in.(ssa.CallInstruction)
				if !ok {
					continue
				}
				f := ci.Common().StaticCallee()
				if f == nil || f.Pkg == nil || f.Pkg.Pkg.Path() != "reflect" {
					continue
				}
				name := f.Name()
				mut := strings.HasPrefix(name, "Set") || name == "Grow" || name == "Clear" || name == "Copy" || name == "Swapper"
				if !mut {
					continue
				}
				n++
				r.Refute(rule, fnKey(fn)+"#reflect."+name, w.InstrPos(in), "the encoding helper assigns through a reflect handle ("+f.String()+"): destination fields must get their values from the decoder only")
			}
		}
	}
	if n == 0 {
		r.Prove(rule, "encoding#no-reflect-assign", "-", "no reflect.Value mutator (Set*, Grow, Clear, Copy) is called anywhere in the encoding package", false)
	}
}

// ruleNullEntryIsNilTest: the container's walks report a "null entry" for an
// element exactly when the element is nil. A bool-returning in-repo helper
// that the walks of the component container call on the current element is
// such a predicate only if every value it returns is `false`, the result of
// `param == nil`, `true` under that test, or reflect.ValueOf(param).IsNil()
// on the parameter itself (no Indirect / Elem / IsZero: an allocated but
// empty component is not a null entry — it lacks mandatory fields, which is a
// different error class).
func ruleNullEntryIsNilTest(w *World, r *Recorder, rule string) {
	seen := map[*ssa.Function]bool{}
	for _, fn := range w.Funcs {
		if fn.Signature.Recv() == nil || !strings.Contains(fn.Signature.Recv().Type().String(), "SwComponents[") {
			continue
		}
		if bn := baseName(fn); bn != "Validate" && bn != "Values" {
			continue
		}
		for _, b := range fn.Blocks {
			for _, in := range b.Instrs {
				c, ok := in.(*ssa.Call)
				if !ok {
					continue
				}
				h := c.Call.StaticCallee()
				if h == nil || h.Blocks == nil || !w.InRepo(h) || seen[h] || len(h.Params) != 1 || h.Signature.Results().Len() != 1 || !isBoolType(h.Signature.Results().At(0).Type()) {
					continue
				}
				// used as the condition of a branch
				isCond := false
				for _, ref := range *c.Referrers() {
					if _, ok := ref.(*ssa.If); ok {
						isCond = true
					}
				}
				if !isCond {
					continue
				}
				seen[h] = true
				ok2, why := nilPredicate(h)
				r.Check(ok2, rule, fnKey(h)+"#null-entry-predicate", w.FnPos(h), "true exactly for a nil element (== nil, or reflect.ValueOf(x).IsNil() on the element itself)", "the predicate the container walks use for 'null entry' is not a nil test of the element: "+why)
			}
		}
	}
}

func nilPredicate(h *ssa.Function) (bool, string) {
	prm := ssa.Value(h.Params[0])
	isParam := func(v ssa.Value) bool {
		for i := 0; i < 4; i++ {
			switch x := v.(type) {
			case *ssa.ChangeInterface:
				v = x.X
				continue
			case *ssa.MakeInterface:
				v = x.X
				continue
			}
			break
		}
		return v == prm
	}
	var okVal func(v ssa.Value, at *ssa.BasicBlock, seen map[ssa.Value]bool) (bool, string)
	okVal = func(v ssa.Value, at *ssa.BasicBlock, seen map[ssa.Value]bool) (bool, string) {
		switch x := v.(type) {
		case *ssa.Const:
			if x.Value != nil && x.Value.Kind() == constant.Bool {
				if !constant.BoolVal(x.Value) {
					return true, ""
				}
				// true: only where the parameter is known to be nil
				if knownNilAt(prm, at) {
					return true, ""
				}
				return false, "returns true where the element is not known to be nil"
			}
		case *ssa.BinOp:
			if x.Op == token.EQL && (isParam(x.X) && isNilConst(x.Y) || isParam(x.Y) && isNilConst(x.X)) {
				return true, ""
			}
		case *ssa.Call:
			if calleeName(&x.Call) == "(reflect.Value).IsNil" && len(x.Call.Args) == 1 {
				if vo, ok := x.Call.Args[0].(*ssa.Call); ok && calleeName(&vo.Call) == "reflect.ValueOf" && len(vo.Call.Args) == 1 && isParam(vo.Call.Args[0]) {
					return true, ""
				}
				return false, "IsNil() is not asked of reflect.ValueOf(element) itself"
			}
			return false, "the result comes from " + calleeName(&x.Call)
		case *ssa.Phi:
			if seen[x] {
				return true, ""
			}
			seen[x] = true
			for i, e := range x.Edges {
				if ok, why := okVal(e, x.Block().Preds[i], seen); !ok {
					return false, why
				}
			}
			return true, ""
		}
		return false, "unrecognised result " + v.String()
	}
	for _, b := range h.Blocks {
		if ret, ok := b.Instrs[len(b.Instrs)-1].(*ssa.Return); ok {
			if ok2, why := okVal(ret.Results[0], b, map[ssa.Value]bool{}); !ok2 {
				return false, why
			}
		}
	}
	return true, ""
}

// codecMethodSpec: the codec-interface methods the exported, embeddable claim
// and component types declare themselves ("*" = pointer receiver). Extension
// profiles and extension component types embed these types; a codec method is
// promoted into every embedder that does not declare its own, and then the
// codec hands the whole outer object to the promoted method, which knows only
// the embedded part. Adding one therefore changes what every such embedder
// encodes or decodes; removing one changes the type's own encoding.
var codecMethodSpec = map[string][]string{
	"P1Claims":    {"*UnmarshalCBOR", "*UnmarshalJSON", "MarshalCBOR", "MarshalJSON"},
	"P2Claims":    {"*UnmarshalCBOR", "*UnmarshalJSON"},
	"SwComponent": {},
}

var codecMethodNames = map[string]bool{
	"MarshalCBOR": true, "UnmarshalCBOR": true, "MarshalJSON": true, "UnmarshalJSON": true,
	"MarshalBinary": true, "UnmarshalBinary": true, "MarshalText": true, "UnmarshalText": true,
}

// ruleCodecMethodSets: the embeddable types declare exactly the codec methods
// of codecMethodSpec.
func ruleCodecMethodSets(w *World, r *Recorder, rule string) {
	var names []string
	for n := range codecMethodSpec {
		names = append(names, n)
	}
	sort.Strings(names)
	for _, tn := range names {
		nt := w.NamedType(w.Root, tn)
		if nt == nil {
			r.Undecide(rule, "codec-methods("+tn+")", "-", "type not found")
			continue
		}
		got := map[string]token.Pos{}
		for i := 0; i < nt.NumMethods(); i++ {
			m := nt.Method(i)
			if !codecMethodNames[m.Name()] {
				continue
			}
			key := m.Name()
			if sig, ok := m.Type().(*types.Signature); ok && sig.Recv() != nil {
				if _, ptr := sig.Recv().Type().(*types.Pointer); ptr {
					key = "*" + key
				}
			}
			got[key] = m.Pos()
		}
		want := map[string]bool{}
		for _, m := range codecMethodSpec[tn] {
			want[m] = true
		}
		ok := true
		for m, pos := range got {
			if !want[m] {
				ok = false
				r.Refute(rule, "codec-methods("+tn+")#"+m, w.Pos(pos), fmt.Sprintf("%s declares the codec method %s: it is promoted into every type that embeds %s (extension profiles, extension components) and takes over their encoding or decoding, which then covers only the embedded part", tn, m, tn))
			}
		}
		for m := range want {
			if _, has := got[m]; !has {
				ok = false
				r.Refute(rule, "codec-methods("+tn+")#"+m, w.Pos(nt.Obj().Pos()), fmt.Sprintf("%s no longer declares the codec method %s", tn, m))
			}
		}
		if ok {
			r.Prove(rule, "codec-methods("+tn+")", w.Pos(nt.Obj().Pos()), fmt.Sprintf("declares exactly %v", codecMethodSpec[tn]), false)
		}
	}
}
