package main

// Finite unions of integer intervals (the numeric part of the E3 domain).

import (
	"fmt"
	"go/token"
	"go/types"
	"math"
	"sort"
	"strings"
)

type iv struct{ lo, hi int64 }
type iset []iv // sorted, disjoint, non-adjacent

const (
	minI = math.MinInt64
	maxI = math.MaxInt64
)

var fullSet = iset{{minI, maxI}}

func (s iset) empty() bool { return len(s) == 0 }

func norm(s iset) iset {
	s = append(iset(nil), s...)
	sort.Slice(s, func(i, j int) bool { return s[i].lo < s[j].lo })
	var out iset
	for _, x := range s {
		if x.lo > x.hi {
			continue
		}
		if n := len(out); n > 0 && (out[n-1].hi == maxI || x.lo <= out[n-1].hi+1) {
			if x.hi > out[n-1].hi {
				out[n-1].hi = x.hi
			}
		} else {
			out = append(out, x)
		}
	}
	return out
}

func inter(a, b iset) iset {
	var out iset
	for _, x := range a {
		for _, y := range b {
			lo, hi := max64(x.lo, y.lo), min64(x.hi, y.hi)
			if lo <= hi {
				out = append(out, iv{lo, hi})
			}
		}
	}
	return norm(out)
}

func union(a, b iset) iset {
	return norm(append(append(iset(nil), a...), b...))
}

// minus returns a \ b.
func minus(a, b iset) iset {
	return inter(a, complement(b))
}

func complement(b iset) iset {
	b = norm(b)
	var out iset
	cur := int64(minI)
	open := true
	for _, y := range b {
		if open && y.lo > cur {
			out = append(out, iv{cur, y.lo - 1})
		}
		if y.hi == maxI {
			open = false
			break
		}
		cur = y.hi + 1
	}
	if open {
		out = append(out, iv{cur, maxI})
	}
	return norm(out)
}

func (a iset) equal(b iset) bool {
	a, b = norm(a), norm(b)
	if len(a) != len(b) {
		return false
	}
	for i := range a {
		if a[i] != b[i] {
			return false
		}
	}
	return true
}

func (a iset) subsetOf(b iset) bool { return minus(a, b).empty() }

func (s iset) contains(k int64) bool {
	for _, x := range s {
		if x.lo <= k && k <= x.hi {
			return true
		}
	}
	return false
}

func (s iset) singleton() (int64, bool) {
	if len(s) == 1 && s[0].lo == s[0].hi {
		return s[0].lo, true
	}
	return 0, false
}

func (s iset) min() int64 { return s[0].lo }
func (s iset) max() int64 { return s[len(s)-1].hi }

func (s iset) shift(k int64) iset {
	var out iset
	for _, x := range s {
		lo, hi := x.lo, x.hi
		if lo != minI {
			lo = satAdd(lo, k)
		}
		if hi != maxI {
			hi = satAdd(hi, k)
		}
		out = append(out, iv{lo, hi})
	}
	return norm(out)
}

func satAdd(a, b int64) int64 {
	c := a + b
	if b > 0 && c < a {
		return maxI
	}
	if b < 0 && c > a {
		return minI
	}
	return c
}

func max64(a, b int64) int64 {
	if a > b {
		return a
	}
	return b
}
func min64(a, b int64) int64 {
	if a < b {
		return a
	}
	return b
}

func (s iset) String() string {
	var p []string
	for _, x := range s {
		switch {
		case x.lo == x.hi:
			p = append(p, fmt.Sprintf("%d", x.lo))
		case x.lo == minI && x.hi == maxI:
			p = append(p, "(-inf,inf)")
		case x.hi == maxI:
			p = append(p, fmt.Sprintf("[%d,inf)", x.lo))
		case x.lo == minI:
			p = append(p, fmt.Sprintf("(-inf,%d]", x.hi))
		default:
			p = append(p, fmt.Sprintf("[%d,%d]", x.lo, x.hi))
		}
	}
	if len(p) == 0 {
		return "{}"
	}
	return strings.Join(p, "u")
}

// cmpSet: the set of v with (v op k).
func cmpSet(op token.Token, k int64) iset {
	switch op {
	case token.EQL:
		return iset{{k, k}}
	case token.NEQ:
		var s iset
		if k > minI {
			s = append(s, iv{minI, k - 1})
		}
		if k < maxI {
			s = append(s, iv{k + 1, maxI})
		}
		return s
	case token.LSS:
		if k == minI {
			return nil
		}
		return iset{{minI, k - 1}}
	case token.LEQ:
		return iset{{minI, k}}
	case token.GTR:
		if k == maxI {
			return nil
		}
		return iset{{k + 1, maxI}}
	case token.GEQ:
		return iset{{k, maxI}}
	}
	panic("cmpSet: " + op.String())
}

func negOp(op token.Token) token.Token {
	switch op {
	case token.EQL:
		return token.NEQ
	case token.NEQ:
		return token.EQL
	case token.LSS:
		return token.GEQ
	case token.LEQ:
		return token.GTR
	case token.GTR:
		return token.LEQ
	case token.GEQ:
		return token.LSS
	}
	panic("negOp: " + op.String())
}

func swapOp(op token.Token) token.Token {
	switch op {
	case token.LSS:
		return token.GTR
	case token.LEQ:
		return token.GEQ
	case token.GTR:
		return token.LSS
	case token.GEQ:
		return token.LEQ
	}
	return op
}

func isCmpOp(op token.Token) bool {
	switch op {
	case token.EQL, token.NEQ, token.LSS, token.LEQ, token.GTR, token.GEQ:
		return true
	}
	return false
}

// typeRange gives the value range of an integer type (amd64 sizes; uint64
// values above MaxInt64 are clipped, which no in-repo quantity reaches).
func typeRange(t types.Type) iset {
	if b, ok := t.Underlying().(*types.Basic); ok {
		switch b.Kind() {
		case types.Uint8:
			return iset{{0, 255}}
		case types.Int8:
			return iset{{-128, 127}}
		case types.Uint16:
			return iset{{0, 65535}}
		case types.Int16:
			return iset{{-32768, 32767}}
		case types.Uint32:
			return iset{{0, math.MaxUint32}}
		case types.Int32:
			return iset{{math.MinInt32, math.MaxInt32}}
		case types.Int, types.Int64, types.UntypedInt:
			return fullSet
		case types.Uint, types.Uint64, types.Uintptr:
			return iset{{0, maxI}}
		}
	}
	return fullSet
}

func isIntType(t types.Type) bool {
	b, ok := t.Underlying().(*types.Basic)
	return ok && b.Info()&types.IsInteger != 0
}
func isBoolType(t types.Type) bool {
	b, ok := t.Underlying().(*types.Basic)
	return ok && b.Info()&types.IsBoolean != 0
}
func isStringType(t types.Type) bool {
	b, ok := t.Underlying().(*types.Basic)
	return ok && b.Info()&types.IsString != 0
}
func isNilable(t types.Type) bool {
	switch t.Underlying().(type) {
	case *types.Pointer, *types.Interface, *types.Slice, *types.Map, *types.Chan, *types.Signature:
		return true
	}
	return false
}
