package main

// C17 — the read-side API is safe for concurrent use.
// C18 — reading, validating, encoding and verifying do not change anything.
// Both are decided on the E5 mod/ref + provenance summaries over the call
// graph (CHA in the quick tier, VTA over the whole program in the thorough tier).

import (
	"fmt"
	"go/types"
	"sort"
	"strings"

	"golang.org/x/tools/go/ssa"
)

func init() {
	register("C17", checkC17)
	register("C18", checkC18)
}

type apiFunc struct {
	fn     *ssa.Function
	name   string
	shared bool // may be called on objects shared between goroutines (read-only operations)
}

// readSideAPI enumerates the read-side entry points named by C17/C18.
func readSideAPI(w *World, r *Recorder, rule string) []apiFunc {
	var out []apiFunc
	add := func(fn *ssa.Function, name string, shared bool) {
		if fn == nil {
			r.Undecide(rule, "anchor "+name, "-", "API entry point not found")
			return
		}
		out = append(out, apiFunc{fn, name, shared})
	}
	root := w.Root
	for _, n := range []string{"NewClaims", "DecodeClaimsFromCBOR", "DecodeAndValidateClaimsFromCBOR", "DecodeClaimsFromJSON", "DecodeAndValidateClaimsFromJSON",
		"DecodeJSONClaims", "DecodeUnvalidatedJSONClaims", "DecodeEvidenceFromCOSE", "DecodeAndValidateEvidenceFromCOSE"} {
		add(root.Func(n), n, false)
	}
	for _, n := range []string{"EncodeClaimsToCBOR", "ValidateAndEncodeClaimsToCBOR", "EncodeClaimsToJSON", "ValidateAndEncodeClaimsToJSON", "ValidateClaims", "ValidateSwComponent", "FilterError"} {
		add(root.Func(n), n, true)
	}
	for _, n := range []string{"Sign", "ValidateAndSign", "UnmarshalCOSE"} {
		add(w.findFunc("Evidence", n), "Evidence."+n, false)
	}
	for _, n := range []string{"Verify", "MarshalJSON", "GetInstanceID", "GetImplementationID"} {
		add(w.findFunc("Evidence", n), "Evidence."+n, true)
	}
	for _, in := range []string{"IClaims", "ISwComponent"} {
		it := w.iface(root, in)
		if it == nil {
			r.Undecide(rule, "anchor "+in, "-", "interface not found")
			continue
		}
		for _, t := range w.Implementations(it) {
			for i := 0; i < it.NumMethods(); i++ {
				m := it.Method(i).Name()
				if strings.HasPrefix(m, "Get") || m == "Validate" {
					add(w.MethodImpl(t, m), t.Obj().Name()+"."+m, true)
				}
			}
			for _, m := range []string{"MarshalCBOR", "MarshalJSON"} {
				if fn := w.MethodImpl(t, m); fn != nil {
					add(fn, t.Obj().Name()+"."+m, true)
				}
			}
		}
	}
	for _, fn := range w.Funcs {
		if len(fn.TypeArgs()) == 0 || fn.Signature.Recv() == nil || !strings.Contains(fn.Signature.Recv().Type().String(), "SwComponents[") {
			continue
		}
		switch baseName(fn) {
		case "Validate", "Values", "IsEmpty", "MarshalCBOR", "MarshalJSON":
			add(fn, "SwComponents."+baseName(fn), true)
		}
	}
	for _, n := range []string{"SerializeStructToCBOR", "SerializeStructToJSON", "GetProfileJSONTag"} {
		add(w.Enc.Func(n), "encoding."+n, true)
	}
	for _, n := range []string{"PopulateStructFromCBOR", "PopulateStructFromJSON"} {
		add(w.Enc.Func(n), "encoding."+n, false)
	}
	return out
}

func apiRoots(api []apiFunc) []*ssa.Function {
	var out []*ssa.Function
	for _, a := range api {
		out = append(out, a.fn)
	}
	return out
}

func sortedFuncs(m map[*ssa.Function]bool) []*ssa.Function {
	var out []*ssa.Function
	for f := range m {
		out = append(out, f)
	}
	sort.Slice(out, func(i, j int) bool { return out[i].String() < out[j].String() })
	return out
}

func checkC17(w *World, r *Recorder) propInfo {
	info := propInfo{
		Explanation: "Decided part (absence of the sources of data races in in-repo code): X1 over the call graph from the read-side API (NewClaims, all Decode*, Validate, getters, Encode*/ValidateAndEncode*, Evidence.{Sign, ValidateAndSign, Verify, MarshalJSON, UnmarshalCOSE, GetInstanceID, GetImplementationID}, the encoding helpers) no in-repo function contains a store, map update, append, copy or delete whose target may be package-level memory, and the register's writer is unreachable from that set; X2 every operation the statement allows on *shared* objects (Validate, getters, Marshal*, Values, IsEmpty, Encode*, Verify, MarshalJSON, GetInstanceID/ImplementationID) writes no memory reachable from its receiver or arguments — value receivers may modify only their own copy; X3 the repository contains no go statement and imports neither unsafe nor sync/atomic tricks; X4 the shared codec modes, the two patterns and the sentinel errors are written only by package initialisers, and every external callee reachable in-repo has a model-table entry stating what it writes (an unmodelled callee is a failure). Thorough tier: whole-program VTA call graph, same scan including dependency functions' writes to *this repository's* globals. Not decided: the interleavings themselves, equality with a sequential run, and races inside the libraries (fxamacker/cbor's type cache, regexp's machine pool, go-cose) which are documented as safe for concurrent use and are trusted.",
		Rule:        "one obligation per reachable function (X1), per shared-object operation (X2), per package-level variable (X4)",
		Trusted:     []string{"go/types+go/ssa, CHA/VTA call graph", "E5 mod/ref summaries and the library model table", "fxamacker/cbor EncMode/DecMode, regexp.Regexp, encoding/json are safe for concurrent use (documented)"},
	}
	api := readSideAPI(w, r, "C17-anchor")
	reach := w.Reachable(apiRoots(api))
	eff := w.Effects()
	r.Count("api_entry_points", len(api))
	r.Count("functions_reachable", len(reach))
	r.Count("effect_rounds", w.effectRounds)
	// X1
	for _, fn := range sortedFuncs(reach) {
		ef := eff[fn]
		if ef == nil {
			continue
		}
		bad := false
		for _, site := range ef.Sites {
			if len(site.Prov.Globals) > 0 {
				var gs []string
				for g := range site.Prov.Globals {
					gs = append(gs, g.Name())
				}
				sort.Strings(gs)
				r.Refute("C17-X1", fnKey(fn)+"#"+site.What+":"+strings.Join(gs, ","), w.InstrPos(site.Instr), fmt.Sprintf("%s (reachable from the read-side API) writes package-level state %v via %s without synchronisation", fnKey(fn), gs, site.What))
				bad = true
			}
			if site.Prov.Unknown {
				r.Undecide("C17-X1", fnKey(fn)+"#"+site.What+":unknown-target", w.InstrPos(site.Instr), "write whose target the provenance analysis cannot bound")
				bad = true
			}
		}
		// X5: no object handed to a caller (or stored into one of the caller's
		// objects) may reference mutable package-level memory: two callers'
		// "private" objects would share it. Immutable shared values are exempt
		// by type (sentinel errors, codec modes, compiled patterns, functions:
		// X4 shows they are written only by the initialiser).
		for _, site := range ef.LeakSites {
			var gs []string
			for _, g := range site.Prov.sharedGlobals() {
				if !immutableGlobalElem(g.Type().(*types.Pointer).Elem()) {
					gs = append(gs, g.Name())
				}
			}
			if len(gs) == 0 || leakIntoGlobal(site) {
				continue
			}
			if st, ok := site.Instr.(*ssa.Store); ok && immutableSharedType(st.Val.Type()) {
				continue
			}
			r.Refute("C17-X5", fnKey(fn)+"#"+site.What+":"+strings.Join(gs, ","), w.InstrPos(site.Instr), fmt.Sprintf("%s stores a value that references package-level memory %v into an object of its caller: objects of different callers end up sharing that memory, so operations on distinct objects are no longer independent", fnKey(fn), gs))
			bad = true
		}
		if ef.Spawns {
			r.Refute("C17-X3", fnKey(fn)+"#go", w.FnPos(fn), "spawns a goroutine")
			bad = true
		}
		var um []string
		for u := range ef.Unmodelled {
			um = append(um, u)
		}
		sort.Strings(um)
		for _, u := range um {
			// only report where the call is made
			if ef.Calls[u] {
				r.Undecide("C17-X4", fnKey(fn)+"#unmodelled:"+u, w.FnPos(fn), "external callee "+u+" has no model-table entry: its effects on shared state are unknown")
				bad = true
			}
		}
		if !bad {
			r.Prove("C17-X1", fnKey(fn), w.FnPos(fn), "no write to package-level memory", true)
		}
	}
	// X5 (results): no API entry point returns mutable package-level memory
	for _, a := range api {
		ef := eff[a.fn]
		if ef == nil {
			continue
		}
		res := a.fn.Signature.Results()
		for i := 0; i < res.Len() && i < len(ef.RetProv); i++ {
			if immutableSharedType(res.At(i).Type()) {
				continue
			}
			var gs []string
			for _, g := range ef.RetProv[i].sharedGlobals() {
				if !immutableGlobalElem(g.Type().(*types.Pointer).Elem()) {
					gs = append(gs, g.Name())
				}
			}
			if len(gs) > 0 {
				r.Refute("C17-X5", fmt.Sprintf("%s#result%d:%s", a.name, i, strings.Join(gs, ",")), w.FnPos(a.fn), fmt.Sprintf("%s returns a value that references package-level memory %v: callers on different goroutines receive objects that share it", a.name, gs))
			}
		}
	}
	// X2
	for _, a := range api {
		if !a.shared {
			continue
		}
		c18NoWrites(w, r, "C17-X2", a)
	}
	// X3: imports
	for _, p := range []*ssa.Package{w.Root, w.Enc} {
		for _, imp := range p.Pkg.Imports() {
			if imp.Path() == "unsafe" {
				r.Refute("C17-X3", "import unsafe in "+p.Pkg.Path(), "-", "package imports unsafe")
			}
		}
	}
	r.Prove("C17-X3", "no-goroutines-no-unsafe", "-", "no go statement reachable, no unsafe import", false)
	// X4
	for _, gi := range w.Globals() {
		t := gi.G.Type().(*types.Pointer).Elem()
		ts := t.String()
		shared := ts == pCBOR+".EncMode" || ts == pCBOR+".DecMode" || strings.Contains(ts, "regexp.Regexp") || isErrorType(t)
		if !shared {
			continue
		}
		r.Check(gi.InitOnly, "C17-X4", "global "+gi.G.Name(), w.Pos(gi.G.Pos()), "written only by its package initialiser", "shared package-level "+ts+" is written outside its initialiser or its address escapes")
	}
	// X6: every other package-level variable the read side reads is immutable
	// once initialisation is over: whatever writes it — wherever that code is
	// reachable from — is initialisation code (a package initialiser, a function
	// only initialisers run, the body of a recognised lazy initialisation whose
	// once.Do dominates every read). The register is the stated exception (its
	// run-time writer is registration, outside the read side: X1 above).
	{
		regG := registerGlobal(w)
		readBy := map[*ssa.Global]*ssa.Function{}
		for _, fn := range sortedFuncs(reach) {
			if !w.InRepo(fn) || fn.Blocks == nil {
				continue
			}
			for _, b := range fn.Blocks {
				for _, in := range b.Instrs {
					for _, op := range in.Operands(nil) {
						if g, ok := (*op).(*ssa.Global); ok && g.Pkg != nil && w.InRepoPath(g.Pkg.Pkg.Path()) && readBy[g] == nil {
							readBy[g] = fn
						}
					}
				}
			}
		}
		var gs []*ssa.Global
		for g := range readBy {
			gs = append(gs, g)
		}
		sort.Slice(gs, func(i, j int) bool { return globalName(gs[i]) < globalName(gs[j]) })
		for _, g := range gs {
			ts := g.Type().(*types.Pointer).Elem().String()
			if g == regG || ts == "sync.Mutex" || ts == "sync.RWMutex" || ts == "sync.Once" {
				continue
			}
			var writers []string
			for fn := range w.AllFuncs {
				if !w.InRepo(fn) || fn.Blocks == nil || fn.Synthetic == "package initializer" || w.initTimeOnly(fn) {
					continue
				}
				wr := false
				for _, b := range fn.Blocks {
					for _, in := range b.Instrs {
						for _, op := range in.Operands(nil) {
							if *op == ssa.Value(g) && !globalUseReadOnly(in, g) {
								wr = true
							}
						}
					}
				}
				if wr {
					writers = append(writers, fnKey(fn))
				}
			}
			sort.Strings(writers)
			r.Check(len(writers) == 0, "C17-X6", "global "+g.Name(), w.Pos(g.Pos()),
				"read on the read side; written only by initialisation code",
				fmt.Sprintf("package-level %s is read on the read side (%s) and written, or has its address handed on, by %v, which is not initialisation code: a call of it concurrent with a reader is a data race", g.Name(), fnKey(readBy[g]), writers))
		}
	}
	// the register's writers are not reachable from the read side
	if reg := registerGlobal(w); reg != nil {
		for _, fn := range w.Funcs {
			for _, b := range fn.Blocks {
				for _, in := range b.Instrs {
					if mu, ok := in.(*ssa.MapUpdate); ok && loadsGlobal(mu.Map, reg) {
						r.Check(!reach[fn], "C17-X1", "register-writer-unreachable:"+fnKey(fn), w.InstrPos(mu), "registration is not part of the read-side API", "the register's writer is reachable from the read-side API")
					}
				}
			}
		}
	}
	if w.Whole {
		c17Deps(w, r, api)
	}
	r.Floor("C17-X1", 60)
	r.Floor("C17-X2", 40)
	r.Floor("C17-X4", 10)
	return info
}

// c17Deps (thorough): dependency functions reachable from the API must not
// store to this repository's package-level variables.
func c17Deps(w *World, r *Recorder, api []apiFunc) {
	// union of CHA edges out of in-repo functions and VTA edges elsewhere
	g := w.VTAGraph()
	cha := w.CallGraph()
	seen := map[*ssa.Function]bool{}
	var stack []*ssa.Function
	for _, a := range api {
		if !seen[a.fn] {
			seen[a.fn] = true
			stack = append(stack, a.fn)
		}
	}
	for len(stack) > 0 {
		f := stack[len(stack)-1]
		stack = stack[:len(stack)-1]
		gg := g
		if w.InRepo(f) {
			gg = cha
		}
		if n := gg.Nodes[f]; n != nil {
			for _, e := range n.Out {
				if !seen[e.Callee.Func] {
					seen[e.Callee.Func] = true
					stack = append(stack, e.Callee.Func)
				}
			}
		}
	}
	n, bad := 0, 0
	for f := range seen {
		if w.InRepo(f) || f.Blocks == nil {
			continue
		}
		n++
		for _, b := range f.Blocks {
			for _, in := range b.Instrs {
				if st, ok := in.(*ssa.Store); ok {
					if gl, ok := st.Addr.(*ssa.Global); ok && gl.Pkg != nil && w.InRepoPath(gl.Pkg.Pkg.Path()) {
						bad++
						r.Refute("C17-X1d", "dep-write:"+f.String()+"->"+gl.Name(), w.InstrPos(st), "dependency function writes this repository's package variable "+gl.Name())
					}
				}
			}
		}
	}
	r.Count("dependency_functions_scanned", n)
	if bad == 0 {
		r.Prove("C17-X1d", "dependencies-do-not-write-repo-globals", "-", fmt.Sprintf("%d reachable dependency functions scanned (VTA call graph)", n), true)
	}
}

// c18NoWrites: the function writes no memory reachable from its receiver or
// arguments (and no package-level memory).
func c18NoWrites(w *World, r *Recorder, rule string, a apiFunc) {
	eff := w.Effects()
	ef := eff[a.fn]
	if ef == nil {
		r.Undecide(rule, a.name, w.FnPos(a.fn), "no effect summary")
		return
	}
	var why []string
	for i, wr := range ef.WritesParam {
		if wr {
			name := "captured variable"
			if i < len(a.fn.Params) {
				name = a.fn.Params[i].Name()
			}
			why = append(why, fmt.Sprintf("memory reachable from parameter %d (%s)", i, name))
		}
	}
	for g := range ef.WritesGlobals {
		why = append(why, "package variable "+g.Name())
	}
	if ef.WritesUnknown {
		why = append(why, "memory the analysis cannot bound")
	}
	sort.Strings(why)
	pos := w.FnPos(a.fn)
	detail := ""
	if len(why) > 0 {
		detail = a.name + " may write " + strings.Join(why, "; ")
		for _, s := range ef.Sites {
			detail += fmt.Sprintf(" [%s at %s]", s.What, w.InstrPos(s.Instr))
			pos = w.InstrPos(s.Instr)
			break
		}
	}
	recvKind := "function"
	if a.fn.Signature.Recv() != nil {
		if _, isPtr := a.fn.Signature.Recv().Type().(*types.Pointer); isPtr {
			recvKind = "pointer receiver, empty write-set"
		} else {
			recvKind = "value receiver, writes only its own copy"
		}
	}
	r.Check(len(why) == 0, rule, a.name, pos, recvKind, detail)
}

func checkC18(w *World, r *Recorder) propInfo {
	info := propInfo{
		Explanation: "Decided part: M1 Validate, every getter, Marshal*, IsEmpty, Values, the Encode*/ValidateAndEncode* functions, Evidence.Verify / MarshalJSON / GetInstanceID / GetImplementationID have an empty write-set on memory reachable from their receiver and arguments and on package-level memory (mod/ref summaries to a fixpoint over the call graph; a value receiver may change only its own copy — stores through pointers loaded from that copy count as writes to the receiver). M2 no decode entry point retains its input buffer: for every byte-slice parameter of the Decode* functions, Evidence.UnmarshalCOSE, the Unmarshal{CBOR,JSON} methods and encoding.PopulateStructFrom*, the provenance of every result excludes that parameter and no store / map update / append in the function or its callees places memory reachable from it into non-local memory; the library decoders they hand it to copy byte strings (model table, with the file:line of the pinned source). M3 no source of nondeterminism on validate / encode paths: no range over a map, no clock, no randomness reachable from Validate, getters, Encode* and Marshal* (crypto/rand.Reader is reachable only from the signing methods). Thorough tier: M1 for go-cose's (*Sign1Message).Verify from its own SSA. Not decided: that the libraries' encoders are deterministic and copy as modelled beyond the audited entries.",
		Rule:        "one obligation per read-side operation (M1), per (decode entry, buffer parameter) (M2), per reachable function (M3)",
		Trusted:     []string{"go/types+go/ssa, CHA/VTA call graph", "E5 mod/ref + provenance summaries", "model table: cbor DecMode.Unmarshal and json.Unmarshal copy byte strings; go-cose UnmarshalCBOR copies payload and signature"},
	}
	api := readSideAPI(w, r, "C18-anchor")
	eff := w.Effects()
	// M1
	for _, a := range api {
		if a.shared {
			c18NoWrites(w, r, "C18-M1", a)
		}
	}
	// M2
	var decoders []apiFunc
	for _, a := range api {
		if !a.shared && a.name != "NewClaims" && !strings.HasSuffix(a.name, "Sign") {
			decoders = append(decoders, a)
		}
	}
	for _, in := range []string{"IClaims"} {
		it := w.iface(w.Root, in)
		if it == nil {
			continue
		}
		for _, t := range w.Implementations(it) {
			for _, m := range []string{"UnmarshalCBOR", "UnmarshalJSON"} {
				if fn := w.MethodImpl(t, m); fn != nil {
					decoders = append(decoders, apiFunc{fn, t.Obj().Name() + "." + m, false})
				}
			}
		}
	}
	for _, fn := range w.Funcs {
		if len(fn.TypeArgs()) > 0 && fn.Signature.Recv() != nil && strings.Contains(fn.Signature.Recv().Type().String(), "SwComponents[") && strings.HasPrefix(baseName(fn), "Unmarshal") {
			decoders = append(decoders, apiFunc{fn, "SwComponents." + baseName(fn), false})
		}
	}
	for _, a := range decoders {
		ef := eff[a.fn]
		if ef == nil {
			r.Undecide("C18-M2", a.name, w.FnPos(a.fn), "no effect summary")
			continue
		}
		for i, prm := range a.fn.Params {
			sl, ok := prm.Type().Underlying().(*types.Slice)
			if !ok {
				continue
			}
			if b, ok := sl.Elem().Underlying().(*types.Basic); !ok || b.Kind() != types.Uint8 {
				continue
			}
			key := fmt.Sprintf("%s(%s)", a.name, prm.Name())
			bit := uint64(1) << uint(i)
			why := ""
			pos := w.FnPos(a.fn)
			for ri, rp := range ef.RetProv {
				if rp.Params&bit != 0 {
					why = fmt.Sprintf("result %d may alias the caller's buffer", ri)
				}
			}
			if ef.StoresParam&bit != 0 {
				why = "memory of the caller's buffer may be retained in the object being populated"
				for _, s := range ef.RetainSites {
					if s.Prov.Params&bit != 0 {
						why += fmt.Sprintf(" [%s at %s]", s.What, w.InstrPos(s.Instr))
						pos = w.InstrPos(s.Instr)
						break
					}
				}
			}
			r.Check(why == "", "C18-M2", key, pos, "no result aliases the buffer; nothing reachable from it is stored", why)
		}
	}
	// M3
	var roots []*ssa.Function
	for _, a := range api {
		if a.shared {
			// Verify included: "verification gives the same result every time it
			// is repeated" — the in-repo part of the verify path consults no
			// clock, randomness or environment either
			roots = append(roots, a.fn)
		}
	}
	reach := w.Reachable(roots)
	r.Count("functions_on_validate_encode_paths", len(reach))
	for _, fn := range sortedFuncs(reach) {
		ef := eff[fn]
		if ef == nil {
			continue
		}
		bad := false
		for _, mr := range ef.MapRanges {
			r.Refute("C18-M3", fnKey(fn)+"#map-range", w.InstrPos(mr), "iteration over a map on a validate/encode path: the result may differ between repetitions")
			bad = true
		}
		for c := range ef.Calls {
			cc := strings.TrimPrefix(strings.TrimPrefix(c, "("), "*")
			if strings.HasPrefix(cc, "time.") || strings.HasPrefix(cc, "math/rand") || strings.HasPrefix(cc, "crypto/rand") || strings.HasPrefix(cc, "os.") {
				r.Refute("C18-M3", fnKey(fn)+"#call:"+c, w.FnPos(fn), "validate/encode path calls "+c)
				bad = true
			}
		}
		for g := range ef.GlobalReads {
			if g.Pkg != nil && (g.Pkg.Pkg.Path() == "crypto/rand" || g.Pkg.Pkg.Path() == "math/rand") {
				r.Refute("C18-M3", fnKey(fn)+"#rand", w.FnPos(fn), "validate/encode path reads "+g.String())
				bad = true
			}
		}
		if !bad {
			r.Prove("C18-M3", fnKey(fn), w.FnPos(fn), "no map iteration, clock or randomness", true)
		}
	}
	if w.Whole {
		c18CoseVerify(w, r)
	}
	// M4: what the encoders and signers hand out is fresh memory: using the
	// library again cannot change an encoding or token obtained earlier
	for _, n := range []string{"EncodeClaimsToCBOR", "ValidateAndEncodeClaimsToCBOR", "EncodeClaimsToJSON", "ValidateAndEncodeClaimsToJSON"} {
		if fn := w.Root.Func(n); fn != nil {
			ruleResultFresh(w, r, "C18-M4", fn, n, 0)
		}
	}
	for _, n := range []string{"Sign", "ValidateAndSign", "MarshalJSON"} {
		if fn := w.findFunc("Evidence", n); fn != nil {
			ruleResultFresh(w, r, "C18-M4", fn, "Evidence."+n, 0)
		}
	}
	r.Floor("C18-M1", 45)
	r.Floor("C18-M2", 15)
	r.Floor("C18-M3", 50)
	return info
}

// c18CoseVerify (thorough): go-cose's Sign1Message.Verify does not store
// through its receiver.
func c18CoseVerify(w *World, r *Recorder) {
	for fn := range w.AllFuncs {
		if fn.String() != cVerify || fn.Blocks == nil {
			continue
		}
		recv := fn.Params[0]
		bad := ""
		for _, b := range fn.Blocks {
			for _, in := range b.Instrs {
				if st, ok := in.(*ssa.Store); ok {
					v := st.Addr
					for {
						if fa, ok := v.(*ssa.FieldAddr); ok {
							v = fa.X
							continue
						}
						break
					}
					if v == ssa.Value(recv) {
						bad = w.InstrPos(st)
					}
				}
			}
		}
		r.Check(bad == "", "C18-M1d", "go-cose Sign1Message.Verify", w.FnPos(fn), "audited from the dependency's SSA: no store through the receiver", "go-cose's Verify stores through its receiver at "+bad)
		return
	}
	r.Undecide("C18-M1d", "go-cose Sign1Message.Verify", "-", "dependency function not found in the whole-program load")
}

// immutableSharedType: values of this type may be shared between goroutines
// and objects without harm: errors (sentinels), the codec modes, compiled
// patterns, function values, and types that cannot reference memory.
func immutableSharedType(t types.Type) bool {
	if !pointerLike(t) {
		return true
	}
	ts := t.String()
	if isErrorType(t) || ts == pCBOR+".EncMode" || ts == pCBOR+".DecMode" || strings.Contains(ts, "regexp.Regexp") {
		return true
	}
	if _, isSig := t.Underlying().(*types.Signature); isSig {
		return true
	}
	return false
}

// immutableGlobalElem: a package-level variable whose *address* (or interior)
// a value may reference is harmless to share only if nobody can write through
// that reference: sentinel errors, codec modes, compiled patterns, functions.
// Unlike immutableSharedType this does not exempt plain value types — a
// pointer to a package-level uint or string is shared mutable memory.
func immutableGlobalElem(t types.Type) bool {
	ts := t.String()
	if isErrorType(t) || ts == pCBOR+".EncMode" || ts == pCBOR+".DecMode" || strings.Contains(ts, "regexp.Regexp") {
		return true
	}
	_, isSig := t.Underlying().(*types.Signature)
	return isSig
}

// leakIntoGlobal: the store's target is itself package-level memory (the
// registration function filling the register): not an object of a caller.
func leakIntoGlobal(site WriteSite) bool {
	return len(site.Target.Globals) > 0 && site.Target.Params == 0 && !site.Target.Unknown
}

// ruleSettersStoreOwnedMemory: nothing a setter (or anything it calls) puts
// into the object it is called on may reference mutable package-level memory.
// What a claims-set holds after its setters ran must be memory of that
// claims-set alone: a pointer field aimed at a shared variable is rewritten
// by the next decode into *any* object that carries the same pointer (the
// decoders store through existing non-nil pointers), so what a later encode
// emits for this set — and what its getters return — depends on unrelated
// objects. Same leak-site scan as C17-X5, rooted at the write-side API instead
// of the read side. Immutable shared values (sentinel errors, codec modes,
// patterns, functions) are exempt by type as in X5.
func ruleSettersStoreOwnedMemory(w *World, r *Recorder, rule string) {
	type root struct {
		fn   *ssa.Function
		name string
	}
	var roots []root
	for _, in := range []string{"IClaims", "ISwComponent"} {
		it := w.iface(w.Root, in)
		if it == nil {
			r.Undecide(rule, "interface "+in, "-", "not found")
			continue
		}
		for _, t := range w.Implementations(it) {
			for i := 0; i < it.NumMethods(); i++ {
				m := it.Method(i).Name()
				if !strings.HasPrefix(m, "Set") {
					continue
				}
				if fn := w.MethodImpl(t, m); fn != nil {
					roots = append(roots, root{fn, t.Obj().Name() + "." + m})
				} else {
					r.Undecide(rule, t.Obj().Name()+"."+m, "-", "setter body not found")
				}
			}
		}
	}
	for _, fn := range w.Funcs {
		if len(fn.TypeArgs()) == 0 || fn.Signature.Recv() == nil || !strings.Contains(fn.Signature.Recv().Type().String(), "SwComponents[") {
			continue
		}
		switch baseName(fn) {
		case "Add", "Replace":
			roots = append(roots, root{fn, "SwComponents." + baseName(fn)})
		}
	}
	if fn := w.findFunc("Evidence", "SetClaims"); fn != nil {
		roots = append(roots, root{fn, "Evidence.SetClaims"})
	}
	eff := w.Effects()
	seen := map[string]bool{}
	for _, rt := range roots {
		if seen[rt.name] {
			continue
		}
		seen[rt.name] = true
		bad := false
		for _, fn := range sortedFuncs(w.Reachable([]*ssa.Function{rt.fn})) {
			ef := eff[fn]
			if ef == nil {
				continue
			}
			for _, site := range ef.LeakSites {
				var gs []string
				for _, g := range site.Prov.sharedGlobals() {
					if !immutableGlobalElem(g.Type().(*types.Pointer).Elem()) {
						gs = append(gs, g.Name())
					}
				}
				if len(gs) == 0 || leakIntoGlobal(site) {
					continue
				}
				if st, ok := site.Instr.(*ssa.Store); ok && immutableSharedType(st.Val.Type()) {
					continue
				}
				sort.Strings(gs)
				bad = true
				r.Refute(rule, rt.name+"#"+fnKey(fn)+":"+site.What+":"+strings.Join(gs, ","), w.InstrPos(site.Instr),
					fmt.Sprintf("%s (reached from the setter %s) stores a value that references package-level memory %v into the object being set: every object set this way shares that memory, and a decode into one of them rewrites what the others emit", fnKey(fn), rt.name, gs))
			}
		}
		if !bad {
			r.Prove(rule, rt.name, w.FnPos(rt.fn), "every value the setter stores is the caller's argument or fresh memory", true)
		}
	}
}

// ruleDispatchKeepsNoState: the dispatchers (NewClaims and the claims decoders)
// write no package-level memory. A cache or memo filled by one decode is a
// snapshot of the register (or of an earlier verdict) that a later
// RegisterProfile does not reach: the same token then decodes differently
// depending on what was decoded before the registration. The register itself
// is written only by the registration functions, which are not reachable from
// the dispatchers (C16-N1).
func ruleDispatchKeepsNoState(w *World, r *Recorder, rule string) {
	eff := w.Effects()
	for _, n := range []string{"NewClaims", "DecodeClaimsFromCBOR", "DecodeClaimsFromJSON"} {
		root := w.Root.Func(n)
		if root == nil {
			r.Undecide(rule, n, "-", "dispatcher not found")
			continue
		}
		bad := false
		for _, fn := range sortedFuncs(w.Reachable([]*ssa.Function{root})) {
			ef := eff[fn]
			if ef == nil {
				continue
			}
			for _, site := range ef.Sites {
				if len(site.Prov.Globals) == 0 {
					continue
				}
				var gs []string
				for g := range site.Prov.Globals {
					gs = append(gs, g.Name())
				}
				sort.Strings(gs)
				bad = true
				r.Refute(rule, n+"#"+fnKey(fn)+":"+site.What+":"+strings.Join(gs, ","), w.InstrPos(site.Instr),
					fmt.Sprintf("%s (reached from %s) writes package-level state %v via %s: what a decode leaves there is not updated by a later registration, so dispatch depends on the order of decodes and registrations", fnKey(fn), n, gs, site.What))
			}
			if ef.WritesUnknown {
				bad = true
				r.Undecide(rule, n+"#"+fnKey(fn)+":unknown-target", w.FnPos(fn), "write whose target the provenance analysis cannot bound")
			}
		}
		if !bad {
			r.Prove(rule, n, w.FnPos(root), "writes no package-level memory", true)
		}
	}
}
