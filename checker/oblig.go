package main

// Obligations, known findings and evidence output.

import (
	"encoding/json"
	"fmt"
	"os"
	"path/filepath"
	"sort"
	"strings"
	"time"
)

const (
	Proved    = "proved"
	Refuted   = "refuted"
	Undecided = "undecided"
)

// Oblig is one (rule, construct) pair with its verdict.
type Oblig struct {
	Rule      string `json:"rule"`
	Construct string `json:"construct"`
	Verdict   string `json:"verdict"`
	Pos       string `json:"pos,omitempty"`
	Detail    string `json:"detail,omitempty"`
	// How names the discharger / facts used. Obligations proved by anything
	// other than a purely structural match are "non-trivial".
	How        string `json:"how,omitempty"`
	Nontrivial bool   `json:"nontrivial,omitempty"`
}

func (o *Oblig) Key() string { return o.Rule + "/" + o.Construct }

// Recorder collects obligations for one property run.
type Recorder struct {
	Property string
	Obs      []*Oblig
	seen     map[string]*Oblig
	Floors   map[string]int // rule -> minimal instance count
	Analysed map[string]int // free-form counters (functions, paths, call sites…)
	Notes    []string
}

func NewRecorder(prop string) *Recorder {
	return &Recorder{Property: prop, seen: map[string]*Oblig{}, Floors: map[string]int{}, Analysed: map[string]int{}}
}

func (r *Recorder) add(o *Oblig) *Oblig {
	k := o.Key()
	if prev, ok := r.seen[k]; ok {
		// the same construct judged twice: the worse verdict wins
		if rank(o.Verdict) > rank(prev.Verdict) {
			*prev = *o
		}
		return prev
	}
	r.seen[k] = o
	r.Obs = append(r.Obs, o)
	return o
}

func rank(v string) int {
	switch v {
	case Proved:
		return 0
	case Undecided:
		return 1
	}
	return 2
}

func (r *Recorder) Prove(rule, construct, pos, how string, nontrivial bool) {
	r.add(&Oblig{Rule: rule, Construct: construct, Verdict: Proved, Pos: pos, How: how, Nontrivial: nontrivial})
}
func (r *Recorder) Refute(rule, construct, pos, detail string) {
	r.add(&Oblig{Rule: rule, Construct: construct, Verdict: Refuted, Pos: pos, Detail: detail, Nontrivial: true})
}
func (r *Recorder) Undecide(rule, construct, pos, detail string) {
	r.add(&Oblig{Rule: rule, Construct: construct, Verdict: Undecided, Pos: pos, Detail: detail, Nontrivial: true})
}

// Check records proved when ok, refuted otherwise.
func (r *Recorder) Check(ok bool, rule, construct, pos, how, detail string) bool {
	if ok {
		r.Prove(rule, construct, pos, how, true)
	} else {
		r.Refute(rule, construct, pos, detail)
	}
	return ok
}

func (r *Recorder) Floor(rule string, n int) { r.Floors[rule] = n }
func (r *Recorder) Count(k string, n int)    { r.Analysed[k] += n }
func (r *Recorder) Note(f string, a ...any)  { r.Notes = append(r.Notes, fmt.Sprintf(f, a...)) }

// ---- known findings ----

type Finding struct {
	Property  string `json:"property"`
	Key       string `json:"key"`
	Status    string `json:"status"` // known | fixed
	Commit    string `json:"commit,omitempty"`
	WhatFails string `json:"what_fails"`
}

// loadFindings parses /verif/known_findings.txt, one entry per line:
//
//	known: property=<id> key=<rule/construct> <what fails>
//	fixed: property=<id> <commit> <what failed>
//
// "fixed" entries suppress nothing; they are a record.
func loadFindings(path string) ([]Finding, error) {
	b, err := os.ReadFile(path)
	if err != nil {
		if os.IsNotExist(err) {
			return nil, nil
		}
		return nil, err
	}
	var out []Finding
	for _, line := range strings.Split(string(b), "\n") {
		line = strings.TrimSpace(line)
		if line == "" || strings.HasPrefix(line, "#") {
			continue
		}
		switch {
		case strings.HasPrefix(line, "known:"):
			rest := strings.TrimSpace(strings.TrimPrefix(line, "known:"))
			f := Finding{Status: "known"}
			if !strings.HasPrefix(rest, "property=") {
				return nil, fmt.Errorf("malformed known-finding line: %q", line)
			}
			parts := strings.SplitN(rest, " ", 2)
			f.Property = strings.TrimPrefix(parts[0], "property=")
			if len(parts) < 2 || !strings.HasPrefix(parts[1], "key=") {
				return nil, fmt.Errorf("malformed known-finding line (no key=): %q", line)
			}
			// key may contain spaces: it ends at " :: "
			kv := strings.SplitN(strings.TrimPrefix(parts[1], "key="), " :: ", 2)
			f.Key = strings.TrimSpace(kv[0])
			if len(kv) == 2 {
				f.WhatFails = strings.TrimSpace(kv[1])
			}
			out = append(out, f)
		case strings.HasPrefix(line, "fixed:"):
			rest := strings.Fields(strings.TrimPrefix(line, "fixed:"))
			f := Finding{Status: "fixed"}
			if len(rest) >= 2 {
				f.Property = strings.TrimPrefix(rest[0], "property=")
				f.Commit = rest[1]
				f.WhatFails = strings.Join(rest[2:], " ")
			}
			out = append(out, f)
		default:
			return nil, fmt.Errorf("malformed line in known findings: %q", line)
		}
	}
	return out, nil
}

// ---- evidence ----

type evidenceFile struct {
	PropertyID  string         `json:"property_id"`
	Tier        string         `json:"tier"`
	Seed        int            `json:"seed"`
	Level       string         `json:"level"`
	Coverage    map[string]any `json:"coverage"`
	Assumptions []string       `json:"assumptions"`
	WallS       float64        `json:"wall_s"`
	Violations  int            `json:"violations"`
}

type propInfo struct {
	Explanation string
	Rule        string
	Trusted     []string
	Assumptions []string
	// Exhaustive: the run enumerated a finite input space completely.
	Exhaustive bool
}

// Finish evaluates floors and known findings, prints the report lines, writes
// the evidence file and returns the process exit code.
func (r *Recorder) Finish(w *World, info propInfo, tier string, seed int, outDir, verifDir string, start time.Time) int {
	// vacuity guard
	// instances are counted in units that survive a behaviour-preserving
	// refactoring: distinct constructs up to the first '#' (the function, field
	// or table row), not paths or sites within them
	perRule := map[string]int{}
	units := map[string]bool{}
	for _, o := range r.Obs {
		u := o.Construct
		if i := strings.IndexByte(u, '#'); i >= 0 {
			u = u[:i]
		}
		if !units[o.Rule+"/"+u] {
			units[o.Rule+"/"+u] = true
			perRule[o.Rule]++
		}
	}
	if os.Getenv("PSACHECK_UNITS") != "" {
		var ks []string
		for k := range perRule {
			ks = append(ks, k)
		}
		sort.Strings(ks)
		for _, k := range ks {
			fmt.Printf("UNITS %s %d (floor %d)\n", k, perRule[k], r.Floors[k])
		}
	}
	var rules []string
	for k := range r.Floors {
		rules = append(rules, k)
	}
	sort.Strings(rules)
	for _, rule := range rules {
		if perRule[rule] < r.Floors[rule] {
			r.Undecide("floor", rule, "-", fmt.Sprintf("rule %s matched %d instances, fewer than the %d confirmed by hand on the pinned tree (vacuity guard; instances = distinct functions, fields or rows)", rule, perRule[rule], r.Floors[rule]))
		} else {
			r.Prove("floor", rule, "-", fmt.Sprintf("%d instances >= floor %d", perRule[rule], r.Floors[rule]), false)
		}
	}

	findings, ferr := loadFindings(filepath.Join(verifDir, "known_findings.txt"))
	if ferr != nil {
		r.Undecide("framework", "known_findings.txt", "-", ferr.Error())
	}
	known := map[string]Finding{}
	for _, f := range findings {
		if f.Property == r.Property && f.Status == "known" {
			known[f.Key] = f
		}
	}

	sort.SliceStable(r.Obs, func(i, j int) bool { return r.Obs[i].Key() < r.Obs[j].Key() })
	var bad []*Oblig
	discharged, nontrivial := 0, 0
	distinct := map[string]bool{}
	for _, o := range r.Obs {
		switch o.Verdict {
		case Proved:
			discharged++
			if o.Nontrivial && !distinct[o.Key()] {
				distinct[o.Key()] = true
				nontrivial++
			}
		default:
			if f, ok := known[o.Key()]; ok && o.Verdict == Refuted {
				fmt.Printf("KNOWN-FINDING: property=%s %s [%s at %s]\n", r.Property, f.WhatFails, o.Key(), o.Pos)
				continue
			}
			bad = append(bad, o)
		}
	}

	if os.Getenv("PSACHECK_ALL") != "" {
		for _, o := range r.Obs {
			fmt.Printf("  %-9s %s: %s — %s%s\n", o.Verdict, o.Pos, clip(o.Key(), 140), clip(o.How, 160), clip(o.Detail, 160))
		}
	}
	reportPath := filepath.Join(outDir, r.Property+".report.json")
	os.Remove(reportPath)
	if len(bad) > 0 {
		for _, o := range bad {
			fmt.Printf("%s %s: %s [%s] %s\n", strings.ToUpper(o.Verdict), o.Pos, clip(o.Key(), 200), r.Property, clip(o.Detail, 700))
		}
		rep := map[string]any{"property": r.Property, "tier": tier, "repo": w.RepoDir, "violations": bad}
		if b, err := json.MarshalIndent(rep, "", " "); err == nil {
			_ = os.WriteFile(reportPath, b, 0o644)
		}
	}

	// samples: a spread of actual obligations
	var samples []any
	step := len(r.Obs)/12 + 1
	for i := 0; i < len(r.Obs); i += step {
		samples = append(samples, r.Obs[i])
	}
	for _, o := range bad {
		samples = append(samples, o)
	}
	floors := map[string]any{}
	for _, rule := range rules {
		floors[rule] = map[string]int{"instances": perRule[rule], "floor": r.Floors[rule]}
	}
	ruleCounts := map[string]int{}
	for k, v := range perRule {
		ruleCounts[k] = v
	}
	cov := map[string]any{
		"explanation":         strings.TrimSpace(info.Explanation + " " + laterRules[r.Property]),
		"rule":                info.Rule,
		"obligations":         len(r.Obs),
		"discharged":          discharged,
		"evaluations":         len(r.Obs),
		"distinct_nontrivial": nontrivial,
		"samples":             samples,
		"checker_cmd":         strings.Join(os.Args, " "),
		"trusted_base":        nonNilStrings(info.Trusted),
		"instances_per_rule":  ruleCounts,
		"floors":              floors,
		"analysed":            r.Analysed,
		"functions_in_repo":   len(w.Funcs),
		"packages_loaded":     len(w.Pkgs),
		"whole_program":       w.Whole,
		"notes":               r.Notes,
		"exhaustive":          info.Exhaustive && len(bad) == 0,
	}
	if info.Assumptions == nil {
		info.Assumptions = []string{}
	}
	if info.Trusted == nil {
		info.Trusted = []string{}
	}
	ev := evidenceFile{PropertyID: r.Property, Tier: tier, Seed: seed, Level: "other", Coverage: cov,
		Assumptions: info.Assumptions, WallS: time.Since(start).Seconds(), Violations: len(bad)}
	b, err := json.MarshalIndent(ev, "", " ")
	if err != nil {
		fmt.Printf("VIOLATION property=%s replay=%s\n", r.Property, "evidence-marshal-failed")
		return 1
	}
	if err := os.MkdirAll(outDir, 0o755); err == nil {
		err = os.WriteFile(filepath.Join(outDir, r.Property+".json"), b, 0o644)
	}
	if err != nil {
		fmt.Println("cannot write evidence:", err)
		return 2
	}
	fmt.Printf("%s tier=%s obligations=%d proved=%d open=%d wall=%.2fs\n", r.Property, tier, len(r.Obs), discharged, len(bad), time.Since(start).Seconds())
	if len(bad) > 0 {
		fmt.Printf("VIOLATION property=%s replay=%s\n", r.Property, reportPath)
		return 1
	}
	return 0
}

func clip(s string, n int) string {
	s = strings.ReplaceAll(s, "\n", " ")
	if len(s) > n {
		return s[:n] + "…"
	}
	return s
}

func nonNilStrings(s []string) []string {
	if s == nil {
		return []string{}
	}
	return s
}
