package main

// Library model table (DESIGN 3.4): one entry per external function that
// in-repo code calls. An external callee without an entry is "unmodelled":
// the engine forgets all non-local memory at the call and marks the event.

import (
	"fmt"
	"go/constant"
	"go/types"
	"strings"

	"golang.org/x/tools/go/ssa"
)

type Model struct {
	// Pure: the results are a function of the arguments; nothing reachable
	// from the caller is written.
	Pure bool
	// Writes: positions (receiver first) of arguments whose pointee is
	// written by the call. Anything else the caller can see is untouched.
	Writes []int
	// NonNil: per result, known to be non-nil.
	NonNil []bool
	// Retains: positions of arguments whose memory the callee may keep a
	// reference to (used by the retention rule, C18-M2). Default: none.
	Retains []int
	// Why: one-line justification (documentation / pinned dependency).
	Why    string
	Custom func(e *Engine, st *State, x *ssa.Call, args []AV) AV
}

const (
	pCBOR = "github.com/fxamacker/cbor/v2"
	pCOSE = "github.com/veraison/go-cose"
	pEAT  = "github.com/veraison/eat"
)

var models = map[string]Model{
	// --- locks: a lock's own state is synchronised by definition and nothing else is touched ---
	"(*sync.Mutex).Lock":      {Why: "sync docs: lock state only"},
	"(*sync.Mutex).Unlock":    {Why: "sync docs: lock state only"},
	"(*sync.RWMutex).Lock":    {Why: "sync docs: lock state only"},
	"(*sync.RWMutex).Unlock":  {Why: "sync docs: lock state only"},
	"(*sync.RWMutex).RLock":   {Why: "sync docs: lock state only"},
	"(*sync.RWMutex).RUnlock": {Why: "sync docs: lock state only"},

	// --- errors / fmt ---
	"fmt.Errorf":  {Pure: true, NonNil: []bool{true}, Custom: modelErrorf, Why: "fmt docs: always returns a non-nil error; %w wraps"},
	"errors.New":  {Pure: true, NonNil: []bool{true}, Custom: modelErrorsNew, Why: "errors docs"},
	"errors.Is":   {Pure: true, Why: "errors docs: reads the chain"},
	"fmt.Sprintf": {Pure: true, Why: "fmt docs"},
	"fmt.Sprint":  {Pure: true, Why: "fmt docs"},

	// --- further standard-library functions that only read their arguments ---
	"(*strings.Replacer).Replace":                {Pure: true, Why: "strings docs: a Replacer is safe for concurrent use"},
	"strings.NewReplacer":                        {Pure: true, NonNil: []bool{true}, Why: "strings docs"},
	"errors.Unwrap":                              {Pure: true, Why: "standard library: reads its arguments only"},
	"errors.As":                                  {Pure: true, Why: "standard library: reads its arguments only"},
	"errors.Join":                                {Pure: true, Why: "standard library: reads its arguments only"},
	"bytes.Equal":                                {Pure: true, Why: "standard library: reads its arguments only"},
	"bytes.Compare":                              {Pure: true, Why: "standard library: reads its arguments only"},
	"bytes.HasPrefix":                            {Pure: true, Why: "standard library: reads its arguments only"},
	"bytes.HasSuffix":                            {Pure: true, Why: "standard library: reads its arguments only"},
	"bytes.Contains":                             {Pure: true, Why: "standard library: reads its arguments only"},
	"bytes.Index":                                {Pure: true, Why: "standard library: reads its arguments only"},
	"bytes.TrimSpace":                            {Pure: true, Why: "standard library: reads its arguments only"},
	"strings.EqualFold":                          {Pure: true, Why: "standard library: reads its arguments only"},
	"strings.Index":                              {Pure: true, Why: "standard library: reads its arguments only"},
	"strings.LastIndex":                          {Pure: true, Why: "standard library: reads its arguments only"},
	"strings.IndexByte":                          {Pure: true, Why: "standard library: reads its arguments only"},
	"strings.ToLower":                            {Pure: true, Why: "standard library: reads its arguments only"},
	"strings.ToUpper":                            {Pure: true, Why: "standard library: reads its arguments only"},
	"strings.Trim":                               {Pure: true, Why: "standard library: reads its arguments only"},
	"strings.TrimLeft":                           {Pure: true, Why: "standard library: reads its arguments only"},
	"strings.TrimRight":                          {Pure: true, Why: "standard library: reads its arguments only"},
	"strings.TrimPrefix":                         {Pure: true, Why: "standard library: reads its arguments only"},
	"strings.TrimSuffix":                         {Pure: true, Why: "standard library: reads its arguments only"},
	"strings.Fields":                             {Pure: true, Why: "standard library: reads its arguments only"},
	"strings.Join":                               {Pure: true, Why: "standard library: reads its arguments only"},
	"strings.Repeat":                             {Pure: true, Why: "standard library: reads its arguments only"},
	"strings.Replace":                            {Pure: true, Why: "standard library: reads its arguments only"},
	"strings.ReplaceAll":                         {Pure: true, Why: "standard library: reads its arguments only"},
	"strings.Count":                              {Pure: true, Why: "standard library: reads its arguments only"},
	"strings.Cut":                                {Pure: true, Why: "standard library: reads its arguments only"},
	"strings.SplitN":                             {Pure: true, Why: "standard library: reads its arguments only"},
	"strings.ContainsRune":                       {Pure: true, Why: "standard library: reads its arguments only"},
	"strings.ContainsAny":                        {Pure: true, Why: "standard library: reads its arguments only"},
	"strconv.ParseInt":                           {Pure: true, Why: "standard library: reads its arguments only"},
	"strconv.ParseUint":                          {Pure: true, Why: "standard library: reads its arguments only"},
	"strconv.FormatInt":                          {Pure: true, Why: "standard library: reads its arguments only"},
	"strconv.FormatUint":                         {Pure: true, Why: "standard library: reads its arguments only"},
	"strconv.Quote":                              {Pure: true, Why: "standard library: reads its arguments only"},
	"strconv.ParseBool":                          {Pure: true, Why: "standard library: reads its arguments only"},
	"unicode/utf8.ValidString":                   {Pure: true, Why: "standard library: reads its arguments only"},
	"unicode/utf8.Valid":                         {Pure: true, Why: "standard library: reads its arguments only"},
	"unicode/utf8.RuneCountInString":             {Pure: true, Why: "standard library: reads its arguments only"},
	"unicode.IsDigit":                            {Pure: true, Why: "standard library: reads its arguments only"},
	"unicode.IsLetter":                           {Pure: true, Why: "standard library: reads its arguments only"},
	"unicode.IsSpace":                            {Pure: true, Why: "standard library: reads its arguments only"},
	"reflect.DeepEqual":                          {Pure: true, Why: "standard library: reads its arguments only"},
	"crypto/subtle.ConstantTimeCompare":          {Pure: true, Why: "standard library: reads its arguments only"},
	"encoding/hex.EncodeToString":                {Pure: true, Why: "standard library: reads its arguments only"},
	"encoding/hex.DecodeString":                  {Pure: true, Why: "standard library: reads its arguments only"},
	"(*encoding/base64.Encoding).EncodeToString": {Pure: true, Why: "standard library: reads its arguments only"},
	"(*encoding/base64.Encoding).DecodeString":   {Pure: true, Why: "standard library: reads its arguments only"},
	"slices.Contains":                            {Pure: true, Why: "standard library: reads its arguments only"},
	"slices.Index":                               {Pure: true, Custom: modelSlicesIndex, Why: "slices docs: the index of the first occurrence of v in s, or -1: the result r satisfies -1 <= r < len(s)"},
	"slices.Equal":                               {Pure: true, Why: "standard library: reads its arguments only"},
	"fmt.Sprintln":                               {Pure: true, Why: "standard library: reads its arguments only"},
	"math.Min":                                   {Pure: true, Why: "standard library: reads its arguments only"},
	"math.Max":                                   {Pure: true, Why: "standard library: reads its arguments only"},
	"math/bits.Len":                              {Pure: true, Why: "standard library: reads its arguments only"},
	"(reflect.Value).Len":                        {Pure: true, Why: "standard library: reads its arguments only"},
	"(reflect.Value).Index":                      {Pure: true, Why: "standard library: reads its arguments only"},
	"(reflect.Value).String":                     {Pure: true, Why: "standard library: reads its arguments only"},
	"(reflect.Value).Int":                        {Pure: true, Why: "standard library: reads its arguments only"},
	"(reflect.Value).Uint":                       {Pure: true, Why: "standard library: reads its arguments only"},
	"(reflect.Value).Bool":                       {Pure: true, Why: "standard library: reads its arguments only"},
	"(reflect.Value).CanAddr":                    {Pure: true, Why: "standard library: reads its arguments only"},
	"(reflect.Value).CanSet":                     {Pure: true, Why: "standard library: reads its arguments only"},
	"invoke reflect.Type.NumMethod":              {Pure: true, Why: "standard library: reads its arguments only"},
	"invoke reflect.Type.PkgPath":                {Pure: true, Why: "standard library: reads its arguments only"},
	"invoke reflect.Type.Implements":             {Pure: true, Why: "standard library: reads its arguments only"},
	"invoke error.Error":                         {Pure: true, Why: "standard library: reads its arguments only"},
	// --- strings / strconv / bytes ---
	"strings.Split":               {Pure: true, NonNil: []bool{true}, Custom: modelSplit, Why: "strings docs: len(result) >= 1 for a non-empty separator"},
	"strings.Contains":            {Pure: true, Why: "strings docs"},
	"strings.HasPrefix":           {Pure: true, Why: "strings docs"},
	"strings.HasSuffix":           {Pure: true, Why: "strings docs"},
	"strings.TrimSpace":           {Pure: true, Why: "strings docs"},
	"strconv.Atoi":                {Pure: true, Why: "strconv docs"},
	"strconv.Itoa":                {Pure: true, Why: "strconv docs"},
	"bytes.NewReader":             {Pure: true, NonNil: []bool{true}, Retains: []int{0}, Why: "bytes docs: reader over the given slice"},
	"(*bytes.Buffer).Write":       {Writes: []int{0}, Why: "bytes docs: copies p into the buffer"},
	"(*bytes.Buffer).Bytes":       {Pure: true, Why: "bytes docs"},
	"(*bytes.Buffer).String":      {Pure: true, Why: "bytes docs"},
	"(*bytes.Buffer).WriteString": {Writes: []int{0}, Why: "bytes docs"},
	"(*bytes.Buffer).WriteByte":   {Writes: []int{0}, Why: "bytes docs"},

	// --- regexp ---
	"regexp.MustCompile":           {Pure: true, NonNil: []bool{true}, Why: "regexp docs: panics instead of returning nil"},
	"(*regexp.Regexp).MatchString": {Pure: true, Why: "regexp docs: a Regexp is safe for concurrent use and is not modified by matching"},
	"(*regexp.Regexp).Match":       {Pure: true, Why: "regexp docs"},

	// --- encoding/binary ---
	"(encoding/binary.bigEndian).Uint16":       {Pure: true, Custom: modelBEUint(16), Why: "encoding/binary: reads b[0:2] big-endian"},
	"(encoding/binary.bigEndian).Uint32":       {Pure: true, Custom: modelBEUint(32), Why: "encoding/binary: reads b[0:4] big-endian"},
	"(encoding/binary.bigEndian).Uint64":       {Pure: true, Custom: modelBEUint(64), Why: "encoding/binary"},
	"(encoding/binary.bigEndian).AppendUint16": {Pure: true, Custom: modelBEAppend(16), Why: "encoding/binary: appends 2 bytes big-endian"},
	"(encoding/binary.bigEndian).AppendUint32": {Pure: true, Custom: modelBEAppend(32), Why: "encoding/binary: appends 4 bytes big-endian"},
	"(encoding/binary.bigEndian).AppendUint64": {Pure: true, Custom: modelBEAppend(64), Why: "encoding/binary"},

	// --- encoding/json ---
	"encoding/json.Marshal":          {Pure: true, Why: "encoding/json: reads v (calls its MarshalJSON), returns fresh bytes"},
	"encoding/json.Unmarshal":        {Writes: []int{1}, Why: "encoding/json: reads data, writes *v; byte strings are base64-decoded into fresh slices; nesting limited to 10000"},
	"encoding/json.NewDecoder":       {Pure: true, NonNil: []bool{true}, Why: "encoding/json"},
	"(*encoding/json.Decoder).Token": {Writes: []int{0}, Why: "encoding/json: advances the decoder"},
	"(*encoding/json.Decoder).More":  {Pure: true, Why: "encoding/json"},

	// --- reflect (pure with respect to everything but dest, which is written only through Addr().Interface() handed to a decoder) ---
	"reflect.TypeOf":               {Pure: true, Custom: modelTypeOf, Why: "reflect docs: non-nil for a non-nil interface value"},
	"reflect.ValueOf":              {Pure: true, Custom: modelValueOf, Why: "reflect docs"},
	"(reflect.StructTag).Lookup":   {Pure: true, Why: "reflect docs"},
	"(reflect.StructTag).Get":      {Pure: true, Why: "reflect docs"},
	"(reflect.Value).Addr":         {Pure: true, Why: "reflect docs"},
	"(reflect.Value).Elem":         {Pure: true, Why: "reflect docs"},
	"(reflect.Value).Field":        {Pure: true, Why: "reflect docs"},
	"(reflect.Value).Interface":    {Pure: true, Why: "reflect docs"},
	"(reflect.Value).IsZero":       {Pure: true, Why: "reflect docs"},
	"(reflect.Value).IsNil":        {Pure: true, Custom: modelIsNil, Why: "reflect docs: reports whether the pointer/interface the Value holds is nil"},
	"(reflect.Value).IsValid":      {Pure: true, Why: "reflect docs"},
	"(reflect.Value).Kind":         {Pure: true, Custom: modelValueKind, Why: "reflect docs: the kind of the dynamic type held"},
	"(reflect.Value).NumField":     {Pure: true, Why: "reflect docs"},
	"(reflect.Value).Type":         {Pure: true, NonNil: []bool{true}, Why: "reflect docs"},
	"invoke reflect.Type.Elem":     {Pure: true, NonNil: []bool{true}, Why: "reflect docs"},
	"invoke reflect.Type.Field":    {Pure: true, Why: "reflect docs"},
	"invoke reflect.Type.Kind":     {Pure: true, Why: "reflect docs"},
	"invoke reflect.Type.Name":     {Pure: true, Why: "reflect docs"},
	"invoke reflect.Type.NumField": {Pure: true, Why: "reflect docs"},
	"invoke reflect.Type.String":   {Pure: true, Why: "reflect docs"},

	// --- fxamacker/cbor v2.5.0 ---
	"(" + pCBOR + ".EncOptions).EncMode":          {Pure: true, Why: "cbor v2.5.0 encode.go: builds an immutable mode; (nil, err) or (mode, nil)"},
	"(" + pCBOR + ".DecOptions).DecMode":          {Pure: true, Why: "cbor v2.5.0 decode.go: builds an immutable mode"},
	"invoke " + pCBOR + ".EncMode.Marshal":        {Pure: true, Why: "cbor v2.5.0: reads v, returns fresh bytes; calls v's MarshalCBOR"},
	"invoke " + pCBOR + ".DecMode.Unmarshal":      {Writes: []int{2}, Why: "cbor v2.5.0 decode.go: reads data, writes *v; byte strings and RawMessage are copied"},
	"invoke " + pCBOR + ".DecMode.UnmarshalFirst": {Writes: []int{2}, Why: "cbor v2.5.0 decode.go: as Unmarshal; rest is a sub-slice of data"},

	// --- veraison/go-cose v1.3.0-rc.1 ---
	pCOSE + ".NewSign1Message":                     {Pure: true, NonNil: []bool{true}, Custom: modelFresh("Sign1Message"), Why: "go-cose sign1.go: fresh message, nil payload, nil signature, empty header maps"},
	pCOSE + ".NewVerifier":                         {Pure: true, Why: "go-cose verifier.go"},
	"(*" + pCOSE + ".Sign1Message).UnmarshalCBOR":  {Writes: []int{0}, Why: "go-cose sign1.go: replaces *m only on success"},
	"(*" + pCOSE + ".Sign1Message).MarshalCBOR":    {Pure: true, Why: "go-cose sign1.go: reads m"},
	"(*" + pCOSE + ".Sign1Message).Sign":           {Writes: []int{0}, Why: "go-cose sign1.go: sets m.Signature after the signer succeeded"},
	"(*" + pCOSE + ".Sign1Message).Verify":         {Pure: true, Why: "go-cose sign1.go: does not write *m"},
	"(" + pCOSE + ".ProtectedHeader).Algorithm":    {Pure: true, Why: "go-cose headers.go: reads the map"},
	"(" + pCOSE + ".ProtectedHeader).SetAlgorithm": {Writes: []int{0}, Why: "go-cose headers.go: writes the alg label into the (shared) header map"},
	"(" + pCOSE + ".Algorithm).String":             {Pure: true, Why: "go-cose algorithm.go"},
	"invoke " + pCOSE + ".Signer.Algorithm":        {Pure: true, Why: "go-cose signer.go: accessor of a caller-supplied signer"},

	// --- veraison/eat ---
	"(*" + pEAT + ".Nonce).Add":   {Writes: []int{0}, Custom: modelNonceAdd, Why: "eat nonce.go:19,124: appends v when 8 <= len(v) <= 64, else error; on an empty Nonce the result has Len()=1 and GetI(0)=v"},
	"(" + pEAT + ".Nonce).Len":    {Pure: true, Custom: modelNonceLen, Why: "eat nonce.go"},
	"(" + pEAT + ".Nonce).GetI":   {Pure: true, Custom: modelNonceGetI, Why: "eat nonce.go"},
	"(*" + pEAT + ".Profile).Set": {Writes: []int{0}, Custom: modelProfileSet, Why: "eat profile.go: on success the Profile holds the given URI/OID string"},
	"(" + pEAT + ".Profile).Get":  {Pure: true, Custom: modelProfileGet, Why: "eat profile.go: returns the string set"},
}

func modelErrorsNew(e *Engine, st *State, x *ssa.Call, args []AV) AV {
	msg := "?"
	if len(args) > 0 {
		msg = args[0].name()
	}
	return AV{Kind: KSym, Sym: fmt.Sprintf("errors.New(%s)#%s", msg, e.w.InstrPos(x)), NonNil: true, Cls: []string{"fresh"}, Src: x}
}

// modelErrorf resolves the sentinel classes wrapped through %w verbs.
func modelErrorf(e *Engine, st *State, x *ssa.Call, args []AV) AV {
	res := AV{Kind: KSym, Sym: fmt.Sprintf("Errorf#%s", e.w.InstrPos(x)), NonNil: true, Src: x}
	if len(args) == 0 || args[0].Kind != KStr {
		res.Cls = []string{"?"}
		return res
	}
	res.Sym = fmt.Sprintf("Errorf(%q)#%s", args[0].S, e.w.InstrPos(x))
	wIdx := wrapVerbOperands(args[0].S)
	if len(wIdx) == 0 {
		res.Cls = []string{"fresh"}
		return res
	}
	var ops []AV
	if len(args) > 1 {
		switch v := args[1]; v.Kind {
		case KSliceOf:
			for i := 0; i < v.N; i++ {
				ops = append(ops, e.load(st, locJoin(ensureSel(v.Loc), fmt.Sprintf("[%d]", i)), anyType))
			}
		case KSeq:
			ops = v.Elems
		}
	}
	cls := map[string]bool{}
	for _, i := range wIdx {
		if i >= len(ops) {
			cls["?"] = true
			continue
		}
		o := ops[i]
		if o.Kind == KIface && o.Inner != nil && len(o.Cls) == 0 {
			o = *o.Inner
		}
		if len(o.Cls) == 0 {
			cls["?"] = true
		}
		for _, c := range o.Cls {
			cls[c] = true
		}
	}
	res.Cls = sortedKeys(cls)
	return res
}

// wrapVerbOperands parses a fmt format string and returns the operand
// indexes consumed by %w verbs (flags, width, precision, [n] and * handled).
func wrapVerbOperands(f string) []int {
	var out []int
	arg := 0
	for i := 0; i < len(f); i++ {
		if f[i] != '%' {
			continue
		}
		i++
		if i >= len(f) {
			break
		}
		if f[i] == '%' {
			continue
		}
		// flags
		for i < len(f) && strings.IndexByte("+-# 0", f[i]) >= 0 {
			i++
		}
		parseIdx := func() {
			if i < len(f) && f[i] == '[' {
				j := strings.IndexByte(f[i:], ']')
				if j > 0 {
					n := 0
					fmt.Sscanf(f[i+1:i+j], "%d", &n)
					if n > 0 {
						arg = n - 1
					}
					i += j + 1
				}
			}
		}
		parseIdx()
		// width
		if i < len(f) && f[i] == '*' {
			arg++
			i++
		} else {
			for i < len(f) && f[i] >= '0' && f[i] <= '9' {
				i++
			}
		}
		// precision
		if i < len(f) && f[i] == '.' {
			i++
			parseIdx()
			if i < len(f) && f[i] == '*' {
				arg++
				i++
			} else {
				for i < len(f) && f[i] >= '0' && f[i] <= '9' {
					i++
				}
			}
		}
		parseIdx()
		if i >= len(f) {
			break
		}
		if f[i] == 'w' {
			out = append(out, arg)
		}
		arg++
	}
	return out
}

func modelSplit(e *Engine, st *State, x *ssa.Call, args []AV) AV {
	var names []string
	for _, a := range args {
		names = append(names, a.name())
	}
	a := AV{Kind: KSym, Sym: "strings.Split(" + strings.Join(names, ",") + ")", NonNil: true, Src: x}
	if len(args) == 2 && args[1].Kind == KStr && args[1].S != "" {
		lt := "len(" + a.Sym + ")"
		if _, ok := st.terms[lt]; !ok {
			st.terms[lt] = iset{{1, maxI}}
		}
	}
	return a
}

func modelBEUint(bits int) func(e *Engine, st *State, x *ssa.Call, args []AV) AV {
	return func(e *Engine, st *State, x *ssa.Call, args []AV) AV {
		src := "?"
		if len(args) > 1 {
			src = args[1].name()
		}
		name := fmt.Sprintf("be%d(%s)", bits, src)
		hi := int64(1)<<uint(bits) - 1
		if bits >= 63 {
			hi = maxI
		}
		if _, ok := st.terms[name]; !ok {
			st.terms[name] = iset{{0, hi}}
		}
		return AV{Kind: KLin, Term: name, Src: x}
	}
}

func modelBEAppend(bits int) func(e *Engine, st *State, x *ssa.Call, args []AV) AV {
	return func(e *Engine, st *State, x *ssa.Call, args []AV) AV {
		if len(args) < 3 {
			return AV{Kind: KSym, Sym: "beappend(?)"}
		}
		base, v := args[1], args[2]
		el := AV{Kind: KSym, Sym: fmt.Sprintf("be%d(%s)", bits, v.name()), Inner: &v}
		switch base.Kind {
		case KNil, KZero:
			return AV{Kind: KSeq, Elems: []AV{el}, Src: x}
		case KSeq:
			return AV{Kind: KSeq, Elems: append(append([]AV(nil), base.Elems...), el), Src: x}
		}
		return AV{Kind: KSym, Sym: fmt.Sprintf("append(%s,[%s])", base.name(), el.name()), NonNil: true, Src: x}
	}
}

func modelFresh(what string) func(e *Engine, st *State, x *ssa.Call, args []AV) AV {
	return func(e *Engine, st *State, x *ssa.Call, args []AV) AV {
		return AV{Kind: KSym, Sym: fmt.Sprintf("fresh:%s#%s.%s", what, x.Parent().Name(), x.Name()), NonNil: true, Src: x}
	}
}

func sortedKeys(m map[string]bool) []string {
	var out []string
	for k := range m {
		out = append(out, k)
	}
	sortStrings(out)
	return out
}

// modelNonceAdd: Add on a fresh (zero) Nonce succeeds iff 8 <= len(v) <= 64;
// afterwards the Nonce holds exactly v.
func modelNonceAdd(e *Engine, st *State, x *ssa.Call, args []AV) AV {
	if len(args) == 2 && args[0].Kind == KAddr {
		cur, ok := st.mem[args[0].Loc]
		lt := e.lenTerm(st, args[1])
		empty := ok && (cur.Kind == KZero || cur.Kind == KNil || (cur.Kind == KSliceOf && cur.N == 0) || (cur.Kind == KSeq && len(cur.Elems) == 0))
		if empty {
			if set, ok2 := e.linRange(st, lt); ok2 && set.subsetOf(iset{{8, 64}}) {
				v := args[1]
				e.kill(st, args[0].Loc)
				st.mem[args[0].Loc] = AV{Kind: KSym, Sym: "nonce1(" + v.name() + ")", Inner: &v}
				return avNil()
			}
		}
	}
	if len(args) > 0 {
		e.havocPointee(st, args[0], "Nonce.Add")
	}
	return e.resultAV(st, x, fmt.Sprintf("(*eat.Nonce).Add#%s.%s@%d", x.Parent().Name(), x.Name(), st.epoch), nil)
}

func modelNonceLen(e *Engine, st *State, x *ssa.Call, args []AV) AV {
	if len(args) == 1 && args[0].Kind == KSym && strings.HasPrefix(args[0].Sym, "nonce1(") {
		return avInt(1)
	}
	var names []string
	for _, a := range args {
		names = append(names, a.name())
	}
	return e.resultAV(st, x, "(eat.Nonce).Len("+strings.Join(names, ",")+")", nil)
}

func modelNonceGetI(e *Engine, st *State, x *ssa.Call, args []AV) AV {
	if len(args) == 2 && args[0].Kind == KSym && strings.HasPrefix(args[0].Sym, "nonce1(") && args[0].Inner != nil && args[1].Kind == KInt && args[1].K == 0 {
		return *args[0].Inner
	}
	var names []string
	for _, a := range args {
		names = append(names, a.name())
	}
	return e.resultAV(st, x, "(eat.Nonce).GetI("+strings.Join(names, ",")+")", nil)
}

// modelProfileSet: after a successful Set(s) the Profile holds s (Get returns
// it); whether Set succeeds is not modelled (symbolic error).
func modelProfileSet(e *Engine, st *State, x *ssa.Call, args []AV) AV {
	if len(args) == 2 && args[0].Kind == KAddr {
		v := args[1]
		e.kill(st, args[0].Loc)
		st.mem[args[0].Loc] = AV{Kind: KSym, Sym: "profile(" + v.name() + ")", Inner: &v}
	} else if len(args) > 0 {
		e.havocPointee(st, args[0], "Profile.Set")
	}
	return e.resultAV(st, x, fmt.Sprintf("(*eat.Profile).Set#%s.%s@%d", x.Parent().Name(), x.Name(), st.epoch), nil)
}

func modelProfileGet(e *Engine, st *State, x *ssa.Call, args []AV) AV {
	if len(args) == 1 && args[0].Kind == KSym && strings.HasPrefix(args[0].Sym, "profile(") && args[0].Inner != nil {
		return AV{Kind: KTuple, Elems: []AV{*args[0].Inner, avNil()}}
	}
	var names []string
	for _, a := range args {
		names = append(names, a.name())
	}
	return e.resultAV(st, x, "(eat.Profile).Get("+strings.Join(names, ",")+")", nil)
}

// modelValueOf keeps the wrapped value so that IsNil can be related to it.
func modelValueOf(e *Engine, st *State, x *ssa.Call, args []AV) AV {
	if len(args) != 1 {
		return e.resultAV(st, x, "reflect.ValueOf(?)", nil)
	}
	v := args[0]
	return AV{Kind: KSym, Sym: "reflect.ValueOf(" + v.name() + ")", Inner: &v, Src: x}
}

// modelIsNil: reflect.ValueOf(i).IsNil() for an interface i holding pointer p
// is the atom nil(p).
func modelIsNil(e *Engine, st *State, x *ssa.Call, args []AV) AV {
	if len(args) == 1 && args[0].Inner != nil {
		in := *args[0].Inner
		if in.Kind == KIface && in.Inner != nil {
			in = *in.Inner
		}
		switch st.NilOf(in) {
		case 1:
			return avBool(false)
		case -1:
			return avBool(true)
		}
		if in.Kind == KSym || in.Kind == KUnknown {
			return AV{Kind: KAtom, Sym: "nil(" + in.name() + ")"}
		}
	}
	var names []string
	for _, a := range args {
		names = append(names, a.name())
	}
	return AV{Kind: KAtom, Sym: "(reflect.Value).IsNil(" + strings.Join(names, ",") + ")"}
}

func modelTypeOf(e *Engine, st *State, x *ssa.Call, args []AV) AV {
	name := "?"
	if len(args) == 1 {
		name = args[0].name()
	}
	a := AV{Kind: KSym, Sym: "reflect.TypeOf(" + name + ")", Src: x}
	if len(args) == 1 && st.NilOf(args[0]) == 1 {
		a.NonNil = true
	}
	return a
}

// modelValueKind: for reflect.ValueOf(i) where the dynamic type of i is known
// statically, Kind() is that type's kind.
func modelValueKind(e *Engine, st *State, x *ssa.Call, args []AV) AV {
	if len(args) == 1 && args[0].Inner != nil && args[0].Inner.Kind == KIface && args[0].Inner.Dyn != nil {
		name := ""
		switch args[0].Inner.Dyn.Underlying().(type) {
		case *types.Pointer:
			name = "Pointer"
		case *types.Struct:
			name = "Struct"
		case *types.Slice:
			name = "Slice"
		case *types.Map:
			name = "Map"
		}
		if name != "" {
			if f := x.Call.StaticCallee(); f != nil && f.Pkg != nil {
				if c, ok := f.Pkg.Pkg.Scope().Lookup(name).(*types.Const); ok {
					if k, ok := constant.Int64Val(c.Val()); ok {
						return avInt(k)
					}
				}
			}
		}
	}
	var names []string
	for _, a := range args {
		names = append(names, a.name())
	}
	return e.resultAV(st, x, "(reflect.Value).Kind("+strings.Join(names, ",")+")", nil)
}

// modelSlicesIndex: r = slices.Index(s, v) with -1 <= r < len(s).
func modelSlicesIndex(e *Engine, st *State, x *ssa.Call, args []AV) AV {
	var names []string
	for _, a := range args {
		names = append(names, a.name())
	}
	name := fmt.Sprintf("slices.Index(%s)#%s.%s@%s", strings.Join(names, ","), x.Parent().Name(), x.Name(), st.inst())
	st.terms[name] = iset{{-1, maxI}}
	res := AV{Kind: KLin, Term: name, Src: x}
	if len(args) > 0 {
		if l := e.lenTerm(st, args[0]); l.Kind == KLin && l.K == 0 {
			st.atoms["lt("+name+","+l.Term+")"] = true
		}
	}
	return res
}

// lookupModel finds the model of a callee by name; an instance of a generic
// function ("slices.Index[[]string string]") uses the generic's entry.
func lookupModel(name string) (Model, bool) {
	if m, ok := models[name]; ok {
		return m, true
	}
	if i := strings.IndexByte(name, '['); i > 0 && strings.HasSuffix(name, "]") && !strings.HasPrefix(name, "(") {
		m, ok := models[name[:i]]
		return m, ok
	}
	return Model{}, false
}

// isLockOp: Lock / Unlock / RLock / RUnlock of a sync.Mutex or sync.RWMutex.
func isLockOp(name string) bool {
	switch name {
	case "(*sync.Mutex).Lock", "(*sync.Mutex).Unlock", "(*sync.RWMutex).Lock", "(*sync.RWMutex).Unlock",
		"(*sync.RWMutex).RLock", "(*sync.RWMutex).RUnlock":
		return true
	}
	return false
}
