package main

// E4 — error classes. For a value of type error, the resolver computes the
// list of *alternatives* it may be: each alternative is the set of sentinel
// errors reachable through %w chains (what errors.Is can match), plus markers
// for errors that carry no sentinel ("fresh"), come from a library call
// ("external:<callee>") or could not be resolved ("?"). The analysis is
// flow-insensitive over SSA def-use chains (φ = union, loads of local
// variables = union of the stores), interprocedural through return summaries
// of in-repo functions (interface invokes: union over in-repo
// implementations), with parameters kept symbolic and substituted at call
// sites.

import (
	"fmt"
	"go/constant"
	"go/token"
	"sort"
	"strings"

	"golang.org/x/tools/go/ssa"
)

type ErrAlt struct {
	Cls    []string // sorted sentinel names and markers
	Origin ssa.Instruction
	Nil    bool // the nil error
}

func (a ErrAlt) key() string {
	if a.Nil {
		return "nil"
	}
	p := "-"
	if a.Origin != nil {
		p = fmt.Sprintf("%p", a.Origin)
	}
	return strings.Join(a.Cls, ",") + "@" + p
}

func (a ErrAlt) has(c string) bool {
	for _, x := range a.Cls {
		if x == c {
			return true
		}
	}
	return false
}

func (a ErrAlt) markers() []string {
	var m []string
	for _, x := range a.Cls {
		if x == "fresh" || x == "?" || strings.HasPrefix(x, "external:") || strings.HasPrefix(x, "param:") {
			m = append(m, x)
		}
	}
	return m
}

type errResolver struct {
	w      *World
	ret    map[string][]ErrAlt // fn+idx -> alternatives
	active map[string]bool
}

func (w *World) ErrResolver() *errResolver {
	return &errResolver{w: w, ret: map[string][]ErrAlt{}, active: map[string]bool{}}
}

func dedupAlts(in []ErrAlt) []ErrAlt {
	seen := map[string]bool{}
	var out []ErrAlt
	for _, a := range in {
		k := a.key()
		if !seen[k] {
			seen[k] = true
			out = append(out, a)
		}
	}
	return out
}

// RetAlts: alternatives of result idx of fn (parameters symbolic).
func (r *errResolver) RetAlts(fn *ssa.Function, idx int) []ErrAlt {
	key := fmt.Sprintf("%p#%d", fn, idx)
	if v, ok := r.ret[key]; ok {
		return v
	}
	if r.active[key] {
		return nil // recursion: least fixpoint
	}
	if fn.Blocks == nil {
		return []ErrAlt{{Cls: []string{"external:" + fn.String()}}}
	}
	r.active[key] = true
	var out []ErrAlt
	for _, b := range fn.Blocks {
		for _, in := range b.Instrs {
			if ret, ok := in.(*ssa.Return); ok && idx < len(ret.Results) {
				out = append(out, r.valueAlts(ret.Results[idx], map[ssa.Value]bool{})...)
			}
		}
	}
	delete(r.active, key)
	out = dedupAlts(out)
	r.ret[key] = out
	return out
}

func (r *errResolver) valueAlts(v ssa.Value, seen map[ssa.Value]bool) []ErrAlt {
	if seen[v] {
		return nil
	}
	seen[v] = true
	defer delete(seen, v)
	switch x := v.(type) {
	case *ssa.Const:
		if x.Value == nil {
			return []ErrAlt{{Nil: true}}
		}
		return []ErrAlt{{Cls: []string{"?"}}}
	case *ssa.MakeInterface:
		return r.valueAlts(x.X, seen)
	case *ssa.ChangeInterface:
		return r.valueAlts(x.X, seen)
	case *ssa.ChangeType:
		return r.valueAlts(x.X, seen)
	case *ssa.Phi:
		var out []ErrAlt
		for _, e := range x.Edges {
			out = append(out, r.valueAlts(e, seen)...)
		}
		return dedupAlts(out)
	case *ssa.Parameter:
		for i, p := range x.Parent().Params {
			if p == x {
				return []ErrAlt{{Cls: []string{fmt.Sprintf("param:%d", i)}}}
			}
		}
	case *ssa.UnOp:
		if x.Op.String() != "*" {
			break
		}
		if g, ok := x.X.(*ssa.Global); ok {
			gi := r.w.GlobalInfo(g)
			if gi != nil && gi.InitOnly && len(gi.Cls) > 0 {
				return []ErrAlt{{Cls: append([]string(nil), gi.Cls...), Origin: x}}
			}
			return []ErrAlt{{Cls: []string{"?"}, Origin: x}}
		}
		if al, ok := x.X.(*ssa.Alloc); ok {
			// local variable: union of everything stored into it
			var out []ErrAlt
			escaped := false
			for _, ref := range *al.Referrers() {
				switch y := ref.(type) {
				case *ssa.Store:
					if y.Addr == al {
						out = append(out, r.valueAlts(y.Val, seen)...)
					} else {
						escaped = true
					}
				case *ssa.UnOp, *ssa.DebugRef:
				default:
					escaped = true
				}
			}
			if escaped {
				out = append(out, ErrAlt{Cls: []string{"?"}, Origin: x})
			}
			if len(out) == 0 {
				out = append(out, ErrAlt{Nil: true})
			}
			return dedupAlts(out)
		}
	case *ssa.Extract:
		if c, ok := x.Tuple.(*ssa.Call); ok {
			return r.callAlts(c, x.Index, seen)
		}
	case *ssa.Call:
		return r.callAlts(x, 0, seen)
	}
	var origin ssa.Instruction
	if in, ok := v.(ssa.Instruction); ok {
		origin = in
	}
	return []ErrAlt{{Cls: []string{"?"}, Origin: origin}}
}

func (r *errResolver) callAlts(c *ssa.Call, idx int, seen map[ssa.Value]bool) []ErrAlt {
	name := calleeName(&c.Call)
	switch name {
	case "errors.New":
		return []ErrAlt{{Cls: []string{"fresh"}, Origin: c}}
	case "fmt.Errorf":
		format := ""
		if k, ok := c.Call.Args[0].(*ssa.Const); ok && k.Value != nil {
			format = constStringVal(k)
		} else if f, ok := r.prefixedFormat(c.Call.Args[0]); ok {
			// "<constant prefix>" + format, with format a parameter to which every
			// caller passes a constant without a wrapping verb (an Errorf helper)
			format = f
		} else {
			return []ErrAlt{{Cls: []string{"?"}, Origin: c}}
		}
		wIdx := wrapVerbOperands(format)
		if len(wIdx) == 0 {
			return []ErrAlt{{Cls: []string{"fresh"}, Origin: c}}
		}
		ops := varargsOperands(c)
		// cross product over the wrapped operands' alternatives
		acc := []ErrAlt{{Origin: c}}
		for _, i := range wIdx {
			var alts []ErrAlt
			if i >= len(ops) || ops[i] == nil {
				alts = []ErrAlt{{Cls: []string{"?"}}}
			} else {
				alts = r.valueAlts(ops[i], seen)
				if knownNonNilAt(ops[i], c.Block()) {
					// the wrapped operand was tested non-nil on every path here
					var nn []ErrAlt
					for _, a := range alts {
						if !a.Nil {
							nn = append(nn, a)
						}
					}
					alts = nn
				}
			}
			var next []ErrAlt
			for _, a := range acc {
				for _, b := range alts {
					n := ErrAlt{Origin: c}
					set := map[string]bool{}
					for _, x := range a.Cls {
						set[x] = true
					}
					for _, x := range b.Cls {
						set[x] = true
					}
					if b.Nil {
						// wrapping a nil error: %w of nil yields no sentinel
						set["fresh"] = true
					}
					n.Cls = sortedKeys(set)
					if b.Origin != nil && len(b.markers()) > 0 {
						n.Origin = b.Origin
					}
					next = append(next, n)
				}
			}
			acc = next
		}
		return dedupAlts(acc)
	}
	// a call through a function-typed parameter of the enclosing function is
	// kept symbolic and resolved at each call site of that function, where the
	// argument is usually a named function (generic "get and validate" helpers)
	if !c.Call.IsInvoke() && c.Call.StaticCallee() == nil {
		if p, ok := c.Call.Value.(*ssa.Parameter); ok {
			for i, q := range p.Parent().Params {
				if q == p {
					return []ErrAlt{{Cls: []string{fmt.Sprintf("callparam:%d:%d", i, idx)}, Origin: c}}
				}
			}
		}
	}
	var callees []*ssa.Function
	if f := c.Call.StaticCallee(); f != nil {
		callees = []*ssa.Function{f}
	} else {
		callees = r.w.Callees(c)
	}
	if len(callees) == 0 {
		return []ErrAlt{{Cls: []string{"external:" + name}, Origin: c}}
	}
	full := c.Call.Args
	if c.Call.IsInvoke() {
		full = append([]ssa.Value{c.Call.Value}, c.Call.Args...)
	}
	var out []ErrAlt
	for _, f := range callees {
		if !r.w.InRepo(f) || f.Blocks == nil {
			out = append(out, ErrAlt{Cls: []string{"external:" + f.String()}, Origin: c})
			continue
		}
		for _, a := range r.RetAlts(f, idx) {
			if a.Nil {
				out = append(out, a)
				continue
			}
			// substitute symbolic parameters
			alts := []ErrAlt{{Origin: a.Origin}}
			for _, cl := range a.Cls {
				if strings.HasPrefix(cl, "param:") || strings.HasPrefix(cl, "callparam:") {
					var pi int
					var sub []ErrAlt
					if strings.HasPrefix(cl, "callparam:") {
						var ri int
						fmt.Sscanf(cl, "callparam:%d:%d", &pi, &ri)
						sub = []ErrAlt{{Cls: []string{"?"}, Origin: c}}
						if pi < len(full) {
							sub = r.funcValueAlts(full[pi], ri, c)
						}
					} else {
						fmt.Sscanf(cl, "param:%d", &pi)
						if pi < len(full) {
							sub = r.valueAlts(full[pi], seen)
						} else {
							sub = []ErrAlt{{Cls: []string{"?"}, Origin: c}}
						}
					}
					var next []ErrAlt
					for _, x := range alts {
						for _, y := range sub {
							if y.Nil {
								if len(a.Cls) == 1 {
									next = append(next, ErrAlt{Nil: true})
								}
								continue
							}
							n := ErrAlt{Cls: mergeSorted(x.Cls, y.Cls), Origin: x.Origin}
							if n.Origin == nil || len(y.markers()) > 0 {
								if y.Origin != nil {
									n.Origin = y.Origin
								}
							}
							next = append(next, n)
						}
					}
					alts = next
				} else {
					for i := range alts {
						if !alts[i].Nil {
							alts[i].Cls = mergeSorted(alts[i].Cls, []string{cl})
						}
					}
				}
			}
			out = append(out, alts...)
		}
	}
	return dedupAlts(out)
}

// prefixedFormat: v is `"const" + p` where p is a string parameter of an
// unexported function whose address is never taken and to which every static
// caller passes a constant string containing no %w. Returns the constant
// prefix (the only part that can wrap).
func (r *errResolver) prefixedFormat(v ssa.Value) (string, bool) {
	bo, ok := v.(*ssa.BinOp)
	if !ok || bo.Op != token.ADD {
		return "", false
	}
	k, ok := bo.X.(*ssa.Const)
	if !ok || k.Value == nil || k.Value.Kind() != constant.String {
		return "", false
	}
	prm, ok := bo.Y.(*ssa.Parameter)
	if !ok {
		return "", false
	}
	fn := prm.Parent()
	if fn.Object() == nil || fn.Object().Exported() || r.w.addressTaken()[fn] {
		return "", false
	}
	idx := paramIndex(fn, prm)
	node := r.w.CallGraph().Nodes[fn]
	if idx < 0 || node == nil || len(node.In) == 0 {
		return "", false
	}
	for _, in := range node.In {
		if in.Site == nil {
			return "", false
		}
		cc := in.Site.Common()
		if cc.StaticCallee() != fn {
			continue
		}
		if idx >= len(cc.Args) {
			return "", false
		}
		a, ok := cc.Args[idx].(*ssa.Const)
		if !ok || a.Value == nil || a.Value.Kind() != constant.String || len(wrapVerbOperands(constStringVal(a))) > 0 {
			return "", false
		}
	}
	return constStringVal(k), true
}

// funcValueAlts: the alternatives of result ri of the function value v handed
// to a callee that calls it: a named function or a closure gives that
// function's own alternatives (with its parameters unknown); a parameter of the
// caller stays symbolic one level up; anything else is unresolved.
func (r *errResolver) funcValueAlts(v ssa.Value, ri int, at *ssa.Call) []ErrAlt {
	switch x := v.(type) {
	case *ssa.Function:
		if !r.w.InRepo(x) || x.Blocks == nil {
			return []ErrAlt{{Cls: []string{"external:" + x.String()}, Origin: at}}
		}
		var out []ErrAlt
		for _, a := range r.RetAlts(x, ri) {
			if a.Nil {
				out = append(out, a)
				continue
			}
			n := ErrAlt{Origin: a.Origin}
			for _, cl := range a.Cls {
				if strings.HasPrefix(cl, "param:") || strings.HasPrefix(cl, "callparam:") {
					cl = "?"
				}
				n.Cls = mergeSorted(n.Cls, []string{cl})
			}
			out = append(out, n)
		}
		return dedupAlts(out)
	case *ssa.Const:
		if x.IsNil() {
			// a nil function value is never called without a panic: it contributes
			// no error alternative (C05 judges the call site)
			return nil
		}
	case *ssa.MakeClosure:
		return r.funcValueAlts(x.Fn, ri, at)
	case *ssa.ChangeType:
		return r.funcValueAlts(x.X, ri, at)
	case *ssa.Parameter:
		for i, q := range x.Parent().Params {
			if q == x {
				return []ErrAlt{{Cls: []string{fmt.Sprintf("callparam:%d:%d", i, ri)}, Origin: at}}
			}
		}
	}
	return []ErrAlt{{Cls: []string{"?"}, Origin: at}}
}

func mergeSorted(a, b []string) []string {
	set := map[string]bool{}
	for _, x := range a {
		set[x] = true
	}
	for _, x := range b {
		set[x] = true
	}
	out := make([]string, 0, len(set))
	for k := range set {
		out = append(out, k)
	}
	sort.Strings(out)
	return out
}

func constStringVal(k *ssa.Const) string {
	if k.Value == nil || k.Value.Kind() != constant.String {
		return ""
	}
	return constant.StringVal(k.Value)
}
