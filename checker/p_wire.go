package main

// C04, C09, C10, C12 — the statically decidable part of the wire-format
// properties: struct-tag tables, option literals of the shared codec modes,
// and the shape of the custom (un)marshal methods.

import (
	"fmt"
	"go/constant"
	"go/token"
	"go/types"
	"sort"
	"strings"

	"golang.org/x/tools/go/ssa"
)

func init() {
	register("C04", checkC04)
	register("C09", checkC09)
	register("C10", checkC10)
	register("C12", checkC12)
}

type wireStruct struct {
	Name   string
	Named  *types.Named
	Schema []FieldSchema
	Rows   []claimRow
}

func wireStructs(w *World, r *Recorder, rule string) []wireStruct {
	var out []wireStruct
	for _, name := range []string{"P1Claims", "P2Claims", "SwComponent"} {
		n := w.NamedType(w.Root, name)
		if n == nil {
			r.Undecide(rule, "type "+name, "-", "exported wire struct not found")
			continue
		}
		st, ok := n.Underlying().(*types.Struct)
		if !ok {
			r.Undecide(rule, "type "+name, "-", "not a struct")
			continue
		}
		out = append(out, wireStruct{name, n, structSchema(st), builtinSpecs[name]})
	}
	return out
}

func (ws wireStruct) field(name string) *FieldSchema {
	for i := range ws.Schema {
		if ws.Schema[i].Name == name {
			return &ws.Schema[i]
		}
	}
	return nil
}

func (w *World) typePos(n *types.Named) string { return w.Pos(n.Obj().Pos()) }

// ruleKeys: every table row has a field with exactly that integer key,
// keyasint, no toarray, the specified wire kind; no other field carries a
// cbor key; keys are pairwise distinct.
func ruleKeys(w *World, r *Recorder, rule string, checkKind bool) {
	for _, ws := range wireStructs(w, r, rule) {
		seen := map[string]string{}
		rowFields := map[string]bool{}
		for _, row := range ws.Rows {
			rowFields[row.Field] = true
			f := ws.field(row.Field)
			key := ws.Name + "." + row.Field
			if f == nil {
				r.Refute(rule, key, w.typePos(ws.Named), "claim field missing from the struct")
				continue
			}
			k, okK := keyInt(f.CBORKey)
			switch {
			case !f.HasCBOR || !okK || k != row.CBOR:
				r.Refute(rule, key, w.typePos(ws.Named), fmt.Sprintf("cbor key is %q, the profile's wire key is %d", f.CBORKey, row.CBOR))
			case !f.KeyAsInt:
				r.Refute(rule, key, w.typePos(ws.Named), "cbor tag lacks keyasint: the key would be emitted as a text string")
			case f.ToArray:
				r.Refute(rule, key, w.typePos(ws.Named), "toarray changes the map into an array")
			case checkKind && f.Kind != row.Kind:
				r.Refute(rule, key, w.typePos(ws.Named), fmt.Sprintf("Go type %s has wire kind %q, the profile requires %q", f.Type, f.Kind, row.Kind))
			default:
				r.Prove(rule, key, w.typePos(ws.Named), fmt.Sprintf("key %d keyasint kind %s", row.CBOR, f.Kind), true)
			}
			if o, dup := seen[f.CBORKey]; dup && f.HasCBOR {
				r.Refute(rule, ws.Name+"#duplicate-key-"+f.CBORKey, w.typePos(ws.Named), "fields "+o+" and "+f.Name+" share cbor key "+f.CBORKey)
			}
			seen[f.CBORKey] = f.Name
		}
		for _, f := range ws.Schema {
			if rowFields[f.Name] {
				continue
			}
			key := ws.Name + "." + f.Name
			switch {
			case f.HasCBOR && f.CBORKey == "-":
				r.Prove(rule, key, w.typePos(ws.Named), "not on the wire (cbor:\"-\")", false)
			case f.HasCBOR:
				r.Refute(rule, key, w.typePos(ws.Named), "field outside the profile's key set is emitted under cbor key "+f.CBORKey)
			case f.Exported:
				r.Refute(rule, key, w.typePos(ws.Named), "exported field without cbor tag would be emitted under its name")
			}
			if f.Name == "_" && f.ToArray {
				r.Refute(rule, key, w.typePos(ws.Named), "toarray marker changes the map into an array")
			}
		}
	}
}

// ruleOmit: optional claims are omitted when absent (omitempty).
func ruleOmit(w *World, r *Recorder, rule string) {
	for _, ws := range wireStructs(w, r, rule) {
		for _, row := range ws.Rows {
			f := ws.field(row.Field)
			if f == nil {
				continue
			}
			key := ws.Name + "." + row.Field
			if row.Omit {
				r.Check(f.CBOROmit, rule, key, w.typePos(ws.Named), "optional claim has omitempty", "optional claim "+row.Claim+" lacks cbor omitempty: an absent claim would be emitted as null")
			} else {
				r.Prove(rule, key, w.typePos(ws.Named), "mandatory claim", false)
			}
		}
	}
}

// ruleNilable: every omitempty field is pointer- or interface-kinded, and no
// wire field is a map.
func ruleNilable(w *World, r *Recorder, rule string) {
	for _, ws := range wireStructs(w, r, rule) {
		for _, f := range ws.Schema {
			key := ws.Name + "." + f.Name
			if strings.HasPrefix(f.Kind, "map") {
				r.Refute(rule, key, w.typePos(ws.Named), "map-typed wire field: encoding order would depend on map iteration")
				continue
			}
			if (f.CBOROmit || f.JSONOmit) && !nilableKind(f.Type) {
				r.Refute(rule, key, w.typePos(ws.Named), fmt.Sprintf("omitempty on value-typed field %s: a present zero value would vanish on encoding", f.Type))
				continue
			}
			if f.HasCBOR && f.CBORKey != "-" {
				r.Prove(rule, key, w.typePos(ws.Named), "nil-able kind "+f.Kind, true)
			}
		}
	}
}

// ruleJSONNames: documented member names.
func ruleJSONNames(w *World, r *Recorder, rule string) {
	for _, ws := range wireStructs(w, r, rule) {
		seen := map[string]string{}
		for _, row := range ws.Rows {
			f := ws.field(row.Field)
			if f == nil {
				continue
			}
			key := ws.Name + "." + row.Field
			r.Check(f.HasJSON && f.JSONName == row.JSON, rule, key, w.typePos(ws.Named), "json name "+row.JSON, fmt.Sprintf("json member name is %q, documented name is %q", f.JSONName, row.JSON))
			if o, dup := seen[f.JSONName]; dup {
				r.Refute(rule, ws.Name+"#duplicate-json-"+f.JSONName, w.typePos(ws.Named), "fields "+o+" and "+f.Name+" share a json name")
			}
			seen[f.JSONName] = f.Name
		}
	}
}

// ruleTagSymmetry: a field is on the CBOR wire iff it is in JSON, "-" on both
// or neither, omitempty on both or neither.
func ruleTagSymmetry(w *World, r *Recorder, rule string) {
	for _, ws := range wireStructs(w, r, rule) {
		for _, f := range ws.Schema {
			key := ws.Name + "." + f.Name
			cOn := f.HasCBOR && f.CBORKey != "-"
			jOn := (f.HasJSON && f.JSONName != "-") || (!f.HasJSON && f.Exported)
			switch {
			case cOn != jOn:
				r.Refute(rule, key, w.typePos(ws.Named), fmt.Sprintf("field is on the CBOR wire: %v, in JSON: %v — the two forms are not equivalent", cOn, jOn))
			case cOn && f.CBOROmit != f.JSONOmit:
				r.Refute(rule, key, w.typePos(ws.Named), fmt.Sprintf("omitempty differs between cbor (%v) and json (%v): an absent claim is omitted in one form and null in the other", f.CBOROmit, f.JSONOmit))
			case cOn:
				r.Prove(rule, key, w.typePos(ws.Named), "cbor/json tags correspond", true)
			default:
				r.Prove(rule, key, w.typePos(ws.Named), "excluded from both forms", false)
			}
		}
	}
}

// ruleOptions: the option literal handed to EncMode()/DecMode().
func ruleOptions(w *World, r *Recorder, rule, typeName string, accept ...string) {
	acceptance := ""
	if len(accept) > 0 {
		acceptance = accept[0]
	}
	lits := w.optionLiterals(typeName)
	if len(lits) == 0 {
		r.Undecide(rule, typeName, "-", "no "+typeName+" literal found in the repository")
		return
	}
	forbidden, ok := w.cborConst("IndefLengthForbidden")
	if !ok {
		r.Undecide(rule, typeName, "-", "cbor.IndefLengthForbidden not resolvable")
		return
	}
	// fields whose setting cannot weaken the properties, with a bound where one applies
	type bound struct {
		max int64 // 0: any constant allowed
		why string
	}
	var allowed map[string]bound
	if typeName == "DecOptions" {
		allowed = map[string]bound{
			"IndefLength":      {0, ""},
			"MaxNestedLevels":  {32, "library default 32"},
			"MaxArrayElements": {131072, "library default 131072"},
			"MaxMapPairs":      {131072, "library default 131072"},
		}
	} else {
		allowed = map[string]bound{"IndefLength": {0, ""}, "TimeTag": {0, ""}}
	}
	for _, ol := range lits {
		key := typeName + "@" + fnKey(ol.Fn)
		v, set := ol.Fields["IndefLength"]
		switch {
		case len(ol.Other) > 0:
			r.Undecide(rule, key, w.FnPos(ol.Fn), "option fields set to non-constant values: "+strings.Join(ol.Other, ","))
			continue
		case !set || !constEq(v, forbidden):
			r.Refute(rule, key+"#IndefLength", w.FnPos(ol.Fn), "IndefLength is not IndefLengthForbidden: indefinite-length items would be accepted/emitted")
			continue
		}
		okAll := true
		var names []string
		for f := range ol.Fields {
			names = append(names, f)
		}
		sort.Strings(names)
		for _, f := range names {
			b, known := allowed[f]
			val := ol.Fields[f]
			switch {
			case !known && isZeroConst(val):
				// a field spelled out with its zero value is the field left out
			case !known:
				r.Refute(rule, key+"#"+f, w.FnPos(ol.Fn), fmt.Sprintf("option %s=%s departs from the library default; its effect on the wire format / decoder limits is not covered by the rules", f, val))
				okAll = false
			case b.max > 0:
				if n, isInt := constant.Int64Val(val); !isInt || n > b.max {
					r.Refute(rule, key+"#"+f, w.FnPos(ol.Fn), fmt.Sprintf("decoder limit %s raised to %s (%s)", f, val, b.why))
					okAll = false
				}
			}
		}
		if okAll {
			r.Prove(rule, key, w.FnPos(ol.Fn), "IndefLength=forbidden; other options at library defaults ("+strings.Join(names, ",")+" set)", true)
		}
		if typeName == "DecOptions" && acceptance != "" {
			ruleDecoderAccepts(w, r, rule, key, ol, acceptance)
		}
	}
}

// isZeroConst: the constant is the zero value of its kind (0, false, "").
func isZeroConst(v constant.Value) bool {
	switch v.Kind() {
	case constant.Int, constant.Float:
		return constant.Sign(v) == 0
	case constant.Bool:
		return !constant.BoolVal(v)
	case constant.String:
		return constant.StringVal(v) == ""
	}
	return false
}

// ruleDecoderAccepts: the acceptance side of the decoder's limits. Validation
// and the encoder put no bound on the length of the component list, and C04
// ignores any number of unknown keys, so every limit the decoder applies to
// array and map lengths cuts valid / conformant inputs off; the construct names
// the effective limit so that only the pinned library defaults can be listed as
// a known finding. Nesting: the library refuses MaxNestedLevels < 4 and the
// deepest claims value is map > array > map.
func ruleDecoderAccepts(w *World, r *Recorder, rule, key string, ol OptionLiteral, mode string) {
	// the construct does not name the enclosing function: the finding is about
	// the effective limit, whichever function builds the mode
	key = "decoder"
	eff := func(f string, def int64) (int64, bool) {
		v, set := ol.Fields[f]
		if !set {
			return def, true
		}
		n, ok := constant.Int64Val(v)
		if ok && n == 0 {
			return def, true
		}
		return n, ok
	}
	if n, ok := eff("MaxArrayElements", 131072); ok {
		r.Refute(rule, fmt.Sprintf("%s#accepts:MaxArrayElements=%d", key, n), w.FnPos(ol.Fn), fmt.Sprintf("the decoder rejects arrays of more than %d elements while validation and the encoder put no bound on the software-component list: a valid claims-set with %d components encodes to bytes the decoder refuses", n, n+1))
	} else {
		r.Undecide(rule, key+"#accepts:MaxArrayElements", w.FnPos(ol.Fn), "limit is not an integer constant")
	}
	n, ok := eff("MaxMapPairs", 131072)
	switch {
	case !ok:
		r.Undecide(rule, key+"#accepts:MaxMapPairs", w.FnPos(ol.Fn), "limit is not an integer constant")
	case mode == "any-map":
		r.Refute(rule, fmt.Sprintf("%s#accepts:MaxMapPairs=%d", key, n), w.FnPos(ol.Fn), fmt.Sprintf("the decoder rejects maps of more than %d pairs while unknown extra keys are to be ignored: a conformant token padded with %d unknown keys is rejected", n, n))
	default:
		// own encodings only: the largest map the encoder emits
		most := 0
		for _, ws := range wireStructs(w, r, rule) {
			c := 0
			for _, f := range ws.Schema {
				if f.HasCBOR && f.CBORKey != "-" {
					c++
				}
			}
			if c > most {
				most = c
			}
		}
		r.Check(n >= int64(most) && most > 0, rule, key+"#accepts:MaxMapPairs", w.FnPos(ol.Fn), fmt.Sprintf("the largest map the encoder emits has %d pairs ≤ the decoder's limit %d", most, n), fmt.Sprintf("the decoder rejects maps of more than %d pairs but the encoder emits maps of up to %d", n, most))
	}
	if n, ok := eff("MaxNestedLevels", 32); ok && mode == "any-map" {
		// the limit is applied to the whole item before keys are matched, so it
		// also covers the values of unknown keys, which are to be ignored
		r.Refute(rule, fmt.Sprintf("%s#accepts:MaxNestedLevels=%d", key, n), w.FnPos(ol.Fn), fmt.Sprintf("the decoder rejects items nested deeper than %d levels, including the value of an unknown extra key, while unknown keys are to be ignored: a conformant token with an unknown key whose value nests %d arrays deep is rejected", n, n))
	} else if ok {
		r.Check(n >= 4, rule, key+"#accepts:MaxNestedLevels", w.FnPos(ol.Fn), fmt.Sprintf("nesting limit %d ≥ 4 > depth of a claims map (map > array > map)", n), fmt.Sprintf("nesting limit %d is below the depth of a claims map", n))
	} else {
		r.Undecide(rule, key+"#accepts:MaxNestedLevels", w.FnPos(ol.Fn), "limit is not an integer constant")
	}
}

// codecModes: package-level variables of type cbor.EncMode / cbor.DecMode are
// written only by the package initialiser, from EncMode()/DecMode() of the
// literals above, and the initialiser panics when construction failed.
func ruleModesInitOnly(w *World, r *Recorder, rule string) {
	n := 0
	for _, gi := range w.Globals() {
		t := gi.G.Type().(*types.Pointer).Elem().String()
		if t != pCBOR+".EncMode" && t != pCBOR+".DecMode" {
			continue
		}
		n++
		key := "mode " + globalName(gi.G)
		okInit := gi.InitOnly && len(gi.Writers) == 1
		r.Check(okInit, rule, key, w.Pos(gi.G.Pos()), "written only by the package initialiser", "shared codec mode is written outside its initialiser (or its address escapes)")
	}
	if n < 2 {
		r.Undecide(rule, "modes", "-", fmt.Sprintf("%d package-level codec modes found (2 confirmed by hand)", n))
	}
}

// ruleUnmarshalShape: every custom Unmarshal{CBOR,JSON} of a claims type (a)
// clears the profile field first, (b) hands the caller's unchanged buffer to
// the codec with the receiver converted to a method-less type with identical
// underlying struct, (c) fails iff the codec fails.
func ruleUnmarshalShape(w *World, r *Recorder, rule, method string, wantProfileReset bool) {
	ic := w.iface(w.Root, "IClaims")
	if ic == nil {
		r.Undecide(rule, "IClaims", "-", "not found")
		return
	}
	for _, t := range w.Implementations(ic) {
		fn := w.MethodImpl(t, method)
		key := t.Obj().Name() + "." + method
		if fn == nil {
			r.Note("%s has no custom %s", t.Obj().Name(), method)
			continue
		}
		s := w.Summarise(fn)
		if ok, why := s.Complete(); !ok {
			r.Undecide(rule, key, w.FnPos(fn), why)
			continue
		}
		recv, buf := fn.Params[0].Name(), fn.Params[1].Name()
		ok := true
		why := ""
		for _, p := range s.Paths {
			if p.Ret == nil {
				ok, why = false, "a path panics"
				continue
			}
			var dec *Event
			resetIdx, decIdx := -1, -1
			for i := range p.St.events {
				ev := p.St.events[i]
				if ev.Kind == "store" && ev.Loc == "P:"+recv+"|.Profile" && ev.Val.Kind == KNil && resetIdx < 0 {
					resetIdx = i
				}
				if ev.Kind == "store" && strings.HasPrefix(ev.Loc, "P:"+recv+"|") && !(ev.Loc == "P:"+recv+"|.Profile" && ev.Val.Kind == KNil) {
					ok, why = false, "writes "+ev.Loc+" besides what the decoder writes"
				}
				isDec := ev.Kind == "call" && ((method == "UnmarshalCBOR" && strings.HasSuffix(ev.Callee, "cbor/v2.DecMode.Unmarshal")) || (method == "UnmarshalJSON" && ev.Callee == "encoding/json.Unmarshal"))
				if isDec {
					dec, decIdx = &p.St.events[i], i
				}
			}
			if dec == nil {
				ok, why = false, "does not hand the buffer to the codec"
				continue
			}
			args := dec.Args
			if method == "UnmarshalCBOR" && (dec.Recv == nil || dec.Recv.name() != "g:psatoken.dm") {
				ok, why = false, "does not use the package decode mode"
			}
			if len(args) != 2 || args[0].name() != buf {
				ok, why = false, "the codec is not given the caller's unchanged buffer"
				continue
			}
			if avSubject(args[1]) != recv {
				ok, why = false, "the codec does not decode into the receiver"
			}
			// static type of the destination: method-less alias
			if c, isCall := dec.Instr.(*ssa.Call); isCall {
				dst := stripIfaceOnly(c.Call.Args[len(c.Call.Args)-1])
				dt := dst.Type()
				if w.Prog.MethodSets.MethodSet(dt).Len() != 0 {
					ok, why = false, fmt.Sprintf("destination type %s has methods: the codec would re-enter the custom unmarshaller or use another", dt)
				}
				if pt, isPtr := dt.(*types.Pointer); isPtr && !types.Identical(pt.Elem().Underlying(), t.Underlying()) {
					ok, why = false, "destination type is not structurally identical to the claims struct"
				}
			}
			if wantProfileReset && (resetIdx < 0 || resetIdx > decIdx) {
				ok, why = false, "the profile field is not cleared before decoding (a stale profile would survive a buffer without one)"
			}
			// error iff codec error
			_, nl := errOf(p, 0)
			dn := p.St.NilOf(dec.Result)
			if (nl == -1 && dn != -1) || (nl == 1 && dn != 1) {
				ok, why = false, "does not fail exactly when the codec fails"
			}
			if nl == 0 && p.Rets[0].name() != dec.Result.name() {
				ok, why = false, "does not return the codec's verdict"
			}
		}
		r.Check(ok, rule, key, w.FnPos(fn), "profile:=nil; codec(buf, (*alias)(receiver)); error iff codec error", why)
	}
}

func stripIfaceOnly(v ssa.Value) ssa.Value {
	for {
		switch x := v.(type) {
		case *ssa.MakeInterface:
			v = x.X
		case *ssa.ChangeInterface:
			v = x.X
		default:
			return v
		}
	}
}

// marshalShape summarises a custom Marshal method codec-independently.
func marshalShape(w *World, fn *ssa.Function) (string, string) {
	s := w.Summarise(fn)
	if ok, why := s.Complete(); !ok {
		return "", why
	}
	var lines []string
	for _, p := range s.Paths {
		if p.Ret == nil {
			lines = append(lines, "panic")
			continue
		}
		var evs []string
		for _, ev := range p.St.events {
			if ev.Kind != "call" {
				continue
			}
			if a, ok := isMarshalCall(ev); ok {
				dst := avSubject(a)
				// what does the encoded copy look like: which fields were nilled
				var nilled []string
				if a.Kind == KIface && a.Inner != nil && a.Inner.Kind == KAddr {
					for loc, v := range p.St.mem {
						if strings.HasPrefix(loc, a.Inner.Loc+"|") && v.Kind == KNil {
							nilled = append(nilled, strings.TrimPrefix(loc, a.Inner.Loc+"|"))
						}
					}
					if c, has := p.St.mem[a.Inner.Loc]; has {
						dst = "copy-of(" + c.name() + ")"
					}
				}
				sort.Strings(nilled)
				evs = append(evs, "encode("+dst+" nilled="+strings.Join(nilled, ",")+")")
				continue
			}
			evs = append(evs, "call "+reTmp.ReplaceAllString(shortName(ev.Callee), ""))
		}
		cond := reTmp.ReplaceAllString(p.St.Describe(), "")
		lines = append(lines, cond+" => "+strings.Join(evs, "; "))
	}
	sort.Strings(lines)
	return strings.Join(lines, " | "), ""
}

// ruleMarshalTwins: I1/I2/J4 — custom Marshal methods exist in CBOR/JSON
// pairs of identical shape, each has an Unmarshal twin, and the only change
// made to the encoded copy is nil-ing an empty component container.
// normalises: types whose marshal methods must drop an empty component
// container (profile 1: list and no-measurements flag are exclusive on the wire).
var normalises = map[string]bool{"P1Claims": true}

func ruleMarshalTwins(w *World, r *Recorder, rule string, wantJSON bool) {
	type pair struct{ a, b string }
	var types_ []*types.Named
	for _, name := range []string{"P1Claims", "P2Claims", "SwComponent"} {
		if n := w.NamedType(w.Root, name); n != nil {
			types_ = append(types_, n)
		}
	}
	for _, t := range types_ {
		mc, uc := w.MethodImpl(t, "MarshalCBOR"), w.MethodImpl(t, "UnmarshalCBOR")
		mj, uj := w.MethodImpl(t, "MarshalJSON"), w.MethodImpl(t, "UnmarshalJSON")
		name := t.Obj().Name()
		if mc == nil && normalises[name] {
			r.Refute(rule, name+".MarshalCBOR#shape", w.typePos(t), "profile 1 has no MarshalCBOR that drops an empty component container: an empty list would be emitted (possibly next to the no-measurements flag)")
		}
		if wantJSON && mj == nil && normalises[name] {
			r.Refute(rule, name+".MarshalJSON#shape", w.typePos(t), "profile 1 has no MarshalJSON that drops an empty component container")
		}
		if mc != nil {
			r.Check(uc != nil, rule, name+".MarshalCBOR#twin", w.FnPos(mc), "has UnmarshalCBOR twin", "custom MarshalCBOR without UnmarshalCBOR")
			sh, why := marshalShape(w, mc)
			if why != "" {
				r.Undecide(rule, name+".MarshalCBOR#shape", w.FnPos(mc), why)
			} else {
				ok := !strings.Contains(sh, "panic") && onlyContainerNilled(sh) && emptyAlwaysNilled(sh) && nilledOnlyWhenEmpty(sh)
				if ok && normalises[name] && !strings.Contains(sh, "nilled=.SwComponents)") {
					ok = false
					sh = "an empty component container is never replaced by nil before encoding (it would be emitted next to the no-measurements flag): " + sh
				}
				r.Check(ok, rule, name+".MarshalCBOR#shape", w.FnPos(mc), "encodes a copy of the receiver; the only normalisation is nil-ing an empty component container: "+clip(sh, 300), "custom MarshalCBOR alters the encoded copy beyond nil-ing an empty component container: "+clip(sh, 400))
			}
		}
		if wantJSON {
			if (mc != nil) != (mj != nil) {
				fn := mc
				if fn == nil {
					fn = mj
				}
				r.Refute(rule, name+"#Marshal-pair", w.FnPos(fn), "custom marshalling exists for only one of CBOR / JSON: the two forms are not equivalent")
			}
			if (uc != nil) != (uj != nil) {
				fn := uc
				if fn == nil {
					fn = uj
				}
				r.Refute(rule, name+"#Unmarshal-pair", w.FnPos(fn), "custom unmarshalling exists for only one of CBOR / JSON")
			}
			if mc != nil && mj != nil {
				a, why1 := marshalShape(w, mc)
				b, why2 := marshalShape(w, mj)
				if why1 != "" || why2 != "" {
					r.Undecide(rule, name+"#Marshal-shape", w.FnPos(mj), why1+why2)
				} else {
					r.Check(a == b, rule, name+"#Marshal-shape", w.FnPos(mj), "MarshalJSON mirrors MarshalCBOR", "MarshalJSON and MarshalCBOR differ in shape: cbor{"+clip(a, 250)+"} json{"+clip(b, 250)+"}")
				}
			}
		}
	}
}

func onlyContainerNilled(shape string) bool {
	for _, part := range strings.Split(shape, "nilled=") {
		_ = part
	}
	// every "nilled=" list is empty or exactly ".SwComponents"
	rest := shape
	for {
		i := strings.Index(rest, "nilled=")
		if i < 0 {
			return true
		}
		rest = rest[i+len("nilled="):]
		j := strings.IndexByte(rest, ')')
		if j < 0 {
			return false
		}
		l := rest[:j]
		if l != "" && l != ".SwComponents" {
			return false
		}
	}
}

// ruleContainerCodec: the generic container (un)marshals exactly its slice.
func ruleContainerCodec(w *World, r *Recorder, rule string, json bool) {
	methods := []string{"MarshalCBOR", "UnmarshalCBOR"}
	if json {
		methods = append(methods, "MarshalJSON", "UnmarshalJSON")
	}
	found := map[string]bool{}
	for _, fn := range w.Funcs {
		if len(fn.TypeArgs()) == 0 || fn.Signature.Recv() == nil || !strings.Contains(fn.Signature.Recv().Type().String(), "SwComponents[") {
			continue
		}
		m := baseName(fn)
		isM := false
		for _, x := range methods {
			if x == m {
				isM = true
			}
		}
		if !isM {
			continue
		}
		found[m] = true
		s := w.Summarise(fn)
		key := "SwComponents." + m
		if ok, why := s.Complete(); !ok {
			r.Undecide(rule, key, w.FnPos(fn), why)
			continue
		}
		recv := fn.Params[0].Name()
		ok := len(s.Paths) >= 1
		why := ""
		for _, p := range s.Paths {
			n := 0
			for _, ev := range p.St.events {
				if ev.Kind == "store" && strings.HasSuffix(ev.Loc, ".values") {
					ok, why = false, "assigns the element slice directly: "+ev.Loc
				}
				if ev.Kind != "call" {
					continue
				}
				n++
				switch {
				case strings.HasPrefix(m, "Marshal"):
					a, is := isMarshalCall(ev)
					if !is || a.name() != recv+".values" && avSubject(a) != recv+".values" {
						ok, why = false, "does not encode exactly the container's slice"
					}
				default:
					args := ev.Args
					if len(args) != 2 || args[0].name() != fn.Params[1].Name() || !(args[1].Kind == KIface && args[1].Inner != nil && args[1].Inner.name() == "&P:"+recv+"|.values") {
						ok, why = false, "does not decode the caller's buffer into exactly the container's slice"
					}
				}
			}
			if n != 1 {
				ok, why = false, fmt.Sprintf("%d codec calls on a path", n)
			}
		}
		r.Check(ok, rule, key, w.FnPos(fn), "(un)marshals exactly the element slice", why)
	}
	for _, m := range methods {
		if !found[m] {
			r.Refute(rule, "SwComponents."+m, "-", "container lacks "+m+": its element slice is unexported and would not be (de)serialised")
		}
	}
}

// ---------------------------------------------------------------- C10 ----

func checkC10(w *World, r *Recorder) propInfo {
	info := propInfo{
		Explanation: "Decided part (tables and shapes that determine the emitted map): W1/W2 the cbor struct tags of P1Claims, P2Claims and SwComponent carry exactly the profile's integer keys (P1 −75000…−75010, P2 {10,256,265,2394…2400}, component {1,2,4,5,6}), all keyasint, pairwise distinct, no toarray, no other field on the wire, with the Go type of the specified wire kind (int32 / uint16 / byte string / text / eat.Nonce / eat.UEID / eat.Profile / component container); W3 every optional claim has omitempty and is pointer- or interface-kinded, so an absent optional claim is omitted rather than null; W4 the EncOptions literal forbids indefinite lengths and leaves every other option at the library default; the shared modes are written only by the initialiser; W5 profile 1's MarshalCBOR encodes a copy in which only an empty component container is nilled (so list and flag cannot both appear: C01 rejects both-present, C11 keeps them exclusive); W6 profile 2's nonce is an eat.Nonce (a single entry encodes as a bare byte string per the pinned eat source), profile 1's a plain byte string; the component container encodes exactly its element slice. Not decided: the bytes the CBOR library produces for these tables (single definite-length map, no trailing bytes) — a library fact. W16: every value a setter stores into the object being set is the caller's argument or fresh memory, never mutable package-level memory (leak-site scan rooted at the setters). W17: exactly one nonce entry validates (C01-R2 cells of the nonce getters), which the nonce codec emits as a bare byte string.",
		Rule:        "one obligation per struct field / option literal / method",
		Trusted:     []string{"go/types (struct tags via reflect.StructTag parsing)", "fxamacker/cbor v2.5.0 honours keyasint/omitempty and IndefLengthForbidden", "veraison/eat Nonce.MarshalCBOR encodes one entry as a bare bstr"},
	}
	ruleKeys(w, r, "C10-W1", true)
	ruleOmit(w, r, "C10-W3")
	ruleNilable(w, r, "C10-W3n")
	ruleOptions(w, r, "C10-W4", "EncOptions")
	ruleModesInitOnly(w, r, "C10-W4m")
	ruleMarshalTwins(w, r, "C10-W5", false)
	ruleContainerCodec(w, r, "C10-W6", false)
	ruleEncodeReturnsCodecOutput(w, r, "C10-W7", false)
	// W8: the emitted bytes are the caller's own (fresh), so they stay exactly the profile's wire format after later calls
	for _, n := range []string{"EncodeClaimsToCBOR", "ValidateAndEncodeClaimsToCBOR"} {
		if fn := w.Root.Func(n); fn != nil {
			ruleResultFresh(w, r, "C10-W8", fn, n, 0)
		}
	}
	// W9: the same for what extension profiles emit
	{
		sub := NewRecorder(r.Property)
		c15Walker(w, sub, "doSerializeStructToCBOR")
		remap(r, sub, map[string]string{"C15-H4": "C10-W9"})
	}
	// W10: the map length header written for extension profiles follows the CBOR table
	if sf := w.encMapType("CBOR"); sf != nil {
		sub := NewRecorder(r.Property)
		c15Writer(w, sub, sf)
		remap(r, sub, map[string]string{"C15-H1": "C10-W10"})
	}
	// W11: profile 1 never emits both lists — a claims-set that validates has
	// not both a non-empty component list and a *present* no-measurements flag
	// (presence is what the encoder's omitempty tests), decided on the cells of
	// the component getter as in C01-R2
	if t := w.NamedType(w.Root, "P1Claims"); t != nil {
		rows := builtinSpecs["P1Claims"]
		for i := range rows {
			if rows[i].Rule != ruleComponents {
				continue
			}
			if fn := w.MethodImpl(t, rows[i].Getter); fn != nil {
				sub := NewRecorder(r.Property)
				c01ComponentsGetter(w, sub, t, fn, &rows[i])
				remap(r, sub, map[string]string{"C01-R2": "C10-W11"})
			}
		}
	}
	// W12: what validation lets through is what the encoder emits: the
	// container walks reject null entries and validate every element (C01-R3),
	// so no component the getters do not report can be on the wire
	importRules(w, r, checkC01, "C10-W12", func(o *Oblig) bool { return o.Rule == "C01-R3" })
	// W13: the profile value emitted for a valid set is exactly the profile's
	// identifier: validity of the stored profile string is equality with the
	// canonical name (the GetProfile cells, C07-P4), and the encoder emits the
	// stored string
	importRules(w, r, checkC07, "C10-W13", func(o *Oblig) bool { return o.Rule == "C07-P4" })
	// W14: the payload the signing path emits is the package encoder's output
	// for the attached claims themselves (C03-S1 run again under this
	// property): a copy with a claim added or removed for signing puts keys on
	// the wire that are not the claims that are set
	importRules(w, r, checkC03, "C10-W14", func(o *Oblig) bool { return o.Rule == "C03-S1" })
	// W15: for a claims-set obtained by decoding, "the claims that are set" are
	// the ones the token carried: the unmarshallers clear the profile the
	// factory pre-populated before decoding (C09-I2 run again under this
	// property) — otherwise re-emitting a token without a profile claim puts
	// key -75000 / 265 on the wire
	importRules(w, r, checkC09, "C10-W15", func(o *Oblig) bool { return o.Rule == "C09-I2" })
	// W16: the value emitted for a claim is the value its setter stored: that
	// holds for the lifetime of the claims-set only if the stored memory is the
	// set's own (a flag pointer aimed at a shared package-level variable is
	// rewritten by a decode into any other set carrying the same pointer, and
	// every such set then emits the token's value instead of 1)
	// W17: "a single nonce is a bare byte string": the nonce codec emits a bare
	// byte string for exactly one entry and an array otherwise, so a valid
	// profile-2 claims-set has the specified wire form only if validation
	// accepts exactly one entry — the C01-R2 cells of the nonce getters, run
	// again under this property (a getter that tolerates N identical entries
	// makes a set valid whose key 10 is an array)
	importRules(w, r, checkC01, "C10-W17", func(o *Oblig) bool {
		return o.Rule == "C01-R2" && strings.Contains(o.Construct, "GetNonce")
	})
	ruleSettersStoreOwnedMemory(w, r, "C10-W16")
	r.Floor("C10-W16", 20)
	r.Floor("C10-W1", 26)
	r.Floor("C10-W3", 26)
	r.Floor("C10-W4", 1)
	r.Floor("C10-W5", 1)
	r.Floor("C10-W6", 2)
	return info
}

// ---------------------------------------------------------------- C09 ----

func checkC09(w *World, r *Recorder) propInfo {
	info := propInfo{
		Explanation: "Decided part: I1 every custom MarshalCBOR has an UnmarshalCBOR twin and the generic container marshals and unmarshals exactly the same element slice; I2 the only change profile 1's MarshalCBOR makes to the copy it encodes is nil-ing an empty component container, and both directions go through a method-less alias of identical underlying struct, so the same tag table drives encoding and decoding; I3 every omitempty field is pointer- or interface-kinded (a present zero value cannot vanish); I4 no map-typed wire field (byte stability); I5 encode and decode use the shared modes, written only by the initialiser, with IndefLength forbidden both ways and all other options at library defaults; the custom UnmarshalCBOR methods clear only the profile field before decoding. Not decided: decode(encode(x)) = x and byte-identical re-encoding — run-time equalities of fxamacker/cbor over these tables.",
		Rule:        "one obligation per struct field / method / option literal",
		Trusted:     []string{"go/types", "path engine", "fxamacker/cbor v2.5.0 struct encoding/decoding is symmetric for identical tags"},
	}
	ruleMarshalTwins(w, r, "C09-I1", false)
	ruleContainerCodec(w, r, "C09-I1c", false)
	ruleUnmarshalShape(w, r, "C09-I2", "UnmarshalCBOR", true)
	ruleNilable(w, r, "C09-I3")
	ruleKeys(w, r, "C09-I4", false)
	ruleOptions(w, r, "C09-I5e", "EncOptions")
	ruleOptions(w, r, "C09-I5d", "DecOptions", "own-encodings")
	ruleModesInitOnly(w, r, "C09-I5")
	ruleEncodeReturnsCodecOutput(w, r, "C09-I6", false)
	// I7: extension profiles (structs embedding the built-in claims) go through
	// the embedding-aware walkers: a field may be left out of the emitted map /
	// tolerated as absent only under the conditions of C15-H4 (embedded,
	// untagged, "-", omitempty with a zero value / an absent key), otherwise a
	// present-but-empty claim would not survive the round trip
	{
		sub := NewRecorder(r.Property)
		c15Walker(w, sub, "doSerializeStructToCBOR")
		c15Walker(w, sub, "doPopulateStructFromCBOR")
		remap(r, sub, map[string]string{"C15-H4": "C09-I7"})
	}
	// I8: the length header the embedding-aware serialiser writes, and the one
	// its reader accepts, follow the CBOR table for every entry count (a wrong
	// boundary makes the library unable to decode its own extension-profile encoding)
	if sf := w.encMapType("CBOR"); sf != nil {
		sub := NewRecorder(r.Property)
		c15Writer(w, sub, sf)
		c15Reader(w, sub)
		c15Compose(w, sub, sf)
		remap(r, sub, map[string]string{"C15-H1": "C09-I8", "C15-H2": "C09-I8", "C15-H3": "C09-I8"})
	}
	// I9: decoding an encoding selects the implementation that produced it:
	// the CBOR dispatcher looks at nothing but the profile key the encoder
	// emits (C07-P1). A dispatcher that also consults other members can pick
	// one implementation for a token and another for its re-encoding.
	importRules(w, r, checkC07, "C09-I9", func(o *Oblig) bool { return o.Rule == "C07-P1" })
	// I10: a claims-set is valid only when its profile claim is exactly the
	// canonical name (the GetProfile cells, C07-P4): a validity widened by
	// folding, trimming or a different constant makes a "valid" set encode to
	// bytes whose declared profile selects nothing, or something else
	importRules(w, r, checkC07, "C09-I10", func(o *Oblig) bool { return o.Rule == "C07-P4" })
	// I11: the embedding-aware reader refuses a repeated key (C15-H5/H6): the
	// dispatcher's struct decoder lets the first occurrence of the profile key
	// win, a reader that let the last one win would fill an extension profile's
	// object with a profile its own encoding then dispatches elsewhere
	if sf := w.encMapType("CBOR"); sf != nil {
		sub := NewRecorder(r.Property)
		c15DupKey(w, sub, sf)
		remap(r, sub, map[string]string{"C15-H5": "C09-I11", "C15-H6": "C09-I11"})
	}
	r.Floor("C09-I1", 1)
	r.Floor("C09-I2", 2)
	r.Floor("C09-I3", 26)
	r.Floor("C09-I4", 26)
	r.Floor("C09-I5", 2)
	return info
}

// ---------------------------------------------------------------- C04 ----

func checkC04(w *World, r *Recorder) propInfo {
	info := propInfo{
		Explanation: "Decided part: T1 the key / keyasint / wire-kind table of the three wire structs equals the profile table — client-id is *int32, lifecycle *uint16, the flag *uint, byte-string claims pointers to (named) byte slices, text claims *string — so that width and type rejection follow from the library's typed decoding; T2 each UnmarshalCBOR hands the caller's unchanged buffer to the package decode mode with the receiver converted to a method-less alias of identical underlying struct and fails iff the decoder fails; T3 the DecOptions literal forbids indefinite lengths and leaves ExtraReturnErrors, DupMapKey, MaxNestedLevels/ArrayElements/MapPairs, TagsMd, IntDec at library defaults; T4 DecodeAndValidateClaimsFromCBOR returns claims only under Validate()==nil of the object it returns (the C08 gate rule); T5 every getter's successful paths return the stored value untransformed (no arithmetic, slicing or conversion), and the component container's Values() copies elements in order; T6 the CBOR decoder dispatches on the declared profile (C07). Not decided: the decoder's behaviour on every CBOR form (wrong major types, floats, out-of-width integers, duplicate keys, key order) — library facts.",
		Rule:        "one obligation per struct field, unmarshal method, option literal, getter",
		Trusted:     []string{"go/types", "path engine", "fxamacker/cbor v2.5.0 typed decoding (overflow and float→int are errors; unknown keys ignored)"},
	}
	ruleKeys(w, r, "C04-T1", true)
	ruleUnmarshalShape(w, r, "C04-T2", "UnmarshalCBOR", false)
	ruleContainerCodec(w, r, "C04-T2c", false)
	ruleOptions(w, r, "C04-T3", "DecOptions", "any-map")
	ruleModesInitOnly(w, r, "C04-T3m")
	// T4: the decode gate
	sub := NewRecorder(r.Property)
	c08Gate(w, sub, gates[4], noInlineValidate(w))
	remap(r, sub, map[string]string{"C08-G1": "C04-T4", "C08-G2": "C04-T4", "C08-G3": "C04-T4"})
	// T5: fidelity of getters
	c04Fidelity(w, r)
	// T6: dispatch
	sub2 := NewRecorder(r.Property)
	c07CBORDispatch(w, sub2)
	remap(r, sub2, map[string]string{"C07-P1": "C04-T6"})
	// T7: every decode works on a fresh claims object (no state shared with earlier tokens)
	sub3 := NewRecorder(r.Property)
	c16Factories(w, sub3)
	remap(r, sub3, map[string]string{"C16-N3": "C04-T7"})
	// T9: "all C01 rules met" — acceptance is decoding followed by validation,
	// so the cell-wise agreement of every getter, walker and container walk with
	// the profile table (C01-R1..R3) is part of what C04 needs
	importRules(w, r, checkC01, "C04-T9", func(o *Oblig) bool {
		return o.Rule == "C01-R1" || o.Rule == "C01-R2" || o.Rule == "C01-R3"
	})
	r.Floor("C04-T1", 26)
	r.Floor("C04-T2", 2)
	r.Floor("C04-T3", 1)
	r.Floor("C04-T4", 1)
	r.Floor("C04-T5", 25)
	r.Floor("C04-T6", 1)
	return info
}

func remap(r, sub *Recorder, m map[string]string) {
	for _, o := range sub.Obs {
		if n, ok := m[o.Rule]; ok {
			o.Rule = n
		}
		r.add(o)
	}
	for k, v := range sub.Analysed {
		r.Count(k, v)
	}
	r.Notes = append(r.Notes, sub.Notes...)
}

func c04Fidelity(w *World, r *Recorder) {
	ic := w.iface(w.Root, "IClaims")
	isc := w.iface(w.Root, "ISwComponent")
	if ic == nil || isc == nil {
		r.Undecide("C04-T5", "interfaces", "-", "not found")
		return
	}
	for _, t := range append(w.Implementations(ic), w.Implementations(isc)...) {
		rows := builtinSpecs[t.Obj().Name()]
		for i := range rows {
			row := &rows[i]
			if row.Getter == "" {
				continue
			}
			fn := w.MethodImpl(t, row.Getter)
			if fn == nil {
				continue
			}
			sub := NewRecorder(r.Property)
			if row.Rule == ruleComponents {
				c01ComponentsGetter(w, sub, t, fn, row)
			} else {
				c01Getter(w, sub, t, fn, row)
			}
			key := t.Obj().Name() + "." + row.Getter
			bad := ""
			for _, o := range sub.Obs {
				if o.Verdict != Proved && (strings.HasSuffix(o.Construct, "#returns") || o.Verdict == Undecided) {
					bad = o.Detail
				}
			}
			r.Check(bad == "", "C04-T5", key, w.FnPos(fn), "successful paths return the stored value untransformed", bad)
		}
	}
	// container order
	for _, fn := range w.Funcs {
		if len(fn.TypeArgs()) > 0 && baseName(fn) == "Values" && fn.Signature.Recv() != nil {
			rep := orderedCopyWalk(w, fn, func(s ssa.Value) bool { return loadsField(s, "values") })
			r.Check(rep.OK, "C04-T5", fnKey(fn), w.FnPos(fn), "elements copied index for index (wire order)", rep.Why)
		}
	}
}

// ---------------------------------------------------------------- C12 ----

func checkC12(w *World, r *Recorder) propInfo {
	info := propInfo{
		Explanation: "Decided part: J1 the json struct tags carry the documented member names (psa-profile / eat-profile, psa-client-id, psa-security-lifecycle, psa-implementation-id, psa-boot-seed, psa-hwver / psa-certification-reference, psa-software-components, psa-no-software-measurements, psa-nonce, psa-instance-id, psa-verification-service-indicator; components: measurement-type|value|description, version, signer-id), pairwise distinct; J2 per field: on the CBOR wire iff in JSON, '-' on both or neither, omitempty on both or neither — so a claim absent in one form is absent (not null) in the other; J3 byte-string claims have underlying []byte (encoding/json: base64); J4 each custom MarshalJSON / UnmarshalJSON mirrors its CBOR twin (same copy, same normalisation, profile cleared before decoding, method-less alias, fails iff the codec fails), and the container (un)marshals the same slice in both codecs; J5 the JSON dispatcher selects by the profile member and falls back to the default register entry when no profile member is present (C07-P3); J6 Evidence.MarshalJSON returns EncodeClaimsToJSON(e.Claims). Not decided: UTF-8 / escaping behaviour of encoding/json, the equalities decode(encode(x)) = x and CBOR→JSON→CBOR byte identity themselves.",
		Rule:        "one obligation per struct field / method",
		Trusted:     []string{"go/types", "path engine", "encoding/json struct-tag semantics"},
	}
	ruleJSONNames(w, r, "C12-J1")
	ruleTagSymmetry(w, r, "C12-J2")
	for _, ws := range wireStructs(w, r, "C12-J3") {
		for _, row := range ws.Rows {
			if row.Kind != "bytes" {
				continue
			}
			f := ws.field(row.Field)
			if f == nil {
				continue
			}
			r.Check(f.Kind == "bytes", "C12-J3", ws.Name+"."+row.Field, w.typePos(ws.Named), "*[]byte: base64 in JSON", "byte-string claim is not a plain []byte: JSON form would not be base64")
		}
	}
	ruleMarshalTwins(w, r, "C12-J4", true)
	ruleUnmarshalShape(w, r, "C12-J4u", "UnmarshalJSON", true)
	ruleContainerCodec(w, r, "C12-J4c", true)
	c07JSONDispatch(w, r, "C12-J5")
	ruleEncodeReturnsCodecOutput(w, r, "C12-J7", true)
	// J6
	if fn := w.findFunc("Evidence", "MarshalJSON"); fn == nil {
		r.Undecide("C12-J6", "Evidence.MarshalJSON", "-", "not found")
	} else {
		s := w.Summarise(fn)
		if ok, why := s.Complete(); !ok {
			r.Undecide("C12-J6", "Evidence.MarshalJSON", w.FnPos(fn), why)
		} else {
			ok := len(s.Paths) == 1
			if ok {
				p := s.Paths[0]
				var m *Event
				for i := range p.St.events {
					if a, is := isMarshalCall(p.St.events[i]); is && avSubject(a) == fn.Params[0].Name()+".Claims" {
						m = &p.St.events[i]
					}
				}
				ok = m != nil && p.Rets[0].name() == resultElem(*m, 0).name() && p.Rets[1].name() == resultElem(*m, 1).name() && m.Callee == "encoding/json.Marshal"
			}
			r.Check(ok, "C12-J6", "Evidence.MarshalJSON", w.FnPos(fn), "returns json.Marshal(e.Claims) unchanged", "Evidence.MarshalJSON does not return the JSON encoding of its own claims")
		}
	}
	// J8: extension profiles' JSON goes through the embedding-aware walkers (see C09-I7)
	{
		sub := NewRecorder(r.Property)
		c15Walker(w, sub, "doSerializeStructToJSON")
		c15Walker(w, sub, "doPopulateStructFromJSON")
		remap(r, sub, map[string]string{"C15-H4": "C12-J8"})
	}
	// J9: the dispatching decoder looks at the generic form of the object only
	// to find the profile member: it reads no other member, so it cannot reject
	// (or treat differently) an object that the profile's own decoder accepts
	c12DispatcherReadsOnlyProfileMembers(w, r, "C12-J9")
	// J10: the JSON dispatcher matches the declared profile exactly, so a
	// claims-set may be valid only when its profile claim is exactly the
	// canonical name (the GetProfile cells, C07-P4) — otherwise the library's
	// own JSON for a valid set does not dispatch back
	importRules(w, r, checkC07, "C12-J10", func(o *Oblig) bool { return o.Rule == "C07-P4" })
	r.Floor("C12-J1", 26)
	r.Floor("C12-J2", 26)
	r.Floor("C12-J3", 8)
	r.Floor("C12-J4", 2)
	r.Floor("C12-J5", 1)
	r.Floor("C12-J6", 1)
	return info
}

// emptyAlwaysNilled: on every path whose condition says the container is
// empty, the encoded copy has the container nilled.
func emptyAlwaysNilled(shape string) bool {
	for _, line := range strings.Split(shape, " | ") {
		parts := strings.SplitN(line, " => ", 2)
		if len(parts) != 2 {
			continue
		}
		empty := false
		for _, c := range strings.Split(parts[0], " ∧ ") {
			if strings.Contains(c, ".IsEmpty") && !strings.HasPrefix(c, "¬") {
				empty = true
			}
		}
		if empty && !strings.Contains(parts[1], "nilled=.SwComponents)") {
			return false
		}
	}
	return true
}

// nilledOnlyWhenEmpty: the container is nilled only on paths whose condition
// says it is empty.
func nilledOnlyWhenEmpty(shape string) bool {
	for _, line := range strings.Split(shape, " | ") {
		parts := strings.SplitN(line, " => ", 2)
		if len(parts) != 2 || !strings.Contains(parts[1], "nilled=.SwComponents)") {
			continue
		}
		empty := false
		for _, c := range strings.Split(parts[0], " ∧ ") {
			if strings.Contains(c, ".IsEmpty") && !strings.HasPrefix(c, "¬") {
				empty = true
			}
			// assigning nil to a container field that is nil already changes nothing
			if strings.HasPrefix(c, "nil(") && strings.HasSuffix(c, ".SwComponents)") {
				empty = true
			}
		}
		if !empty {
			return false
		}
	}
	return true
}

// ruleEncodeReturnsCodecOutput: the (validate-and-)encode functions return
// the codec's output for their argument unchanged.
func ruleEncodeReturnsCodecOutput(w *World, r *Recorder, rule string, json bool) {
	names := []string{"EncodeClaimsToCBOR", "ValidateAndEncodeClaimsToCBOR"}
	if json {
		names = []string{"EncodeClaimsToJSON", "ValidateAndEncodeClaimsToJSON"}
	}
	for _, n := range names {
		fn := w.Root.Func(n)
		if fn == nil {
			r.Undecide(rule, n, "-", "not found")
			continue
		}
		s := w.SummariseWith(fn, noInlineValidate(w))
		if ok, why := s.Complete(); !ok {
			r.Undecide(rule, n, w.FnPos(fn), why)
			continue
		}
		ok, why, succ := true, "", 0
		for _, p := range s.Paths {
			if p.Ret == nil {
				continue
			}
			_, nl := errOf(p, 1)
			if nl == 1 && !strings.Contains(p.Rets[1].name(), "Marshal") {
				continue // validation failure
			}
			succ++
			var m *Event
			cnt := 0
			for i := range p.St.events {
				if a, is := isMarshalCall(p.St.events[i]); is {
					cnt++
					if avSubject(a) == fn.Params[0].Name() {
						m = &p.St.events[i]
					}
				}
			}
			switch {
			case m == nil || cnt != 1:
				ok, why = false, "does not encode its argument exactly once"
			case json != (m.Callee == "encoding/json.Marshal"):
				ok, why = false, "uses the other codec"
			case p.Rets[0].name() != resultElem(*m, 0).name():
				ok, why = false, "returns "+p.Rets[0].name()+" instead of the codec's output (post-processing of the encoded bytes)"
			case p.Rets[1].name() != resultElem(*m, 1).name():
				ok, why = false, "does not return the codec's error"
			}
			for _, ev := range p.St.events {
				if ev.Kind == "call" && !isValidateCall(ev) && ev.Callee != "fmt.Errorf" {
					if _, is := isMarshalCall(ev); !is {
						ok, why = false, "calls "+shortName(ev.Callee)+" besides Validate and the codec"
					}
				}
			}
		}
		r.Check(ok && succ > 0, rule, n, w.FnPos(fn), "returns the codec's output for its argument unchanged", why)
	}
}

// c12DispatcherReadsOnlyProfileMembers: in DecodeClaimsFromJSON the map the
// buffer is first decoded into is used only for lookups keyed by a registered
// profile's JSON tag (directly, or in an in-repo helper it is handed to).
func c12DispatcherReadsOnlyProfileMembers(w *World, r *Recorder, rule string) {
	fn := w.Root.Func("DecodeClaimsFromJSON")
	reg := registerGlobal(w)
	if fn == nil || reg == nil {
		r.Undecide(rule, "DecodeClaimsFromJSON", "-", "decoder or register not found")
		return
	}
	// the generic destination: address handed to the first json.Unmarshal
	var dest *ssa.Alloc
	for _, b := range fn.Blocks {
		for _, in := range b.Instrs {
			if c, ok := in.(*ssa.Call); ok && dest == nil && calleeName(&c.Call) == "encoding/json.Unmarshal" && len(c.Call.Args) == 2 {
				if al, ok := stripIface(c.Call.Args[1]).(*ssa.Alloc); ok {
					if _, isMap := al.Type().(*types.Pointer).Elem().Underlying().(*types.Map); isMap {
						dest = al
					}
				}
			}
		}
	}
	if dest == nil {
		r.Undecide(rule, "DecodeClaimsFromJSON#generic-map", w.FnPos(fn), "no generic map destination of a first json.Unmarshal found")
		return
	}
	bad := ""
	var at ssa.Instruction
	entryParams := map[*ssa.Parameter]bool{} // helper parameters bound to a register entry of the loop
	var checkUses func(m ssa.Value, depth int)
	checkUses = func(m ssa.Value, depth int) {
		if depth > 3 || m.Referrers() == nil {
			return
		}
		for _, ref := range *m.Referrers() {
			switch x := ref.(type) {
			case *ssa.DebugRef:
			case *ssa.Lookup:
				if x.X != m {
					continue
				}
				src, _ := registerSource(x.Index, reg)
				if src != "iteration" {
					// a key that is a parameter of a helper handed the tag is fine
					if _, isParam := x.Index.(*ssa.Parameter); !isParam {
						if pr := paramRoot(x.Index); pr == nil || !entryParams[pr] {
							bad, at = "it looks up a member whose name does not come from a registered profile's JSON tag", x
						}
					}
				}
			case *ssa.Call:
				h := x.Call.StaticCallee()
				if h == nil || !w.InRepo(h) || h.Blocks == nil {
					if b, isB := x.Call.Value.(*ssa.Builtin); isB && b.Name() == "len" {
						continue
					}
					bad, at = "it hands the decoded object to "+calleeName(&x.Call), x
					continue
				}
				for i, a := range x.Call.Args {
					if src, _ := registerSource(a, reg); src == "iteration" && i < len(h.Params) {
						entryParams[h.Params[i]] = true
					}
				}
				for i, a := range x.Call.Args {
					if a == m && i < len(h.Params) {
						checkUses(h.Params[i], depth+1)
					}
				}
			case *ssa.Range:
				bad, at = "it iterates over all members of the decoded object", x
			case *ssa.MakeInterface, *ssa.Store, *ssa.MapUpdate, *ssa.Phi, *ssa.Return:
				bad, at = "the decoded object escapes the dispatcher", x.(ssa.Instruction)
			}
		}
	}
	for _, ref := range *dest.Referrers() {
		if ld, ok := ref.(*ssa.UnOp); ok && ld.Op == token.MUL {
			checkUses(ld, 0)
		}
	}
	pos := w.FnPos(fn)
	if at != nil {
		pos = w.InstrPos(at)
	}
	r.Check(bad == "", rule, "DecodeClaimsFromJSON#reads-only-profile-members", pos, "the generic form of the object is consulted only under the registered profiles' JSON tags",
		"the dispatcher inspects more of the object than the profile member: "+bad+" — it can then reject, or treat differently, JSON that the profile's own decoder accepts (the library's own encoding included)")
}
