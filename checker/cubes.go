package main

// Cubes: conjunctions of integer-term memberships and boolean atoms, and the
// exact comparison of finite unions of cubes by cell decomposition. A path of
// the E3 engine projects to one cube; a spec row is a cube as well.

import (
	"fmt"
	"sort"
	"strings"
)

type Cube struct {
	Terms map[string]iset
	Atoms map[string]bool
	// Tag carries the path's outcome (rule specific), e.g. "accept"/"reject".
	Tag string
	// Origin: where the cube came from (path trail / spec row), for reports.
	Origin string
}

func (c Cube) String() string {
	var p []string
	for k, v := range c.Terms {
		p = append(p, k+"∈"+v.String())
	}
	for k, v := range c.Atoms {
		if v {
			p = append(p, k)
		} else {
			p = append(p, "¬"+k)
		}
	}
	sort.Strings(p)
	if len(p) == 0 {
		return "true"
	}
	return strings.Join(p, " ∧ ")
}

// cubeOf projects a state to a cube. rename maps term/atom names (after
// substring replacement of the given pairs); drop removes terms/atoms whose
// name satisfies the predicate (vocabulary that the rule knows to be
// irrelevant must be listed explicitly by the rule).
func cubeOf(st *State, repl *strings.Replacer, drop func(name string) bool) Cube {
	c := Cube{Terms: map[string]iset{}, Atoms: map[string]bool{}}
	for k, v := range st.terms {
		if repl != nil {
			k = repl.Replace(k)
		}
		if drop != nil && drop(k) {
			continue
		}
		if prev, ok := c.Terms[k]; ok {
			v = inter(prev, v)
		}
		c.Terms[k] = v
	}
	for k, v := range st.atoms {
		if repl != nil {
			k = repl.Replace(k)
		}
		if drop != nil && drop(k) {
			continue
		}
		c.Atoms[k] = v
	}
	return c
}

func (c Cube) empty() bool {
	for _, v := range c.Terms {
		if v.empty() {
			return true
		}
	}
	return false
}

// cell: one elementary piece per term, one truth value per atom.
type cell struct {
	terms map[string]iv
	atoms map[string]bool
}

func (c cell) String() string {
	var p []string
	for k, v := range c.terms {
		p = append(p, k+"∈"+iset{v}.String())
	}
	for k, v := range c.atoms {
		if v {
			p = append(p, k)
		} else {
			p = append(p, "¬"+k)
		}
	}
	sort.Strings(p)
	return strings.Join(p, " ∧ ")
}

func (c Cube) contains(x cell) bool {
	for t, s := range c.Terms {
		piece, ok := x.terms[t]
		if !ok {
			continue
		}
		if !(iset{piece}).subsetOf(s) {
			return false
		}
	}
	for a, b := range c.Atoms {
		if v, ok := x.atoms[a]; ok && v != b {
			return false
		}
	}
	return true
}

// Universe describes the vocabulary over which unions are compared and the
// domain of each integer term.
type Universe struct {
	Terms map[string]iset // domain per term
	Atoms []string
	// Feasible, if set, filters out cells that cannot occur (e.g. a pointee
	// term constrained while the pointer is nil).
	Feasible func(c cell) bool
}

// cells enumerates the decomposition induced by all endpoints of the cubes.
func (u Universe) cells(cubes ...[]Cube) ([]cell, error) {
	var tnames []string
	for t := range u.Terms {
		tnames = append(tnames, t)
	}
	sort.Strings(tnames)
	pieces := map[string][]iv{}
	total := 1
	for _, t := range tnames {
		dom := u.Terms[t]
		cuts := map[int64]bool{}
		for _, cs := range cubes {
			for _, c := range cs {
				if s, ok := c.Terms[t]; ok {
					for _, x := range s {
						cuts[x.lo] = true
						if x.hi != maxI {
							cuts[x.hi+1] = true
						}
					}
				}
			}
		}
		var ps []iv
		for _, d := range dom {
			var pts []int64
			for k := range cuts {
				if k > d.lo && k <= d.hi {
					pts = append(pts, k)
				}
			}
			sort.Slice(pts, func(i, j int) bool { return pts[i] < pts[j] })
			lo := d.lo
			for _, k := range pts {
				ps = append(ps, iv{lo, k - 1})
				lo = k
			}
			ps = append(ps, iv{lo, d.hi})
		}
		pieces[t] = ps
		total *= len(ps)
		if total > 2_000_000 {
			return nil, fmt.Errorf("cell decomposition too large")
		}
	}
	atoms := append([]string(nil), u.Atoms...)
	sort.Strings(atoms)
	if len(atoms) > 16 {
		return nil, fmt.Errorf("too many atoms (%d)", len(atoms))
	}
	total *= 1 << uint(len(atoms))
	if total > 4_000_000 {
		return nil, fmt.Errorf("cell decomposition too large")
	}
	var out []cell
	var rec func(i int, cur cell)
	rec = func(i int, cur cell) {
		if i < len(tnames) {
			for _, p := range pieces[tnames[i]] {
				cur.terms[tnames[i]] = p
				rec(i+1, cur)
			}
			return
		}
		j := i - len(tnames)
		if j < len(atoms) {
			for _, b := range []bool{false, true} {
				cur.atoms[atoms[j]] = b
				rec(i+1, cur)
			}
			return
		}
		c := cell{terms: map[string]iv{}, atoms: map[string]bool{}}
		for k, v := range cur.terms {
			c.terms[k] = v
		}
		for k, v := range cur.atoms {
			c.atoms[k] = v
		}
		// a nil slice (or string-like value) has length 0: a cell that has it
		// nil with a positive length cannot occur
		for a, b := range c.atoms {
			if b && strings.HasPrefix(a, "nil(") && strings.HasSuffix(a, ")") {
				if p, ok := c.terms["len("+a[4:]]; ok && p.lo > 0 {
					return
				}
			}
		}
		if u.Feasible == nil || u.Feasible(c) {
			out = append(out, c)
		}
	}
	rec(0, cell{terms: map[string]iv{}, atoms: map[string]bool{}})
	return out, nil
}

// vocabulary collects the terms and atoms cubes mention.
func vocabulary(cubes ...[]Cube) (terms map[string]bool, atoms map[string]bool) {
	terms, atoms = map[string]bool{}, map[string]bool{}
	for _, cs := range cubes {
		for _, c := range cs {
			for t := range c.Terms {
				terms[t] = true
			}
			for a := range c.Atoms {
				atoms[a] = true
			}
		}
	}
	return
}

// classify returns, per cell, the set of tags of the cubes containing it.
func classify(x cell, cubes []Cube) []string {
	seen := map[string]bool{}
	for _, c := range cubes {
		if c.contains(x) {
			seen[c.Tag] = true
		}
	}
	return sortedKeys(seen)
}

// compareUnions checks, cell by cell, that the tag given by `got` equals the
// tag given by `want`; it returns human-readable mismatches (empty = equal)
// and the number of cells compared.
func compareUnions(u Universe, got, want []Cube) (mismatch []string, n int, err error) {
	cs, err := u.cells(got, want)
	if err != nil {
		return nil, 0, err
	}
	for _, x := range cs {
		g := strings.Join(classify(x, got), "|")
		w := strings.Join(classify(x, want), "|")
		if g != w {
			if g == "" {
				g = "(no path)"
			}
			if w == "" {
				w = "(no spec row)"
			}
			mismatch = append(mismatch, fmt.Sprintf("for %s: code gives %s, expected %s", x, g, w))
		}
	}
	return mismatch, len(cs), nil
}
