package main

// C07 — decoding dispatches on the declared profile, defaulting to profile 1.
// C16 — the profile registry is append-only; every claims instance is independent.

import (
	"fmt"
	"go/constant"
	"go/token"
	"go/types"
	"regexp"
	"sort"
	"strconv"
	"strings"

	"golang.org/x/tools/go/ssa"
)

func init() {
	register("C07", checkC07)
	register("C16", checkC16)
}

// registerGlobal finds the profile register by role: the package-level map
// that NewClaims indexes with its argument.
func registerGlobal(w *World) *ssa.Global {
	if g, ok := regGlobalMemo[w]; ok {
		return g
	}
	g := findRegisterGlobal(w)
	regGlobalMemo[w] = g
	if g != nil {
		if _, wrapped := regFieldMemo[g]; wrapped {
			regPtrAliasMemo[g] = ptrAliases(w, g)
		}
		regAliasMemo[g] = mapAliases(w, g)
		// snapshot helpers: a call of a function that returns an entry-for-entry
		// copy of the register stands for the register
		regCopyMemo[g] = map[*ssa.Function]bool{}
		for _, fn := range w.Funcs {
			if w.InRepo(fn) && isRegisterCopy(fn, g) {
				regCopyMemo[g][fn] = true
			}
		}
		if len(regCopyMemo[g]) > 0 {
			for _, fn := range w.Funcs {
				for _, b := range fn.Blocks {
					for _, in := range b.Instrs {
						if c, ok := in.(*ssa.Call); ok && c.Call.StaticCallee() != nil && regCopyMemo[g][c.Call.StaticCallee()] {
							regAliasMemo[g][c] = true
						}
					}
				}
			}
		}
	}
	return g
}

// regCopyMemo: per register global, the functions that return a fresh map
// holding exactly the register's entries (see isRegisterCopy).
var regCopyMemo = map[*ssa.Global]map[*ssa.Function]bool{}

// isRegisterCopy: fn takes nothing and returns a map it made itself, whose
// only updates are m[k] = v with (k, v) the pair produced by a range over the
// register; apart from that it only takes and releases locks. (A snapshot
// handed to callers that iterate without holding the lock.)
func isRegisterCopy(fn *ssa.Function, g *ssa.Global) bool {
	if fn.Blocks == nil || len(fn.Params) != 0 || len(fn.FreeVars) != 0 || fn.Signature.Results().Len() != 1 {
		return false
	}
	var mk *ssa.MakeMap
	updates := 0
	for _, b := range fn.Blocks {
		for _, in := range b.Instrs {
			switch x := in.(type) {
			case *ssa.MakeMap:
				if mk != nil {
					return false
				}
				mk = x
			case *ssa.Return:
				if len(x.Results) != 1 {
					return false
				}
				if _, ok := x.Results[0].(*ssa.MakeMap); !ok {
					// a function with a defer returns through a result variable
					ld, ok := x.Results[0].(*ssa.UnOp)
					if !ok {
						return false
					}
					if _, ok := ld.X.(*ssa.Alloc); !ok {
						return false
					}
				}
			case *ssa.Store:
				_, okA := x.Addr.(*ssa.Alloc)
				_, okV := x.Val.(*ssa.MakeMap)
				if !okA || !okV {
					return false
				}
			case *ssa.MapUpdate:
				kx, ok1 := x.Key.(*ssa.Extract)
				vx, ok2 := x.Value.(*ssa.Extract)
				if !ok1 || !ok2 || kx.Index != 1 || vx.Index != 2 || kx.Tuple != vx.Tuple {
					return false
				}
				nx, ok := kx.Tuple.(*ssa.Next)
				if !ok {
					return false
				}
				rg, ok := nx.Iter.(*ssa.Range)
				if !ok || !loadsGlobal(rg.X, g) {
					return false
				}
				if _, ok := x.Map.(*ssa.MakeMap); !ok {
					return false
				}
				updates++
			case *ssa.Call:
				if bi, ok := x.Call.Value.(*ssa.Builtin); ok && bi.Name() == "len" {
					continue
				}
				if c := x.Call.StaticCallee(); c == nil || !isLockOp(c.String()) {
					return false
				}
			case *ssa.Defer:
				if c := x.Call.StaticCallee(); c == nil || !isLockOp(c.String()) {
					return false
				}
			case *ssa.If:
				// the only branch is the loop's own "more entries?" test: no entry is skipped
				ex, ok := x.Cond.(*ssa.Extract)
				if !ok || ex.Index != 0 {
					return false
				}
				if _, ok := ex.Tuple.(*ssa.Next); !ok {
					return false
				}
			case *ssa.Go, *ssa.Send, *ssa.Panic:
				return false
			}
		}
	}
	return mk != nil && updates == 1
}

var regGlobalMemo = map[*World]*ssa.Global{}

// regFieldMemo: when the register is a map held in a field of a package-level
// struct (the map wrapped in a small type with methods), the field's index.
var regFieldMemo = map[*ssa.Global]int{}

// regPtrAliasMemo: parameters (receivers) of pointer-to-struct type that every
// call site binds to the address of the register variable.
var regPtrAliasMemo = map[*ssa.Global]map[ssa.Value]bool{}

// regMemName: the engine's name of the register map's memory: the variable,
// or variable.field for a wrapped map.
func regMemName(g *ssa.Global) string {
	if i, ok := regFieldMemo[g]; ok {
		if st, ok := g.Type().(*types.Pointer).Elem().Underlying().(*types.Struct); ok && i < st.NumFields() {
			return globalName(g) + "." + st.Field(i).Name()
		}
	}
	return globalName(g)
}

// regStructBase: v is the register variable's address (the global itself or a
// parameter always bound to it).
func regStructBase(v ssa.Value, g *ssa.Global) bool {
	return v == ssa.Value(g) || regPtrAliasMemo[g][v]
}

// regAliasMemo: per register global, the parameters that always stand for
// it (see mapAliases)
var regAliasMemo = map[*ssa.Global]map[ssa.Value]bool{}

// mapAliases: the parameters (receivers included) of in-repo functions that
// are bound to the package-level map g at every call site: a method on a
// named map type called only on the global, a helper that is handed the
// global. Such a parameter reads and writes the global's map object.
func mapAliases(w *World, g *ssa.Global) map[ssa.Value]bool {
	out := map[ssa.Value]bool{}
	isG := func(v ssa.Value) bool {
		for {
			if ct, ok := v.(*ssa.ChangeType); ok {
				v = ct.X
				continue
			}
			break
		}
		if out[v] {
			return true
		}
		saved := regAliasMemo[g]
		regAliasMemo[g] = out
		defer func() { regAliasMemo[g] = saved }()
		return loadsGlobal(v, g)
	}
	gt := g.Type().(*types.Pointer).Elem().Underlying()
	if fi, wrapped := regFieldMemo[g]; wrapped {
		gt = gt.(*types.Struct).Field(fi).Type().Underlying()
	}
	// call sites per static callee; functions used as values are excluded
	sites := map[*ssa.Function][]*ssa.CallCommon{}
	escaped := map[*ssa.Function]bool{}
	for _, fn := range w.Funcs {
		for _, b := range fn.Blocks {
			for _, in := range b.Instrs {
				var cc *ssa.CallCommon
				if ci, ok := in.(ssa.CallInstruction); ok {
					cc = ci.Common()
					if c := cc.StaticCallee(); c != nil {
						sites[c] = append(sites[c], cc)
					}
				}
				for _, op := range in.Operands(nil) {
					if f, ok := (*op).(*ssa.Function); ok && (cc == nil || *op != cc.Value) {
						escaped[f] = true
					}
				}
			}
		}
	}
	for changed := true; changed; {
		changed = false
		for _, fn := range w.Funcs {
			if fn.Blocks == nil || escaped[fn] || len(sites[fn]) == 0 || !w.InRepo(fn) || isExportedAPI(fn) {
				continue
			}
			for i, p := range fn.Params {
				if out[p] || !types.Identical(p.Type().Underlying(), gt) {
					continue
				}
				all := true
				for _, cc := range sites[fn] {
					if i >= len(cc.Args) || !isG(cc.Args[i]) {
						all = false
					}
				}
				if all {
					out[p] = true
					changed = true
				}
			}
		}
	}
	return out
}

// regAddressUseAllowed: the register variable's address is used by `in` only
// as the receiver/argument of an in-repo function whose parameter is bound to
// the variable at every call site and which uses it only to reach the map
// field (or to hand it on in the same way).
func regAddressUseAllowed(reg *ssa.Global, in ssa.Instruction) bool {
	if _, wrapped := regFieldMemo[reg]; !wrapped {
		return false
	}
	if fa, ok := in.(*ssa.FieldAddr); ok && fa.X == ssa.Value(reg) {
		return true
	}
	ci, ok := in.(ssa.CallInstruction)
	if !ok {
		return false
	}
	callee := ci.Common().StaticCallee()
	if callee == nil {
		return false
	}
	for i, a := range ci.Common().Args {
		if a != ssa.Value(reg) {
			continue
		}
		if i >= len(callee.Params) || !regPtrAliasMemo[reg][callee.Params[i]] {
			return false
		}
		for _, ref := range *callee.Params[i].Referrers() {
			switch x := ref.(type) {
			case *ssa.FieldAddr, *ssa.DebugRef:
			case ssa.CallInstruction:
				if !regAddressUseAllowedParam(reg, callee.Params[i], x) {
					return false
				}
			default:
				return false
			}
		}
	}
	return true
}

func regAddressUseAllowedParam(reg *ssa.Global, p ssa.Value, ci ssa.CallInstruction) bool {
	callee := ci.Common().StaticCallee()
	if callee == nil {
		return false
	}
	for i, a := range ci.Common().Args {
		if a == p && (i >= len(callee.Params) || !regPtrAliasMemo[reg][callee.Params[i]]) {
			return false
		}
	}
	return true
}

// ptrAliases: parameters of type pointer-to-the-register's-struct that every
// call site binds to the register variable's address (methods of the wrapping
// type called only on the variable).
func ptrAliases(w *World, g *ssa.Global) map[ssa.Value]bool {
	out := map[ssa.Value]bool{}
	sites := map[*ssa.Function][]*ssa.CallCommon{}
	escaped := map[*ssa.Function]bool{}
	for _, fn := range w.Funcs {
		for _, b := range fn.Blocks {
			for _, in := range b.Instrs {
				var cc *ssa.CallCommon
				if ci, ok := in.(ssa.CallInstruction); ok {
					cc = ci.Common()
					if c := cc.StaticCallee(); c != nil {
						sites[c] = append(sites[c], cc)
					}
				}
				for _, op := range in.Operands(nil) {
					if f, ok := (*op).(*ssa.Function); ok && (cc == nil || *op != cc.Value) {
						escaped[f] = true
					}
				}
			}
		}
	}
	for changed := true; changed; {
		changed = false
		for _, fn := range w.Funcs {
			if fn.Blocks == nil || escaped[fn] || len(sites[fn]) == 0 || isExportedAPI(fn) {
				continue
			}
			for i, p := range fn.Params {
				if out[p] || !types.Identical(p.Type(), g.Type()) {
					continue
				}
				all := true
				for _, cc := range sites[fn] {
					if i >= len(cc.Args) || !(cc.Args[i] == ssa.Value(g) || out[cc.Args[i]]) {
						all = false
					}
				}
				if all {
					out[p] = true
					changed = true
				}
			}
		}
	}
	return out
}

// isExportedAPI: callers outside the repository may exist.
func isExportedAPI(fn *ssa.Function) bool {
	if fn.Object() == nil || !fn.Object().Exported() {
		return false
	}
	if recv := fn.Signature.Recv(); recv != nil {
		t := recv.Type()
		if pt, ok := t.(*types.Pointer); ok {
			t = pt.Elem()
		}
		if n, ok := t.(*types.Named); ok {
			return n.Obj().Exported()
		}
	}
	return true
}

func findRegisterGlobal(w *World) *ssa.Global {
	fn := w.Root.Func("NewClaims")
	if fn == nil {
		return nil
	}
	// by role: the package-level map consulted (directly or through a small
	// in-repo helper) when NewClaims resolves a profile name
	seen := map[*ssa.Function]bool{fn: true}
	level := []*ssa.Function{fn}
	// bound: the argument a followed call passed for a parameter
	bound := map[ssa.Value]ssa.Value{}
	for depth := 0; depth < 3; depth++ {
		var next []*ssa.Function
		for _, f := range level {
			for _, b := range f.Blocks {
				for _, in := range b.Instrs {
					switch x := in.(type) {
					case *ssa.Lookup:
						m := x.X
						for i := 0; i < 4; i++ {
							if a, ok := bound[m]; ok {
								m = a
							} else if ct, ok := m.(*ssa.ChangeType); ok {
								m = ct.X
							} else {
								break
							}
						}
						if ld, ok := m.(*ssa.UnOp); ok {
							if g, ok := ld.X.(*ssa.Global); ok {
								if _, isMap := g.Type().(*types.Pointer).Elem().Underlying().(*types.Map); isMap {
									return g
								}
							}
							// the map is a field of a package-level struct (a registry
							// type with methods): variable.field, possibly through a
							// receiver bound to the variable's address
							if fa, ok := ld.X.(*ssa.FieldAddr); ok {
								base := fa.X
								for i := 0; i < 4; i++ {
									if a, ok := bound[base]; ok {
										base = a
									} else {
										break
									}
								}
								if g, ok := base.(*ssa.Global); ok {
									if st, ok := g.Type().(*types.Pointer).Elem().Underlying().(*types.Struct); ok {
										if _, isMap := st.Field(fa.Field).Type().Underlying().(*types.Map); isMap {
											regFieldMemo[g] = fa.Field
											return g
										}
									}
								}
							}
						}
					case *ssa.Call:
						if c := x.Call.StaticCallee(); c != nil && !seen[c] && c.Blocks != nil && w.InRepo(c) {
							seen[c] = true
							next = append(next, c)
							for i, p := range c.Params {
								if i < len(x.Call.Args) {
									bound[p] = x.Call.Args[i]
								}
							}
						}
						// a call through a package-level function variable that only
						// its initialiser writes
						if ld, ok := x.Call.Value.(*ssa.UnOp); ok && x.Call.StaticCallee() == nil {
							if g, ok := ld.X.(*ssa.Global); ok && w.readOnlyOutsideInit(g) {
								for c := range w.tableFuncs(g) {
									if !seen[c] && c.Blocks != nil {
										seen[c] = true
										next = append(next, c)
									}
								}
							}
						}
					}
				}
			}
		}
		level = next
	}
	return nil
}

func noInlineEncoding(w *World) func(e *Engine) {
	return func(e *Engine) {
		e.NoInline = map[*ssa.Function]bool{}
		for _, fn := range w.Funcs {
			if p := fnPkg(fn); p != nil && p == w.Enc {
				e.NoInline[fn] = true
			}
			if fn.Name() == "Validate" {
				e.NoInline[fn] = true
			}
		}
	}
}

// regWrites collects the map updates of the register performed on a path.
type regWrite struct {
	Key   AV
	Val   AV
	Instr ssa.Instruction
}

func regWritesOf(p Path, reg string) []regWrite {
	var out []regWrite
	for _, ev := range p.St.events {
		if ev.Kind == "store" && strings.HasPrefix(ev.Loc, "M:g:"+reg) {
			mu, ok := ev.Instr.(*ssa.MapUpdate)
			if !ok {
				continue
			}
			_ = mu
			out = append(out, regWrite{Val: ev.Val, Instr: ev.Instr, Key: AV{Kind: KSym, Sym: strings.TrimSuffix(strings.SplitN(ev.Loc, "[", 2)[1], "]")}})
		}
	}
	return out
}

// ---------------------------------------------------------------- C07 ----

func checkC07(w *World, r *Recorder) propInfo {
	info := propInfo{
		Explanation: "P1 (CBOR): on the path summary of DecodeClaimsFromCBOR every success path decoded the buffer into a one-field selector struct tagged cbor:\"265,keyasint\" of kind string, looked the register up under exactly that field (no path tests the selector for emptiness, so the zero value reaches the lookup), required comma-ok, took GetClaims() of the entry found and decoded the same buffer into it. P2: the package initialisers register, under the constant key \"\", a profile of the same dynamic type as the one registered under PSA_IOT_PROFILE_1. P3 (JSON): the receiver of the GetClaims() call whose result is returned has, among its reaching definitions, one loaded from the register at constant key \"\" that is guarded by 'no registered profile matched' (the default), every definition made inside the range over the register is dominated by the present-edge of the lookup of the entry's JSON tag and by the name-equality edge, and a nil receiver cannot reach the call. P4: GetProfile of both profiles equals its table row (absent ⇒ canonical name for profile 1, missing-mandatory for profile 2; present ⇒ equality with CanonicalProfile, else wrong-profile). P5: per in-repo IProfile, the constant returned by GetName equals the constant the factory stores in CanonicalProfile and puts into the profile claim, and equals the documented name; RegisterProfile registers under p.GetName(); NewClaims returns GetClaims() of the entry at its argument and fails for an unknown name. P6: every custom Unmarshal{CBOR,JSON} clears the profile field before decoding. Not decided: registry contents after third-party registrations at run time; that an unregistered JSON profile value is an error is covered only through the name-equality guard (a member that matches no registered name selects nothing).",
		Rule:        "one obligation per path / definition / profile / method",
		Trusted:     []string{"go/types+go/ssa", "path engine; dominance guard facts", "model: eat.Profile Set/Get round-trip the string"},
	}
	c07CBORDispatch(w, r)
	c07Init(w, r)
	c07JSONDispatch(w, r, "C07-P3")
	// P4
	ic := w.iface(w.Root, "IClaims")
	if ic != nil {
		for _, t := range w.Implementations(ic) {
			rows := builtinSpecs[t.Obj().Name()]
			for i := range rows {
				if rows[i].Rule != ruleProfile {
					continue
				}
				fn := w.MethodImpl(t, rows[i].Getter)
				if fn == nil {
					r.Undecide("C07-P4", t.Obj().Name()+".GetProfile", "-", "not found")
					continue
				}
				sub := NewRecorder(r.Property)
				c01Getter(w, sub, t, fn, &rows[i])
				remap(r, sub, map[string]string{"C01-R2": "C07-P4"})
			}
		}
	}
	c07Profiles(w, r)
	ruleUnmarshalShape(w, r, "C07-P6", "UnmarshalCBOR", true)
	ruleUnmarshalShape(w, r, "C07-P6", "UnmarshalJSON", true)
	// P7: the COSE path has no dispatch of its own: the claims of a decoded
	// Evidence come from DecodeClaimsFromCBOR applied to the message's payload
	// on every successful path (never from an object that was attached before)
	c20Payload(w, r, "C07-P7")
	// P8: a token is validated under the rules of the profile it declares: the
	// decode-and-validate entry points call Validate() on the very object the
	// dispatcher produced (C08-G1 for those gates)
	importRules(w, r, checkC08, "C07-P8", func(o *Oblig) bool {
		return o.Rule == "C08-G1" && strings.Contains(o.Construct, "DecodeAndValidate")
	})
	r.Floor("C07-P1", 1)
	r.Floor("C07-P2", 2)
	r.Floor("C07-P3", 1)
	r.Floor("C07-P4", 2)
	r.Floor("C07-P5", 6)
	r.Floor("C07-P6", 4)
	return info
}

func c07CBORDispatch(w *World, r *Recorder) {
	fn := w.Root.Func("DecodeClaimsFromCBOR")
	reg := registerGlobal(w)
	if fn == nil || reg == nil {
		r.Undecide("C07-P1", "DecodeClaimsFromCBOR", "-", "decoder or register not found")
		return
	}
	// selector struct
	var sel *ssa.Alloc
	// the decoder's own blocks and those of function literals nested in it
	// (an immediately-invoked literal may scope the selector)
	var blocks []*ssa.BasicBlock
	var collect func(f *ssa.Function)
	seenFn := map[*ssa.Function]bool{}
	collect = func(f *ssa.Function) {
		if seenFn[f] || len(seenFn) > 8 {
			return
		}
		seenFn[f] = true
		blocks = append(blocks, f.Blocks...)
		for _, a := range f.AnonFuncs {
			collect(a)
		}
		// and unexported in-repo helpers it calls statically (the decoder may
		// be a thin wrapper that passes the codec mode along)
		for _, b := range f.Blocks {
			for _, in := range b.Instrs {
				if c, ok := in.(*ssa.Call); ok {
					if h := c.Call.StaticCallee(); h != nil && h.Blocks != nil && w.InRepo(h) && !ssaExported(h) && h.Signature.Recv() == nil {
						collect(h)
					}
				}
			}
		}
	}
	collect(fn)
	for _, b := range blocks {
		for _, in := range b.Instrs {
			if al, ok := in.(*ssa.Alloc); ok {
				if st, ok := al.Type().Underlying().(*types.Pointer).Elem().Underlying().(*types.Struct); ok {
					if _, named := al.Type().Underlying().(*types.Pointer).Elem().(*types.Named); !named || true {
						for i := 0; i < st.NumFields(); i++ {
							if strings.Contains(st.Tag(i), "cbor:") {
								sel = al
							}
						}
					}
				}
			}
		}
	}
	if sel == nil {
		r.Refute("C07-P1", "DecodeClaimsFromCBOR#selector", w.FnPos(fn), "no selector struct with a cbor-tagged field is decoded")
		return
	}
	sch := structSchema(sel.Type().Underlying().(*types.Pointer).Elem().Underlying().(*types.Struct))
	okSel := len(sch) == 1 && sch[0].CBORKey == "265" && sch[0].KeyAsInt && !sch[0].ToArray && isStringType(sch[0].Type)
	r.Check(okSel, "C07-P1", "DecodeClaimsFromCBOR#selector", w.InstrPos(sel), "selector struct: one string field, cbor key 265, keyasint", fmt.Sprintf("selector struct is not exactly {string `cbor:\"265,keyasint\"`}: %+v", sch))
	if !okSel {
		return
	}
	selField := sch[0].Name
	s := w.Summarise(fn)
	if ok, why := s.Complete(); !ok {
		r.Undecide("C07-P1", "DecodeClaimsFromCBOR", w.FnPos(fn), why)
		return
	}
	buf := fn.Params[0].Name()
	regName := regMemName(reg)
	n := 0
	for _, p := range s.Paths {
		if p.Ret == nil {
			continue
		}
		_, nl := errOf(p, 1)
		pkey := "DecodeClaimsFromCBOR#" + c08PathKey(p)
		// the lookup key
		var okAtom string
		var okVal, seen bool
		for a, b := range p.St.atoms {
			if strings.HasPrefix(a, "ok:lookup(g:"+regName+",") {
				okAtom, okVal, seen = a, b, true
			}
		}
		if nl == 1 {
			continue
		}
		n++
		var dms []Event
		var gc *Event
		for i := range p.St.events {
			ev := p.St.events[i]
			if ev.Kind == "call" && strings.HasSuffix(ev.Callee, "cbor/v2.DecMode.Unmarshal") {
				dms = append(dms, ev)
			}
			if ev.Kind == "call" && ev.Method == "GetClaims" {
				gc = &p.St.events[i]
			}
		}
		why := ""
		switch {
		case !seen || !okVal:
			why = "success without a successful (comma-ok) register lookup"
		case len(dms) != 2 || dms[0].Args[0].name() != buf || dms[1].Args[0].name() != buf:
			why = "the caller's buffer is not decoded twice (selector, then claims)"
		case !strings.Contains(avSubject(dms[0].Args[1]), "&L:") || !strings.Contains(dms[0].Args[1].name(), sel.Comment):
			why = "the first decode does not fill the selector struct"
		case !plainFieldOfDecoded(lookupKeyOf(okAtom, regName), selField):
			why = "the register is not looked up under exactly the decoded selector field (no trimming, folding or other transformation of the declared value): " + okAtom
		case gc == nil || gc.Recv == nil || !strings.HasPrefix(gc.Recv.name(), "lookup(g:"+regName+","):
			why = "the claims object is not GetClaims() of the entry found"
		case avSubject(dms[1].Args[1]) != avSubject(gc.Result) || avSubject(p.Rets[0]) != avSubject(gc.Result):
			why = "the object decoded into / returned is not the one the selected profile created"
		}
		// no emptiness test of the selector on a success path
		if why == "" {
			for a := range p.St.atoms {
				if strings.Contains(a, "."+selField) && a != okAtom && !strings.HasPrefix(a, "nil(") {
					why = "dispatch depends on a test of the selector value: " + a
				}
			}
			for t := range p.St.terms {
				if strings.Contains(t, "."+selField) && !p.St.terms[t].equal(iset{{0, maxI}}) {
					why = "dispatch depends on a test of the selector value: " + t
				}
			}
		}
		r.Check(why == "", "C07-P1", pkey, w.InstrPos(p.Ret), "selector decode → register[selector] (comma-ok) → GetClaims() → decode same buffer", why)
	}
	if n == 0 {
		r.Refute("C07-P1", "DecodeClaimsFromCBOR#reachable-success", w.FnPos(fn), "no success path")
	}
	// failing lookup ⇒ error
	for _, p := range s.Paths {
		if p.Ret == nil {
			continue
		}
		for a, b := range p.St.atoms {
			if strings.HasPrefix(a, "ok:lookup(g:"+regName+",") && !b {
				_, nl := errOf(p, 1)
				r.Check(nl == 1 && p.Rets[0].Kind == KNil, "C07-P1", "DecodeClaimsFromCBOR#unknown-profile", w.InstrPos(p.Ret), "unregistered profile value ⇒ error, nil claims", "an unregistered profile value does not end in an error")
			}
		}
	}
}

// lookupKeyOf: the key part of the atom ok:lookup(g:<reg>,<key>)[@n].
func lookupKeyOf(atom, regName string) string {
	k := strings.TrimPrefix(atom, "ok:lookup(g:"+regName+",")
	if i := strings.LastIndex(k, ")@"); i >= 0 {
		if _, err := strconv.Atoi(k[i+2:]); err == nil {
			k = k[:i+1]
		}
	}
	return strings.TrimSuffix(k, ")")
}

// plainFieldOfDecoded: the abstract name is `<memory written by the decoder>.<field>`
// — the field itself, not a function of it (strings.TrimSpace(x.f),
// strings.ToLower(x.f), conv(...)).
func plainFieldOfDecoded(key, field string) bool {
	if !strings.HasSuffix(key, "."+field) {
		return false
	}
	base := strings.TrimSuffix(key, "."+field)
	if i := strings.LastIndex(base, ")@"); i >= 0 {
		if _, err := strconv.Atoi(base[i+2:]); err == nil {
			base = base[:i+1]
		}
	}
	if !strings.HasPrefix(base, "w(") || !strings.HasSuffix(base, ")") {
		return false
	}
	// the parenthesis opened by "w(" closes at the very end
	depth := 0
	for i, c := range base {
		switch c {
		case '(':
			depth++
		case ')':
			depth--
			if depth == 0 && i != len(base)-1 {
				return false
			}
		}
	}
	return depth == 0
}

// c07Init: what the package initialisers put into the register.
type regEntry struct {
	Key     string
	ProfDyn string
	Instr   ssa.Instruction
}

func initRegistrations(w *World, r *Recorder, rule string) []regEntry {
	reg := registerGlobal(w)
	if reg == nil {
		r.Undecide(rule, "register", "-", "not found")
		return nil
	}
	var out []regEntry
	for _, fn := range w.Funcs {
		if fnPkg(fn) != w.Root || !(fn.Name() == "init" || strings.HasPrefix(fn.Name(), "init#")) || fn.Synthetic != "" {
			continue
		}
		s := w.SummariseWith(fn, noInlineEncoding(w))
		// take the path that returns normally
		for _, p := range s.Paths {
			if p.Ret == nil {
				continue
			}
			for _, ev := range p.St.events {
				key, isUp := regUpdateKey(ev, regMemName(reg))
				if !isUp {
					continue
				}
				dyn := "?"
				// the value is a profileEntry aggregate: find the Profile field stored
				if pv, ok := ev.Parts[".Profile"]; ok {
					// the entry's parts as they were when it was stored
					if pv.Kind == KIface && pv.Dyn != nil {
						dyn = pv.Dyn.String()
					} else {
						dyn = pv.name()
					}
				} else if mu, ok := ev.Instr.(*ssa.MapUpdate); ok {
					dyn = profileDynOf(p, mu)
				}
				out = append(out, regEntry{Key: key, ProfDyn: dyn, Instr: ev.Instr})
			}
		}
	}
	return out
}

// profileDynOf recovers the dynamic type of the IProfile stored by a register
// update, from the abstract store at the end of the path.
func profileDynOf(p Path, mu *ssa.MapUpdate) string {
	ld, ok := mu.Value.(*ssa.UnOp)
	if !ok {
		return "?"
	}
	al, ok := ld.X.(*ssa.Alloc)
	if !ok {
		return "?"
	}
	prefix := "L:" + al.Parent().Name() + "." + al.Name()
	for loc, v := range p.St.mem {
		if strings.HasPrefix(loc, prefix) && strings.HasSuffix(loc, "|.Profile") {
			if v.Kind == KIface && v.Dyn != nil {
				return v.Dyn.String()
			}
			return v.name()
		}
	}
	return "?"
}

func c07Init(w *World, r *Recorder) {
	entries := initRegistrations(w, r, "C07-P2")
	r.Count("init_registrations", len(entries))
	byKey := map[string]regEntry{}
	for _, e := range entries {
		byKey[e.Key] = e
	}
	def, hasDef := byKey[`""`]
	p1, hasP1 := byKey[fmt.Sprintf("%q", profile1Name)]
	_, hasP2 := byKey[fmt.Sprintf("%q", profile2Name)]
	pos := "-"
	if hasDef {
		pos = w.InstrPos(def.Instr)
	}
	r.Check(hasDef && hasP1 && def.ProfDyn == p1.ProfDyn && def.ProfDyn != "?", "C07-P2", "default-entry", pos,
		"register[\"\"] and register[PSA_IOT_PROFILE_1] hold the same profile type "+def.ProfDyn,
		fmt.Sprintf("the initialisers do not register profile 1 both under its name and as the default \"\" (entries: %v)", keysOf(byKey)))
	r.Check(hasP1 && hasP2, "C07-P2", "named-entries", pos, "both built-in profiles are registered under their documented names", fmt.Sprintf("built-in profiles are not registered under their documented names (entries: %v)", keysOf(byKey)))
}

func keysOf(m map[string]regEntry) []string {
	var out []string
	for k, v := range m {
		out = append(out, k+"→"+v.ProfDyn)
	}
	sort.Strings(out)
	return out
}

// c07Profiles: P5.
func c07Profiles(w *World, r *Recorder) {
	ip := w.iface(w.Root, "IProfile")
	if ip == nil {
		r.Undecide("C07-P5", "IProfile", "-", "not found")
		return
	}
	docName := map[string]string{"Profile1": profile1Name, "Profile2": profile2Name}
	claimsType := map[string]string{"Profile1": "P1Claims", "Profile2": "P2Claims"}
	for _, t := range w.Implementations(ip) {
		name := t.Obj().Name()
		gn, gc := w.MethodImpl(t, "GetName"), w.MethodImpl(t, "GetClaims")
		if gn == nil || gc == nil {
			r.Undecide("C07-P5", name, "-", "GetName/GetClaims not found")
			continue
		}
		sn := w.Summarise(gn)
		constName := ""
		if ok, _ := sn.Complete(); ok && len(sn.Paths) == 1 && sn.Paths[0].Ret != nil && sn.Paths[0].Rets[0].Kind == KStr {
			constName = sn.Paths[0].Rets[0].S
		}
		if want, has := docName[name]; has {
			r.Check(constName == want, "C07-P5", name+".GetName", w.FnPos(gn), "returns the documented constant "+want, fmt.Sprintf("GetName returns %q, documented name is %q", constName, want))
		} else if constName == "" {
			r.Undecide("C07-P5", name+".GetName", w.FnPos(gn), "does not return a constant")
		}
		// factory
		sc := w.SummariseWith(gc, noInlineEncoding(w))
		if ok, why := sc.Complete(); !ok {
			r.Undecide("C07-P5", name+".GetClaims", w.FnPos(gc), why)
			continue
		}
		nret := 0
		for _, p := range sc.Paths {
			if p.Ret == nil {
				continue // the "cannot happen" panic of the factory
			}
			nret++
			a := p.Rets[0]
			if a.Kind != KIface || a.Inner == nil || a.Inner.Kind != KAddr {
				r.Refute("C07-P5", name+".GetClaims", w.InstrPos(p.Ret), "the factory does not return a freshly built claims object: "+a.name())
				continue
			}
			if want, has := claimsType[name]; has && !strings.HasSuffix(a.Dyn.String(), "."+want) {
				r.Refute("C07-P5", name+".GetClaims#type", w.InstrPos(p.Ret), fmt.Sprintf("factory returns %s, the profile's claims type is %s", a.Dyn, want))
			}
			base := ensureSel(a.Inner.Loc)
			canon, okC := p.St.mem[base+".CanonicalProfile"]
			okCanon := okC && canon.Kind == KStr && canon.S == constName
			r.Check(okCanon, "C07-P5", name+".GetClaims#canonical", w.InstrPos(p.Ret), "CanonicalProfile = GetName() = "+constName,
				fmt.Sprintf("factory stores CanonicalProfile %s, GetName returns %q", canon.name(), constName))
			prof, okP := p.St.mem[base+".Profile"]
			claim := "?"
			if okP && prof.Kind == KAddr {
				if v, has := p.St.mem[prof.Loc]; has {
					switch {
					case v.Kind == KStr:
						claim = v.S
					case v.Kind == KSym && strings.HasPrefix(v.Sym, "profile(") && v.Inner != nil && v.Inner.Kind == KStr:
						claim = v.Inner.S
					default:
						claim = v.name()
					}
				}
			}
			r.Check(claim == constName, "C07-P5", name+".GetClaims#profile-claim", w.InstrPos(p.Ret), "profile claim of a new claims-set = "+constName,
				fmt.Sprintf("a new claims-set declares profile %q, GetName returns %q", claim, constName))
		}
		if nret == 0 {
			r.Refute("C07-P5", name+".GetClaims", w.FnPos(gc), "the factory never returns")
		}
	}
	// RegisterProfile / NewClaims
	reg := registerGlobal(w)
	if fn := w.Root.Func("RegisterProfile"); fn == nil || reg == nil {
		r.Undecide("C07-P5", "RegisterProfile", "-", "not found")
	} else {
		s := w.SummariseWith(fn, noInlineEncoding(w))
		if ok, why := s.Complete(); !ok {
			r.Undecide("C07-P5", "RegisterProfile", w.FnPos(fn), why)
		} else {
			ok := false
			bad := ""
			prm := fn.Params[0].Name()
			for _, p := range s.Paths {
				if p.Ret == nil {
					continue
				}
				for _, ev := range p.St.events {
					if key, isUp := regUpdateKey(ev, regMemName(reg)); isUp {
						if key == "psatoken.IProfile.GetName("+prm+")" || strings.HasPrefix(key, "psatoken.IProfile.GetName#") {
							ok = true
						} else {
							bad = "registers under " + key + ", not under p.GetName()"
						}
					}
				}
			}
			r.Check(ok && bad == "", "C07-P5", "RegisterProfile", w.FnPos(fn), "registers under p.GetName()", bad+" (or never registers)")
		}
	}
	if fn := w.Root.Func("NewClaims"); fn == nil || reg == nil {
		r.Undecide("C07-P5", "NewClaims", "-", "not found")
	} else {
		s := w.Summarise(fn)
		if ok, why := s.Complete(); !ok {
			r.Undecide("C07-P5", "NewClaims", w.FnPos(fn), why)
		} else {
			okAll := true
			why := ""
			prm := fn.Params[0].Name()
			for _, p := range s.Paths {
				if p.Ret == nil {
					continue
				}
				_, nl := errOf(p, 1)
				atom := "ok:lookup(g:" + regMemName(reg) + "," + prm + ")"
				found, has := false, false
				for a, b := range p.St.atoms {
					if strings.HasPrefix(a, atom) {
						found, has = b, true
					}
				}
				switch {
				case nl == 1:
					if has && found {
						okAll, why = false, "fails although the profile is registered"
					}
					if p.Rets[0].Kind != KNil {
						okAll, why = false, "returns claims together with an error"
					}
				default:
					var gc *Event
					for i := range p.St.events {
						if p.St.events[i].Kind == "call" && p.St.events[i].Method == "GetClaims" {
							gc = &p.St.events[i]
						}
					}
					if !has || !found || gc == nil || gc.Recv == nil || !strings.HasPrefix(gc.Recv.name(), "lookup(g:"+regMemName(reg)+","+prm+")") || p.Rets[0].name() != gc.Result.name() {
						okAll, why = false, "success is not 'GetClaims() of the entry registered under the argument'"
					}
				}
			}
			r.Check(okAll, "C07-P5", "NewClaims", w.FnPos(fn), "register[name] (comma-ok) → GetClaims(); unknown name ⇒ error", why)
		}
	}
}

// ---- JSON dispatch (structural, dominance based) ----

type jsonDispatch struct {
	fn        *ssa.Function
	getClaims *ssa.Call
	recv      ssa.Value
	leaves    []jsonLeaf
	// helperResults: per function, the first results of the selection helpers
	// it calls (error-checked): "nothing matched" can be a nil test on them
	helperResults map[*ssa.Function][]ssa.Value
}

type jsonLeaf struct {
	val  ssa.Value
	pred *ssa.BasicBlock // predecessor block of the φ edge, or the returning block of a helper (nil: direct)
	kind string          // nil | iteration | default | other
	fn   *ssa.Function   // the function the definition lives in: the decoder or a (nested) selection helper
}

// iterFns: the functions in which an entry of the register loop is selected.
func (d *jsonDispatch) iterFns() []*ssa.Function {
	var out []*ssa.Function
	seen := map[*ssa.Function]bool{}
	for _, l := range d.leaves {
		if l.kind == "iteration" && !seen[l.fn] {
			seen[l.fn] = true
			out = append(out, l.fn)
		}
	}
	return out
}

func analyseJSONDispatch(w *World, fn *ssa.Function, reg *ssa.Global) (*jsonDispatch, string) {
	d := &jsonDispatch{fn: fn, helperResults: map[*ssa.Function][]ssa.Value{}}
	// the GetClaims call whose result is returned
	for _, b := range fn.Blocks {
		for _, in := range b.Instrs {
			c, ok := in.(*ssa.Call)
			if !ok || !c.Call.IsInvoke() || c.Call.Method.Name() != "GetClaims" {
				continue
			}
			for _, b2 := range fn.Blocks {
				if ret, ok := b2.Instrs[len(b2.Instrs)-1].(*ssa.Return); ok && len(ret.Results) == 2 {
					if stripIface(ret.Results[0]) == ssa.Value(c) {
						d.getClaims = c
					}
				}
			}
		}
	}
	if d.getClaims == nil {
		return nil, "no GetClaims() call whose result is returned"
	}
	d.recv = d.getClaims.Call.Value
	seen := map[ssa.Value]bool{}
	why := ""
	// walk: the reaching definitions of v in cur; pred is the φ edge's
	// predecessor (or a helper's returning block), at the block where the
	// value is used when there is no edge
	var walk func(cur *ssa.Function, v ssa.Value, pred, at *ssa.BasicBlock, nonNil bool, depth int)
	walk = func(cur *ssa.Function, v ssa.Value, pred, at *ssa.BasicBlock, nonNil bool, depth int) {
		if phi, ok := v.(*ssa.Phi); ok {
			if seen[phi] {
				return
			}
			seen[phi] = true
			for i, e := range phi.Edges {
				if e == ssa.Value(phi) {
					continue
				}
				p := phi.Block().Preds[i]
				nn := nonNil || knownNonNilAt(e, p) || nonNilEdgeInto(e, p, phi.Block())
				walk(cur, e, p, p, nn, depth)
			}
			return
		}
		// the first result of a selection helper func(…) (profile, error),
		// used where its error is known to be nil: its error-free returns
		if ex, ok := stripIface(v).(*ssa.Extract); ok && ex.Index == 0 && depth < 4 {
			if c, ok := ex.Tuple.(*ssa.Call); ok {
				if h := c.Call.StaticCallee(); h != nil && w.InRepo(h) && h.Blocks != nil && h.Signature.Results().Len() == 2 && isErrorType(h.Signature.Results().At(1).Type()) {
					var herr ssa.Value
					for _, ref := range *c.Referrers() {
						if e2, ok := ref.(*ssa.Extract); ok && e2.Index == 1 {
							herr = e2
						}
					}
					if herr == nil || at == nil || !knownNilAt(herr, at) {
						why = "the selection helper's error is not checked before its result is used"
						return
					}
					if seen[ex] {
						return
					}
					seen[ex] = true
					d.helperResults[cur] = append(d.helperResults[cur], ex)
					for _, b := range h.Blocks {
						ret, ok := b.Instrs[len(b.Instrs)-1].(*ssa.Return)
						if !ok || !isNilConst(ret.Results[1]) && (definitelyNonNilErr(ret.Results[1]) || knownNonNilAt(ret.Results[1], b)) {
							continue // failing return: its first result is not used
						}
						rv := ret.Results[0]
						walk(h, rv, b, b, nonNil || knownNonNilAt(rv, b), depth+1)
					}
					return
				}
			}
		}
		leaf := jsonLeaf{val: v, pred: pred, kind: "other", fn: cur}
		switch {
		case isNilConst(v):
			if nonNil {
				return // excluded by a nil test on the way
			}
			leaf.kind = "nil"
		default:
			if src, _ := registerSource(v, reg); src != "" {
				leaf.kind = src
			}
		}
		d.leaves = append(d.leaves, leaf)
	}
	walk(fn, d.recv, nil, d.getClaims.Block(), knownNonNilAt(d.recv, d.getClaims.Block()), 0)
	if why != "" {
		return nil, why
	}
	return d, ""
}

// registerSource classifies a value as coming from an iteration over the
// register ("iteration") or from a lookup at constant key "" ("default").
func registerSource(v ssa.Value, reg *ssa.Global) (string, string) {
	v = stripIface(v)
	seen := map[ssa.Value]bool{}
	for i := 0; i < 12 && v != nil && !seen[v]; i++ {
		seen[v] = true
		switch x := v.(type) {
		case *ssa.UnOp: // load
			if x.Op != token.MUL {
				return "", ""
			}
			switch a := x.X.(type) {
			case *ssa.Alloc:
				// the whole local entry copy (handed to a value-receiver method)
				var stored ssa.Value
				n := 0
				for _, ref := range *a.Referrers() {
					if st, ok := ref.(*ssa.Store); ok && st.Addr == ssa.Value(a) {
						stored = st.Val
						n++
					}
				}
				if n != 1 {
					return "", ""
				}
				v = stored
				continue
			case *ssa.FieldAddr:
				// field of a local entry copy: follow what was stored into the copy
				if al, ok := a.X.(*ssa.Alloc); ok {
					var stored ssa.Value
					n := 0
					for _, ref := range *al.Referrers() {
						if st, ok := ref.(*ssa.Store); ok && st.Addr == ssa.Value(al) {
							stored = st.Val
							n++
						}
					}
					if n != 1 {
						return "", ""
					}
					v = stored
					continue
				}
				return "", ""
			default:
				return "", ""
			}
		case *ssa.Field:
			v = x.X
		case *ssa.Extract:
			switch t := x.Tuple.(type) {
			case *ssa.Next:
				if rg, ok := t.Iter.(*ssa.Range); ok && loadsGlobal(rg.X, reg) && x.Index == 2 {
					return "iteration", ""
				}
				return "", ""
			case *ssa.Lookup:
				if x.Index == 0 {
					v = t
					continue
				}
				return "", ""
			case *ssa.Call:
				// a lookup helper: func(name) (…entry/profile…, bool) whose result
				// comes from register[name]; called with the constant ""
				h := t.Call.StaticCallee()
				if h == nil {
					// a call through a package-level function variable bound once
					if ld, ok := t.Call.Value.(*ssa.UnOp); ok {
						if g, ok := ld.X.(*ssa.Global); ok {
							if fs := registerFuncVar(g); len(fs) == 1 {
								for f := range fs {
									h = f
								}
							}
						}
					}
				}
				if h != nil && x.Index == 0 {
					if pi := registerLookupHelper(h, reg); pi >= 0 && pi < len(t.Call.Args) {
						if c, ok := t.Call.Args[pi].(*ssa.Const); ok && c.Value != nil && c.Value.Kind() == constant.String && constStringVal(c) == "" {
							return "default", ""
						}
					}
					// a parameterless helper that hands on what the lookup helper
					// returns for the constant ""
					if forwardsDefaultLookup(h, reg) {
						return "default", ""
					}
				}
				return "", ""
			default:
				return "", ""
			}
		case *ssa.Lookup:
			if loadsGlobal(x.X, reg) {
				if c, ok := x.Index.(*ssa.Const); ok && c.Value != nil && constStringVal(c) == "" {
					return "default", ""
				}
			}
			return "", ""
		default:
			return "", ""
		}
	}
	return "", ""
}

// paramRoot: v is (a field of, possibly through a local copy) a parameter of
// its function; returns that parameter.
func paramRoot(v ssa.Value) *ssa.Parameter {
	v = stripIface(v)
	for i := 0; i < 8 && v != nil; i++ {
		switch x := v.(type) {
		case *ssa.Parameter:
			return x
		case *ssa.Field:
			v = x.X
		case *ssa.UnOp:
			if x.Op != token.MUL {
				return nil
			}
			switch a := x.X.(type) {
			case *ssa.FieldAddr:
				if al, ok := a.X.(*ssa.Alloc); ok {
					var stored ssa.Value
					n := 0
					for _, ref := range *al.Referrers() {
						if st, ok := ref.(*ssa.Store); ok && st.Addr == ssa.Value(al) {
							stored = st.Val
							n++
						}
					}
					if n != 1 {
						return nil
					}
					v = stored
					continue
				}
				if p, ok := a.X.(*ssa.Parameter); ok {
					return p
				}
				return nil
			case *ssa.Alloc:
				var stored ssa.Value
				n := 0
				for _, ref := range *a.Referrers() {
					if st, ok := ref.(*ssa.Store); ok && st.Addr == ssa.Value(a) {
						stored = st.Val
						n++
					}
				}
				if n != 1 {
					return nil
				}
				v = stored
			default:
				return nil
			}
		default:
			return nil
		}
	}
	return nil
}

// entryPredicate: h is a bool helper called on a register entry (parameter pe)
// and the decoded object (parameter pm). Reports what a true result implies:
// present — the entry's JSON tag is a member of the object; equal — that
// member's value equals the entry's GetName().
func entryPredicate(h *ssa.Function, pe, pm int) (present, equal bool) {
	if h.Blocks == nil || h.Signature.Results().Len() != 1 || pe >= len(h.Params) || pm >= len(h.Params) {
		return false, false
	}
	fromEntry := func(v ssa.Value) bool { p := paramRoot(v); return p != nil && p == h.Params[pe] }
	memberLookup := func(v ssa.Value) *ssa.Lookup {
		ex, ok := stripIface(v).(*ssa.Extract)
		if !ok {
			return nil
		}
		lk, ok := ex.Tuple.(*ssa.Lookup)
		if !ok || lk.X != ssa.Value(h.Params[pm]) || !fromEntry(lk.Index) {
			return nil
		}
		return lk
	}
	isName := func(v ssa.Value) bool {
		c, ok := stripIface(v).(*ssa.Call)
		return ok && c.Call.IsInvoke() && c.Call.Method.Name() == "GetName" && fromEntry(c.Call.Value)
	}
	present, equal = true, true
	n := 0
	var judge func(v ssa.Value, seen map[ssa.Value]bool)
	judge = func(v ssa.Value, seen map[ssa.Value]bool) {
		switch x := v.(type) {
		case *ssa.Const:
			if x.Value != nil && x.Value.Kind() == constant.Bool && !constant.BoolVal(x.Value) {
				return // false: implies nothing
			}
			present, equal = false, false
		case *ssa.Extract:
			if lk := memberLookup(x); lk != nil && x.Index == 1 && lk.CommaOk {
				n++
				equal = false // presence only
				return
			}
			present, equal = false, false
		case *ssa.BinOp:
			if x.Op == token.EQL {
				lx, ly := memberLookup(x.X), memberLookup(x.Y)
				if (lx != nil && isName(x.Y)) || (ly != nil && isName(x.X)) {
					n++
					return // equality with a string-valued interface implies presence
				}
			}
			present, equal = false, false
		case *ssa.Phi:
			if seen[x] {
				return
			}
			seen[x] = true
			for _, e := range x.Edges {
				judge(e, seen)
			}
		default:
			present, equal = false, false
		}
	}
	for _, b := range h.Blocks {
		if ret, ok := b.Instrs[len(b.Instrs)-1].(*ssa.Return); ok {
			judge(ret.Results[0], map[ssa.Value]bool{})
		}
	}
	if n == 0 {
		return false, false
	}
	return present, equal
}

// forwardsDefaultLookup: h returns, unchanged, the two results of a register
// lookup helper called with the constant "".
func forwardsDefaultLookup(h *ssa.Function, reg *ssa.Global) bool {
	if h.Blocks == nil || h.Signature.Results().Len() != 2 {
		return false
	}
	rets := 0
	for _, b := range h.Blocks {
		ret, ok := b.Instrs[len(b.Instrs)-1].(*ssa.Return)
		if !ok {
			continue
		}
		rets++
		e0, ok0 := ret.Results[0].(*ssa.Extract)
		e1, ok1 := ret.Results[1].(*ssa.Extract)
		if !ok0 || !ok1 || e0.Tuple != e1.Tuple || e0.Index != 0 || e1.Index != 1 {
			return false
		}
		c, ok := e0.Tuple.(*ssa.Call)
		if !ok {
			return false
		}
		h2 := c.Call.StaticCallee()
		if h2 == nil {
			return false
		}
		pi := registerLookupHelper(h2, reg)
		if pi < 0 || pi >= len(c.Call.Args) {
			return false
		}
		k, ok := c.Call.Args[pi].(*ssa.Const)
		if !ok || k.Value == nil || k.Value.Kind() != constant.String || constStringVal(k) != "" {
			return false
		}
	}
	return rets > 0
}

// registerLookupHelper: h's only map lookup is register[param i] (comma-ok)
// and every return hands on (a field of) that lookup's value and its ok flag.
// Returns i, or -1.
func registerLookupHelper(h *ssa.Function, reg *ssa.Global) int {
	if h.Blocks == nil || h.Signature.Results().Len() != 2 {
		return -1
	}
	var lk *ssa.Lookup
	for _, b := range h.Blocks {
		for _, in := range b.Instrs {
			switch x := in.(type) {
			case *ssa.Lookup:
				if lk != nil || !loadsGlobal(x.X, reg) || !x.CommaOk {
					return -1
				}
				lk = x
			case *ssa.Store, *ssa.MapUpdate:
				if _, isLocal := addrRootAlloc(storeAddr(x)); !isLocal {
					return -1
				}
			}
		}
	}
	if lk == nil {
		return -1
	}
	pi := -1
	for i, p := range h.Params {
		if lk.Index == ssa.Value(p) {
			pi = i
		}
	}
	if pi < 0 {
		return -1
	}
	for _, b := range h.Blocks {
		ret, ok := b.Instrs[len(b.Instrs)-1].(*ssa.Return)
		if !ok {
			continue
		}
		if notFoundReturn(ret, lk) {
			continue // `if !ok { return nil, false }`: the miss handed on as constants
		}
		okv, isEx := ret.Results[1].(*ssa.Extract)
		if (!isEx || okv.Tuple != ssa.Value(lk) || okv.Index != 1) && !okEdgeReturn(ret, lk, true) {
			return -1
		}
		if src, _ := registerSourceNoHelper(ret.Results[0], lk); !src {
			return -1
		}
	}
	return pi
}

// notFoundReturn: the return hands on (zero value, false) and is reached only
// on the edge on which the lookup's ok flag is false.
func notFoundReturn(ret *ssa.Return, lk *ssa.Lookup) bool {
	if len(ret.Results) != 2 {
		return false
	}
	if z, isZ := ret.Results[0].(*ssa.Const); !isZ || z.Value != nil {
		return false
	}
	return okEdgeReturn(ret, lk, false)
}

// okEdgeReturn: the return's second result is the constant `want` and the
// return is reached only on the edge on which the lookup's ok flag has that
// value.
func okEdgeReturn(ret *ssa.Return, lk *ssa.Lookup, want bool) bool {
	if len(ret.Results) != 2 {
		return false
	}
	k, isK := ret.Results[1].(*ssa.Const)
	if !isK || k.Value == nil || k.Value.Kind() != constant.Bool || constant.BoolVal(k.Value) != want {
		return false
	}
	for _, b := range ret.Parent().Blocks {
		ifi, ok := b.Instrs[len(b.Instrs)-1].(*ssa.If)
		if !ok {
			continue
		}
		cond := ifi.Cond
		missSucc := 1 // if ok {found} else {miss}
		if u, isNot := cond.(*ssa.UnOp); isNot && u.Op == token.NOT {
			cond = u.X
			missSucc = 0
		}
		ex, isEx := cond.(*ssa.Extract)
		if !isEx || ex.Tuple != ssa.Value(lk) || ex.Index != 1 {
			continue
		}
		if want {
			missSucc = 1 - missSucc
		}
		t := b.Succs[missSucc]
		if len(t.Preds) == 1 && t.Dominates(ret.Block()) {
			return true
		}
	}
	return false
}

func storeAddr(in ssa.Instruction) ssa.Value {
	switch x := in.(type) {
	case *ssa.Store:
		return x.Addr
	case *ssa.MapUpdate:
		return x.Map
	}
	return nil
}

// registerSourceNoHelper: v is (a field of, possibly via a local copy) value #0 of lookup lk.
func registerSourceNoHelper(v ssa.Value, lk *ssa.Lookup) (bool, string) {
	v = stripIface(v)
	for i := 0; i < 8 && v != nil; i++ {
		switch x := v.(type) {
		case *ssa.Field:
			v = x.X
		case *ssa.Extract:
			return x.Tuple == ssa.Value(lk) && x.Index == 0, ""
		case *ssa.UnOp:
			fa, ok := x.X.(*ssa.FieldAddr)
			if !ok {
				return false, ""
			}
			al, ok := fa.X.(*ssa.Alloc)
			if !ok {
				return false, ""
			}
			var stored ssa.Value
			n := 0
			for _, ref := range *al.Referrers() {
				if st, ok := ref.(*ssa.Store); ok && st.Addr == ssa.Value(al) {
					stored = st.Val
					n++
				}
			}
			if n != 1 {
				return false, ""
			}
			v = stored
		default:
			return false, ""
		}
	}
	return false, ""
}

func loadsGlobal(v ssa.Value, g *ssa.Global) bool {
	for {
		if ct, ok := v.(*ssa.ChangeType); ok {
			v = ct.X
			continue
		}
		break
	}
	if regAliasMemo[g][v] {
		return true // a parameter bound to the register at every call site
	}
	if fi, wrapped := regFieldMemo[g]; wrapped {
		// the map field of the wrapping struct, read through the variable or
		// through a receiver bound to it
		switch x := v.(type) {
		case *ssa.UnOp:
			if fa, ok := x.X.(*ssa.FieldAddr); ok && x.Op == token.MUL && fa.Field == fi && regStructBase(fa.X, g) {
				return true
			}
		case *ssa.Field:
			if ld, ok := x.X.(*ssa.UnOp); ok && x.Field == fi && ld.Op == token.MUL && regStructBase(ld.X, g) {
				return true
			}
		}
		return false
	}
	u, ok := v.(*ssa.UnOp)
	return ok && u.Op == token.MUL && u.X == ssa.Value(g)
}

func c07JSONDispatch(w *World, r *Recorder, rule string) {
	fn := w.Root.Func("DecodeClaimsFromJSON")
	reg := registerGlobal(w)
	if fn == nil || reg == nil {
		r.Undecide(rule, "DecodeClaimsFromJSON", "-", "decoder or register not found")
		return
	}
	d, why := analyseJSONDispatch(w, fn, reg)
	if why != "" {
		r.Undecide(rule, "DecodeClaimsFromJSON", w.FnPos(fn), why)
		return
	}
	r.Count("json_dispatch_definitions", len(d.leaves))
	hasDefault := false
	var foundPhi ssa.Value
	if phi, ok := d.recv.(*ssa.Phi); ok {
		foundPhi = phi
	}
	for i, l := range d.leaves {
		key := fmt.Sprintf("DecodeClaimsFromJSON#def-%s", l.kind)
		pos := w.FnPos(fn)
		if in, ok := l.val.(ssa.Instruction); ok {
			pos = w.InstrPos(in)
		}
		switch l.kind {
		case "nil":
			ok := knownNonNilAt(d.recv, d.getClaims.Block()) && l.fn == fn
			r.Check(ok, rule, key, w.InstrPos(d.getClaims), "a nil selection cannot reach GetClaims()", "GetClaims() can be invoked on a nil profile (no profile matched)")
		case "iteration":
			ok, why := iterationGuarded(l.fn, l, reg)
			r.Check(ok, rule, fmt.Sprintf("%s/%d", key, i), pos, "selection inside the register loop only under member-present ∧ value == entry's GetName()", why)
		case "default":
			hasDefault = true
			ok := l.pred != nil && l.fn == fn && foundPhi != nil && (knownNilAt(foundPhi, l.pred) || knownNilAt(d.recv, l.pred))
			if !ok && l.pred != nil {
				// the default may be assigned to a later φ; accept a guard on any φ that feeds the receiver
				for _, b := range l.fn.Blocks {
					for _, in := range b.Instrs {
						if phi, isPhi := in.(*ssa.Phi); isPhi && types.Identical(phi.Type(), d.recv.Type()) && knownNilAt(phi, l.pred) {
							ok = true
						}
					}
				}
				// or on the result of the helper that looked for a match
				for _, hv := range d.helperResults[l.fn] {
					if knownNilAt(hv, l.pred) {
						ok = true
					}
				}
			}
			r.Check(ok, rule, key, pos, "the default entry is used only when no registered profile matched", "the default register entry can override a profile that was matched (its use is not guarded by 'nothing matched')")
		default:
			r.Undecide(rule, fmt.Sprintf("%s/%d", key, i), pos, "profile selection from a source the rule does not recognise: "+l.val.String())
		}
	}
	r.Check(hasDefault, rule, "DecodeClaimsFromJSON#default", w.FnPos(fn),
		"a token without a profile member falls back to register[\"\"]",
		"no reaching definition of the selected profile comes from the default register entry (key \"\"): a JSON token without a profile member cannot be decoded as PSA_IOT_PROFILE_1")
	// the buffer is decoded into the selected profile's claims and returned
	okDec := false
	for _, b := range fn.Blocks {
		for _, in := range b.Instrs {
			if c, ok := in.(*ssa.Call); ok && calleeName(&c.Call) == "encoding/json.Unmarshal" && len(c.Call.Args) == 2 {
				if stripIface(c.Call.Args[1]) == ssa.Value(d.getClaims) && c.Call.Args[0] == ssa.Value(fn.Params[0]) && d.getClaims.Block().Dominates(c.Block()) {
					okDec = true
				}
			}
		}
	}
	r.Check(okDec, rule, "DecodeClaimsFromJSON#decode-into-selected", w.InstrPos(d.getClaims), "json.Unmarshal(buf, selected.GetClaims())", "the caller's buffer is not decoded into the claims object of the selected profile")
}

// iterationGuarded: the φ edge carrying an entry's profile is dominated by
// the present-edge of decoded[entry.JSONTag] and by the equality edge between
// that member's value and entry.Profile.GetName().
func iterationGuarded(fn *ssa.Function, l jsonLeaf, reg *ssa.Global) (bool, string) {
	if l.pred == nil {
		return false, "definition outside a φ"
	}
	present, equal := false, false
	for _, b := range fn.Blocks {
		ifi, ok := b.Instrs[len(b.Instrs)-1].(*ssa.If)
		if !ok {
			continue
		}
		// a negated condition (switch { case !present: … }) swaps the edges
		cond, tSucc := ifi.Cond, 0
		for {
			if n, ok := cond.(*ssa.UnOp); ok && n.Op == token.NOT {
				cond, tSucc = n.X, 1-tSucc
				continue
			}
			break
		}
		// a predicate helper called on the iteration entry and the decoded object
		if c, ok := cond.(*ssa.Call); ok {
			if h := c.Call.StaticCallee(); h != nil && h.Blocks != nil && isBoolType(c.Type()) {
				pe, pm := -1, -1
				for i, a := range c.Call.Args {
					if src, _ := registerSource(a, reg); src == "iteration" {
						pe = i
					} else if _, isMap := a.Type().Underlying().(*types.Map); isMap {
						pm = i
					}
				}
				if pe >= 0 && pm >= 0 && edgeDominates(b, tSucc, l.pred) {
					p, e := entryPredicate(h, pe, pm)
					present = present || p
					equal = equal || e
				}
			}
		}
		// present: cond is extract #1 of a comma-ok Lookup whose key derives from the iteration entry
		if ex, ok := cond.(*ssa.Extract); ok && ex.Index == 1 {
			if lk, ok := ex.Tuple.(*ssa.Lookup); ok && lk.CommaOk && !loadsGlobal(lk.X, reg) {
				if src, _ := registerSource(lk.Index, reg); src == "iteration" && edgeDominates(b, tSucc, l.pred) {
					present = true
				}
			}
		}
		if bo, ok := cond.(*ssa.BinOp); ok && (bo.Op == token.EQL || bo.Op == token.NEQ) {
			isName := func(v ssa.Value) bool {
				c, ok := stripIface(v).(*ssa.Call)
				if !ok || !c.Call.IsInvoke() || c.Call.Method.Name() != "GetName" {
					return false
				}
				src, _ := registerSource(c.Call.Value, reg)
				return src == "iteration"
			}
			isMember := func(v ssa.Value) bool {
				ex, ok := stripIface(v).(*ssa.Extract)
				if !ok || ex.Index != 0 {
					return false
				}
				lk, ok := ex.Tuple.(*ssa.Lookup)
				if !ok || loadsGlobal(lk.X, reg) {
					return false
				}
				src, _ := registerSource(lk.Index, reg)
				return src == "iteration"
			}
			if (isName(bo.X) && isMember(bo.Y)) || (isName(bo.Y) && isMember(bo.X)) {
				eqSucc := tSucc
				if bo.Op == token.NEQ {
					eqSucc = 1 - tSucc
				}
				if edgeDominates(b, eqSucc, l.pred) {
					equal = true
				}
			}
		}
	}
	switch {
	case !present:
		return false, "an entry can be selected although its JSON profile member is absent from the token"
	case !equal:
		return false, "an entry can be selected although the token's profile value differs from the entry's name (dispatch would depend on map iteration order)"
	}
	return true, ""
}

// ---------------------------------------------------------------- C16 ----

func checkC16(w *World, r *Recorder) propInfo {
	info := propInfo{
		Explanation: "N1: the only in-repo instructions that update the register map are in the registration function reachable solely from RegisterProfile and the package initialisers; no delete/clear on it and no assignment of the variable outside its initialiser. N2: on the path summary of that function the map update happens only on the path where the comma-ok lookup of the same key reported 'absent' and the JSON-tag discovery returned nil; every other path returns an error and performs no update. N3: every in-repo factory (GetClaims) returns a freshly allocated claims struct whose component container is freshly allocated, with no package-level pointer stored into it (provenance summaries: results only-fresh); no package-level variable of claims or container type exists; the decoders call the factory inside the call. N4: in DecodeClaimsFromJSON every selection made inside the range over the register is dominated by the name-equality edge (so the result does not depend on iteration order) and conflicting matches return an error. Not decided: behaviour of third-party profiles registered at run time. N8: no setter puts mutable package-level memory into the object it is called on. N9: NewClaims and the claims dispatchers write no package-level memory (no cache or memo a later registration would not reach).",
		Rule:        "one obligation per writer site / path / factory / definition",
		Trusted:     []string{"go/types+go/ssa", "path engine; E5 provenance summaries; dominance guard facts"},
	}
	reg := registerGlobal(w)
	if reg == nil {
		r.Undecide("C16-N1", "register", "-", "not found")
		return info
	}
	// N1
	var writers []*ssa.Function
	for _, fn := range w.Funcs {
		for _, b := range fn.Blocks {
			for _, in := range b.Instrs {
				switch x := in.(type) {
				case *ssa.MapUpdate:
					if loadsGlobal(x.Map, reg) {
						writers = append(writers, fn)
						okCallers := calledOnlyFromRegistration(w, fn)
						r.Check(okCallers, "C16-N1", "register-update@"+fnKey(fn), w.InstrPos(x), "map update only in the registration function", fnKey(fn)+" updates the register but is reachable from outside RegisterProfile / package initialisers")
					}
				case *ssa.Call:
					if b, ok := x.Call.Value.(*ssa.Builtin); ok && (b.Name() == "delete" || b.Name() == "clear") && len(x.Call.Args) > 0 && loadsGlobal(x.Call.Args[0], reg) {
						r.Refute("C16-N1", "register-"+b.Name()+"@"+fnKey(fn), w.InstrPos(x), "an entry is removed from the register: it is not append-only")
					}
				case *ssa.Store:
					if x.Addr == ssa.Value(reg) && fn.Synthetic != "package initializer" {
						r.Refute("C16-N1", "register-assigned@"+fnKey(fn), w.InstrPos(x), "the register variable is reassigned outside its initialiser")
					}
				}
			}
		}
	}
	gi := w.GlobalInfo(reg)
	okAddr := gi != nil
	if gi != nil {
		for _, in := range gi.AddrEscapes {
			if !regAddressUseAllowed(reg, in) {
				okAddr = false
			}
		}
	}
	// a wrapped register: the map field is never reassigned outside the initialiser
	if fi, wrapped := regFieldMemo[reg]; wrapped {
		for _, fn := range w.Funcs {
			if fn.Synthetic == "package initializer" {
				continue
			}
			for _, b := range fn.Blocks {
				for _, in := range b.Instrs {
					if st, ok := in.(*ssa.Store); ok {
						if fa, ok := st.Addr.(*ssa.FieldAddr); ok && fa.Field == fi && regStructBase(fa.X, reg) {
							r.Refute("C16-N1", "register-assigned@"+fnKey(fn), w.InstrPos(st), "the register's map is replaced outside its initialiser")
						}
					}
				}
			}
		}
	}
	r.Check(okAddr, "C16-N1", "register-address", w.Pos(reg.Pos()), "the register's address does not escape", "the register's address is taken (it could be written elsewhere)")
	if len(writers) == 0 {
		r.Refute("C16-N1", "register-update", w.Pos(reg.Pos()), "nothing writes the register")
	}
	// N2 — a store helper that cannot fail itself (unexported, no error result,
	// called statically) is judged in its callers, where it is inlined
	var n2 []*ssa.Function
	seenW := map[*ssa.Function]bool{}
	for _, fn := range writers {
		for _, f := range liftStoreHelper(w, fn, 0) {
			if !seenW[f] {
				seenW[f] = true
				n2 = append(n2, f)
			}
		}
	}
	for _, fn := range n2 {
		s := w.SummariseWith(fn, noInlineEncoding(w))
		if ok, why := s.Complete(); !ok {
			r.Undecide("C16-N2", fnKey(fn), w.FnPos(fn), why)
			continue
		}
		regName := regMemName(reg)
		for _, p := range s.Paths {
			if p.Ret == nil {
				continue
			}
			_, nl := errOf(p, errIndex(fn))
			var ups []Event
			for _, ev := range p.St.events {
				if _, isUp := regUpdateKey(ev, regName); isUp {
					ups = append(ups, ev)
				}
			}
			pkey := fnKey(fn) + "#" + c08PathKey(p)
			if nl == 1 {
				r.Check(len(ups) == 0, "C16-N2", pkey, w.InstrPos(p.Ret), "failed registration leaves the register untouched", "a failing registration has already updated the register")
				// … and every other piece of package-level state: anything a
				// lookup could read must be as it was before the failed call
				var gw []string
				for _, ev := range p.St.events {
					switch {
					case ev.Kind == "store" && (strings.HasPrefix(ev.Loc, "G:") || strings.HasPrefix(ev.Loc, "M:g:")):
						if _, isUp := regUpdateKey(ev, regName); !isUp {
							gw = append(gw, ev.Loc+" at "+w.InstrPos(ev.Instr))
						}
					case ev.Kind == "call" && ev.Static != nil && w.InRepo(ev.Static):
						if ef := w.Effects()[ev.Static]; ef != nil && (len(ef.WritesGlobals) > 0) {
							for g := range ef.WritesGlobals {
								gw = append(gw, globalName(g)+" via "+ev.Callee)
							}
						}
					}
				}
				sort.Strings(gw)
				r.Check(len(gw) == 0, "C16-N2", pkey+"#globals", w.InstrPos(p.Ret), "failed registration writes no package-level state", "a failing registration has already written package-level state ("+strings.Join(gw, "; ")+"): lookups that read it are changed by a registration that failed")
				continue
			}
			why := ""
			if len(ups) != 1 {
				why = fmt.Sprintf("%d register updates on a success path", len(ups))
			} else {
				key, _ := regUpdateKey(ups[0], regName)
				absent := false
				for a, b := range p.St.atoms {
					if a == "ok:lookup(g:"+regName+","+key+")@0" || strings.HasPrefix(a, "ok:lookup(g:"+regName+","+key+")") {
						absent = !b
					}
				}
				if !absent {
					why = "the update is not guarded by 'no entry under this name yet'"
				}
				tagOK := false
				for _, ev := range p.St.events {
					if ev.Kind == "call" && ev.Static != nil && ev.Static.Name() == "GetProfileJSONTag" && p.St.NilOf(resultElem(ev, 1)) == -1 {
						tagOK = true
					}
				}
				if why == "" && !tagOK {
					why = "the update is not guarded by a successful discovery of the profile field's JSON tag"
				}
			}
			r.Check(why == "", "C16-N2", pkey, w.InstrPos(p.Ret), "insert only under absent ∧ tag found", why)
		}
	}
	// N3
	c16Factories(w, r)
	// N4
	sub := NewRecorder(r.Property)
	c07JSONDispatch(w, sub, "C16-N4")
	for _, o := range sub.Obs {
		if strings.Contains(o.Construct, "def-iteration") {
			r.add(o)
		}
	}
	c16Conflict(w, r, reg)
	// N5: what registration records about a profile (its JSON tag) and what the
	// dispatchers compute must not depend on a pointer to a variable that later
	// loop iterations overwrite
	c16StaleLoopPointers(w, r)
	// N6: a registration changes the outcome of decoding only for tokens that
	// declare the registered name: the CBOR dispatcher keys the register by
	// exactly the declared value (C07-P1 run again under this property — a
	// trimmed, folded or otherwise normalised key lets a new entry capture
	// tokens that declare something else)
	{
		sub := NewRecorder(r.Property)
		c07CBORDispatch(w, sub)
		remap(r, sub, map[string]string{"C07-P1": "C16-N6"})
	}
	// N7: which field of a claims type counts as its profile field — the one
	// with CBOR key 265 / -75000, or one NAMED Profile that carries no cbor tag
	// at all. A field named Profile that is bound to some other key is not the
	// profile claim; accepting it makes a type "without identifiable profile
	// field" registrable (and its JSON member part of the dispatch).
	c16ProfileFieldFallback(w, r)
	r.Floor("C16-N1", 2)
	r.Floor("C16-N2", 1)
	r.Floor("C16-N3", 3)
	// N8: instances stay independent through their setters too: no setter puts
	// mutable package-level memory into the object it is called on
	ruleSettersStoreOwnedMemory(w, r, "C16-N8")
	r.Floor("C16-N8", 20)
	// N9: dispatch is a function of the register and the token alone
	ruleDispatchKeepsNoState(w, r, "C16-N9")
	r.Floor("C16-N9", 3)
	r.Floor("C16-N4", 1)
	return info
}

func calledOnlyFromRegistration(w *World, fn *ssa.Function) bool {
	seen := map[*ssa.Function]bool{}
	var ok func(f *ssa.Function) bool
	ok = func(f *ssa.Function) bool {
		if seen[f] {
			return true
		}
		seen[f] = true
		if f.Name() == "RegisterProfile" && fnPkg(f) == w.Root {
			return true
		}
		if f.Name() == "init" || strings.HasPrefix(f.Name(), "init#") {
			return true
		}
		if ssaExported(f) {
			return false
		}
		// a function literal handed only to (*sync.Once).Do (or called on the
		// spot): it runs, at most, where its parent runs
		if par := f.Parent(); par != nil && onlyRunByParent(par, f) {
			return ok(par)
		}
		node := w.CallGraph().Nodes[f]
		if node == nil || len(node.In) == 0 {
			return false
		}
		for _, in := range node.In {
			if !ok(in.Caller.Func) {
				return false
			}
		}
		return true
	}
	return ok(fn)
}

// onlyRunByParent: every use of the function literal lit inside par is as the
// argument of (*sync.Once).Do or as the callee of an immediate call.
func onlyRunByParent(par, lit *ssa.Function) bool {
	uses := 0
	for _, b := range par.Blocks {
		for _, in := range b.Instrs {
			var val ssa.Value
			switch x := in.(type) {
			case *ssa.MakeClosure:
				if x.Fn == ssa.Value(lit) {
					val = x
				}
			}
			if val == nil {
				// a literal without captured variables is used as a plain function value
				for _, op := range in.Operands(nil) {
					if *op == ssa.Value(lit) {
						ci, ok := in.(ssa.CallInstruction)
						if !ok {
							return false
						}
						cc := ci.Common()
						if cc.Value == ssa.Value(lit) {
							uses++
							continue
						}
						if f := cc.StaticCallee(); f == nil || f.String() != "(*sync.Once).Do" {
							return false
						}
						uses++
					}
				}
				continue
			}
			for _, ref := range *val.Referrers() {
				ci, ok := ref.(ssa.CallInstruction)
				if !ok {
					return false
				}
				cc := ci.Common()
				if cc.Value == val {
					uses++
					continue
				}
				if f := cc.StaticCallee(); f == nil || f.String() != "(*sync.Once).Do" {
					return false
				}
				uses++
			}
		}
	}
	return uses > 0
}

func c16Factories(w *World, r *Recorder) {
	ip := w.iface(w.Root, "IProfile")
	if ip == nil {
		r.Undecide("C16-N3", "IProfile", "-", "not found")
		return
	}
	eff := w.Effects()
	for _, t := range w.Implementations(ip) {
		gc := w.MethodImpl(t, "GetClaims")
		if gc == nil {
			continue
		}
		key := t.Obj().Name() + ".GetClaims"
		ef := eff[gc]
		if ef == nil || len(ef.RetProv) != 1 {
			r.Undecide("C16-N3", key, w.FnPos(gc), "no provenance summary")
			continue
		}
		pr := ef.RetProv[0]
		r.Check(pr.onlyFresh() && pr.Fresh && len(pr.Holds) == 0, "C16-N3", key+"#fresh", w.FnPos(gc), "result provenance: fresh allocation only", "the factory's result may share memory with: "+pr.String())
		s := w.SummariseWith(gc, noInlineEncoding(w))
		if ok, why := s.Complete(); !ok {
			r.Undecide("C16-N3", key, w.FnPos(gc), why)
			continue
		}
		for _, p := range s.Paths {
			if p.Ret == nil {
				continue
			}
			a := p.Rets[0]
			ok := a.Kind == KIface && a.Inner != nil && a.Inner.Kind == KAddr && isLocal(a.Inner.Loc)
			why := "result is not an object allocated in this call: " + a.name()
			if ok {
				base := ensureSel(a.Inner.Loc)
				for loc, v := range p.St.mem {
					if !strings.HasPrefix(loc, base) {
						continue
					}
					if strings.Contains(v.name(), "g:") {
						ok, why = false, "field "+strings.TrimPrefix(loc, base)+" points to package-level memory "+v.name()
					}
				}
				cont, has := p.St.mem[base+".SwComponents"]
				if !has || cont.Kind != KIface || cont.Inner == nil || cont.Inner.Kind != KAddr || !isLocal(cont.Inner.Loc) {
					ok, why = false, "the component container is not freshly allocated per instance"
				}
			}
			r.Check(ok, "C16-N3", key+"#instance", w.InstrPos(p.Ret), "fresh struct with a fresh container, no package-level pointers", why)
		}
	}
	// no package-level claims / container variable is read by anything
	// reachable from the factories, NewClaims or the decoders
	var roots []*ssa.Function
	for _, t := range w.Implementations(ip) {
		if gc := w.MethodImpl(t, "GetClaims"); gc != nil {
			roots = append(roots, gc)
		}
	}
	for _, n := range []string{"NewClaims", "DecodeClaimsFromCBOR", "DecodeClaimsFromJSON", "DecodeEvidenceFromCOSE"} {
		if f := w.Root.Func(n); f != nil {
			roots = append(roots, f)
		}
	}
	n := 0
	for fn := range w.Reachable(roots) {
		ef := eff[fn]
		if ef == nil {
			continue
		}
		for g := range ef.GlobalReads {
			t := g.Type().(*types.Pointer).Elem().String()
			if (strings.Contains(t, "Claims") || strings.Contains(t, "SwComponent")) && pointerLike(g.Type().(*types.Pointer).Elem()) {
				n++
				r.Refute("C16-N3", "global "+g.Name(), w.Pos(g.Pos()), "package-level variable of claims/container type "+t+" is read while creating or decoding claims: instances could share it")
			}
		}
	}
	if n == 0 {
		r.Prove("C16-N3", "no-shared-claims-globals", "-", "no package-level claims/container variable is read by the factories or decoders", true)
	}
}

// c16Conflict: two different matches inside the loop end in an error.
func c16Conflict(w *World, r *Recorder, reg *ssa.Global) {
	fn := w.Root.Func("DecodeClaimsFromJSON")
	if fn == nil {
		return
	}
	d, why := analyseJSONDispatch(w, fn, reg)
	if why != "" {
		return
	}
	iter := 0
	for _, l := range d.leaves {
		if l.kind == "iteration" {
			iter++
		}
	}
	if iter == 0 {
		return
	}
	// a second match (found != nil) either has the same name or returns an error:
	// there is an If on GetName() != GetName() whose 'different' edge leads to a non-nil error return
	ok := false
	var selBlocks []*ssa.BasicBlock
	for _, f := range d.iterFns() {
		selBlocks = append(selBlocks, f.Blocks...)
	}
	for _, b := range selBlocks {
		ifi, isIf := b.Instrs[len(b.Instrs)-1].(*ssa.If)
		if !isIf {
			continue
		}
		bo, isBin := ifi.Cond.(*ssa.BinOp)
		if !isBin || (bo.Op != token.NEQ && bo.Op != token.EQL) {
			continue
		}
		isGN := func(v ssa.Value) bool {
			c, ok := v.(*ssa.Call)
			return ok && c.Call.IsInvoke() && c.Call.Method.Name() == "GetName"
		}
		if !isGN(bo.X) || !isGN(bo.Y) {
			continue
		}
		diff := 0
		if bo.Op == token.EQL {
			diff = 1
		}
		succ := b.Succs[diff]
		if ret, isRet := succ.Instrs[len(succ.Instrs)-1].(*ssa.Return); isRet && len(ret.Results) == 2 && definitelyNonNilErr(ret.Results[1]) && isNilConst(ret.Results[0]) {
			ok = true
		}
	}
	if !ok {
		// the && form: names-differ feeds a φ (other edges constant false) that an If tests
		for _, b := range selBlocks {
			for _, in := range b.Instrs {
				bo, isBin := in.(*ssa.BinOp)
				if !isBin || bo.Op != token.NEQ {
					continue
				}
				isGN := func(v ssa.Value) bool {
					c, ok := v.(*ssa.Call)
					return ok && c.Call.IsInvoke() && c.Call.Method.Name() == "GetName"
				}
				if !isGN(bo.X) || !isGN(bo.Y) {
					continue
				}
				for _, ref := range *bo.Referrers() {
					phi, isPhi := ref.(*ssa.Phi)
					if !isPhi {
						continue
					}
					constFalse := true
					for _, e := range phi.Edges {
						if e == ssa.Value(bo) {
							continue
						}
						if k, isK := e.(*ssa.Const); !isK || k.Value == nil || constant.BoolVal(k.Value) {
							constFalse = false
						}
					}
					if !constFalse {
						continue
					}
					for _, r2 := range *phi.Referrers() {
						if ifi, isIf := r2.(*ssa.If); isIf && ifi.Cond == ssa.Value(phi) {
							succ := ifi.Block().Succs[0]
							if ret, isRet := succ.Instrs[len(succ.Instrs)-1].(*ssa.Return); isRet && len(ret.Results) == 2 && definitelyNonNilErr(ret.Results[1]) && isNilConst(ret.Results[0]) {
								ok = true
							}
						}
					}
				}
			}
		}
	}
	r.Check(ok, "C16-N4", "DecodeClaimsFromJSON#conflict", w.FnPos(fn), "two matches with different names ⇒ error", "two registered profiles with different names can both match without an error (the winner would depend on iteration order)")
}

var reRegUpdate = regexp.MustCompile(`^M:g:([A-Za-z0-9_.]+)(@\d+)?\[(.*)\]$`)

// regUpdateKey: if the event is an update of the named package-level map,
// returns the (abstract) key.
func regUpdateKey(ev Event, regName string) (string, bool) {
	if ev.Kind != "store" {
		return "", false
	}
	m := reRegUpdate.FindStringSubmatch(ev.Loc)
	if m == nil || m[1] != regName {
		return "", false
	}
	return m[3], true
}

// nonNilEdgeInto: block l ends in a nil test of v whose non-nil edge goes to target.
func nonNilEdgeInto(v ssa.Value, l, target *ssa.BasicBlock) bool {
	ifi, ok := l.Instrs[len(l.Instrs)-1].(*ssa.If)
	if !ok {
		return false
	}
	x, nilSucc, ok := nilGuard(ifi)
	return ok && stripIface(x) == stripIface(v) && l.Succs[1-nilSucc] == target && l.Succs[nilSucc] != target
}

// c16StaleLoopPointers: in the functions reachable from RegisterProfile and the
// decode dispatchers, no pointer to a variable that lives outside a loop is
// kept (stored into another variable, carried by a φ) inside that loop while
// the loop also assigns the variable: after the next iteration the pointer
// sees the new contents (the classic "address of the loop variable" slip once
// the variable is hoisted out of the loop body).
func c16StaleLoopPointers(w *World, r *Recorder) {
	var roots []*ssa.Function
	for _, n := range []string{"RegisterProfile", "NewClaims", "DecodeClaimsFromCBOR", "DecodeClaimsFromJSON"} {
		if f := w.Root.Func(n); f != nil {
			roots = append(roots, f)
		}
	}
	reach := w.Reachable(roots)
	n, bad := 0, 0
	for _, fn := range sortedFuncs(reach) {
		if !w.InRepo(fn) || fn.Blocks == nil {
			continue
		}
		n++
		for _, hb := range fn.Blocks {
			isHeader := false
			for _, p := range hb.Preds {
				if hb.Dominates(p) {
					isHeader = true
				}
			}
			if !isHeader {
				continue
			}
			li := loopInfoOf(hb)
			for _, b0 := range fn.Blocks {
				for _, in := range b0.Instrs {
					al, ok := in.(*ssa.Alloc)
					if !ok || li.blocks[al.Block()] {
						continue
					}
					written, kept := ssa.Instruction(nil), ssa.Instruction(nil)
					for b := range li.blocks {
						for _, x := range b.Instrs {
							switch y := x.(type) {
							case *ssa.Store:
								if root, ok := addrRootAlloc(y.Addr); ok && root == al {
									written = y
								}
								if y.Val == ssa.Value(al) {
									kept = y
								}
							case *ssa.Phi:
								for _, e := range y.Edges {
									if e == ssa.Value(al) {
										kept = y
									}
								}
							}
						}
					}
					if written != nil && kept != nil {
						bad++
						r.Refute("C16-N5", fmt.Sprintf("%s#%s", fnKey(fn), al.Comment), w.InstrPos(kept), fmt.Sprintf("a pointer to %s is kept across iterations of a loop that also assigns %s (the variable lives outside the loop): what the pointer designates changes with the next iteration", al.Comment, al.Comment))
					}
				}
			}
		}
	}
	if bad == 0 {
		r.Prove("C16-N5", "no-stale-loop-pointers", "-", fmt.Sprintf("%d functions reachable from registration and dispatch keep no pointer to a variable that a later iteration overwrites", n), true)
	}
}

// registerFuncVar: the functions the package initialiser stores into the
// package-level function variable g (a World-free version of tableFuncs for
// rules that only have SSA values at hand).
func registerFuncVar(g *ssa.Global) map[*ssa.Function]bool {
	if g.Pkg == nil {
		return nil
	}
	init := g.Pkg.Func("init")
	if init == nil {
		return nil
	}
	out := map[*ssa.Function]bool{}
	for _, b := range init.Blocks {
		for _, in := range b.Instrs {
			if st, ok := in.(*ssa.Store); ok && st.Addr == ssa.Value(g) {
				f, isFn := st.Val.(*ssa.Function)
				if !isFn {
					return nil
				}
				out[f] = true
			}
		}
	}
	// written anywhere else?
	for _, m := range g.Pkg.Members {
		fn, ok := m.(*ssa.Function)
		if !ok || fn == init {
			continue
		}
		for _, b := range fn.Blocks {
			for _, in := range b.Instrs {
				if st, ok := in.(*ssa.Store); ok && st.Addr == ssa.Value(g) {
					return nil
				}
			}
		}
	}
	return out
}

// liftStoreHelper: fn itself, or — when fn is an unexported function without
// an error result that is only ever called statically from in-repo code — the
// functions that call it (transitively, a few levels).
func liftStoreHelper(w *World, fn *ssa.Function, depth int) []*ssa.Function {
	self := []*ssa.Function{fn}
	if depth > 3 || ssaExported(fn) || fn.Parent() != nil || errIndex(fn) >= 0 {
		return self
	}
	node := w.CallGraph().Nodes[fn]
	if node == nil || len(node.In) == 0 {
		return self
	}
	var out []*ssa.Function
	for _, e := range node.In {
		if e.Site == nil || e.Site.Common().StaticCallee() != fn || e.Caller.Func == nil || !w.InRepo(e.Caller.Func) {
			return self
		}
		if _, isCall := e.Site.(*ssa.Call); !isCall {
			return self
		}
		out = append(out, liftStoreHelper(w, e.Caller.Func, depth+1)...)
	}
	return out
}

// c16ProfileFieldFallback: in the functions behind GetProfileJSONTag, every
// comparison of a field's name with "Profile" happens only where the field is
// known to carry no cbor tag: under the not-found edge of Tag.Lookup("cbor") or
// the == "" edge of Tag.Get("cbor").
func c16ProfileFieldFallback(w *World, r *Recorder) {
	root := w.Enc.Func("GetProfileJSONTag")
	if root == nil {
		r.Undecide("C16-N7", "GetProfileJSONTag", "-", "not found")
		return
	}
	isStr := func(v ssa.Value, want string) bool {
		c, ok := v.(*ssa.Const)
		return ok && c.Value != nil && c.Value.Kind() == constant.String && constant.StringVal(c.Value) == want
	}
	n := 0
	for _, fn := range sortedFuncs(w.Reachable([]*ssa.Function{root})) {
		if !w.InRepo(fn) || fn.Blocks == nil {
			continue
		}
		// the no-cbor-tag edges of this function
		type edge struct {
			b *ssa.BasicBlock
			i int
		}
		var noTag []edge
		for _, b := range fn.Blocks {
			ifi, ok := b.Instrs[len(b.Instrs)-1].(*ssa.If)
			if !ok {
				continue
			}
			cond, neg := ifi.Cond, false
			for {
				if u, ok := cond.(*ssa.UnOp); ok && u.Op == token.NOT {
					cond, neg = u.X, !neg
					continue
				}
				break
			}
			tagCall := func(v ssa.Value, method string) bool {
				c, ok := v.(*ssa.Call)
				if !ok {
					return false
				}
				f := c.Call.StaticCallee()
				return f != nil && f.String() == "(reflect.StructTag)."+method && len(c.Call.Args) == 2 && isStr(c.Call.Args[1], "cbor")
			}
			switch x := cond.(type) {
			case *ssa.Extract:
				if x.Index == 1 && tagCall(x.Tuple, "Lookup") {
					// true = found; the no-tag edge is the false one
					i := 1
					if neg {
						i = 0
					}
					noTag = append(noTag, edge{b, i})
				}
			case *ssa.BinOp:
				if x.Op != token.EQL && x.Op != token.NEQ {
					continue
				}
				var other ssa.Value
				switch {
				case isStr(x.Y, ""):
					other = x.X
				case isStr(x.X, ""):
					other = x.Y
				default:
					continue
				}
				if !tagCall(other, "Get") {
					continue
				}
				i := 0 // EQL: true edge = empty
				if x.Op == token.NEQ {
					i = 1
				}
				if neg {
					i = 1 - i
				}
				noTag = append(noTag, edge{b, i})
			}
		}
		for _, b := range fn.Blocks {
			for _, in := range b.Instrs {
				bo, ok := in.(*ssa.BinOp)
				if !ok || (bo.Op != token.EQL && bo.Op != token.NEQ) || !(isStr(bo.X, "Profile") || isStr(bo.Y, "Profile")) {
					continue
				}
				n++
				guarded := false
				for _, e := range noTag {
					if edgeDominates(e.b, e.i, b) {
						guarded = true
					}
				}
				r.Check(guarded, "C16-N7", fnKey(fn)+"#name-fallback", w.InstrPos(bo),
					"a field is taken for the profile field by its name only where it carries no cbor tag",
					"a field named Profile is accepted as the profile field although it may carry a cbor tag binding it to another key: a claims type without a profile claim (265 / -75000) becomes registrable")
			}
		}
	}
	if n == 0 {
		r.Prove("C16-N7", "name-fallback", w.FnPos(root), "no field is taken for the profile field by name", false)
	}
}
