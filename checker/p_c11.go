package main

// C11 — setters accept exactly what validation accepts and are all-or-nothing.

import (
	"fmt"
	"go/types"
	"regexp"
	"strings"

	"golang.org/x/tools/go/ssa"
)

var reAnyEpoch = regexp.MustCompile(`@\d+(~\d+)?`)

func init() { register("C11", checkC11) }

func checkC11(w *World, r *Recorder) propInfo {
	info := propInfo{
		Explanation: "Per setter of both built-in profiles and of the library's component type, on the path summary (validators inlined): Q1 the outcome per cell of the argument's value space equals the same profile-table row that C01-R2 compares the getter with (so accept(setter)=accept(getter)=table; for P2's nonce through the model of eat.Nonce{}.Add); Q2 a failing path performs no store into the receiver (all-or-nothing), with the single reasoned exception of the lazy container below; Q3 the only locations written are the claim's own field (profile 1 components: the list and the no-measurements flag); Q4 the value stored on success is the address of a copy of the argument (or eat.UEID(arg), or a Nonce holding exactly arg) — never derived from earlier claim state, hence results do not depend on order or repetition of calls (Q5); Q6 the component converter validates every element in a full walk and yields nothing on the first failure, Replace assigns its result (does not append), Add appends it, and both store only on success; Q7 profile 1 keeps list and flag exclusive: nil list ⇒ flag set and container nil, a list ⇒ flag cleared. Lazy container: a store of a fresh, empty container into a nil container field before Replace may fail is accepted because its premises are proved in the same run — both profiles' component getters treat nil and empty alike (C01-R2 cubes) and profile 1's marshal methods nil-out an empty container before encoding. Not decided: equality of the resulting encodings (library behaviour). Q8: what a setter stored is the object's own memory — no mutable package-level memory is reachable from it (leak-site scan rooted at the setters).",
		Rule:        "obligations per (setter, rule) and per (setter, path); decided by the interval engine / dominance rules",
		Trusted:     []string{"go/types+go/ssa", "interval engine, cube comparison", "E9 pattern languages", "model: eat.Nonce{}.Add(v) succeeds iff 8<=len(v)<=64 and then holds exactly v"},
		Assumptions: []string{"only the library's own component type is passed to SetSoftwareComponents (statement)", "callers do not mutate the byte slice they passed after the call"},
	}
	root := w.Root
	ic := w.iface(root, "IClaims")
	isc := w.iface(root, "ISwComponent")
	if ic == nil || isc == nil {
		r.Undecide("C11-anchor", "IClaims/ISwComponent", "-", "interfaces not found")
		return info
	}
	for _, t := range append(w.Implementations(ic), w.Implementations(isc)...) {
		rows := builtinSpecs[t.Obj().Name()]
		if rows == nil {
			continue
		}
		for i := range rows {
			row := &rows[i]
			if row.Setter == "" {
				continue
			}
			fn := w.MethodImpl(t, row.Setter)
			if fn == nil || len(fn.Params) != 2 {
				r.Undecide("C11-Q1", t.Obj().Name()+"."+row.Setter, "-", "setter not found")
				continue
			}
			if row.Rule == ruleComponents {
				c11ComponentsSetter(w, r, t, fn, row)
				continue
			}
			c11Setter(w, r, t, fn, row)
		}
	}
	// Q5/Q6: container
	c11Container(w, r)
	// lazy-container premises
	c11LazyPremises(w, r, ic)

	r.Floor("C11-Q1", 23)
	r.Floor("C11-Q2", 23)
	r.Floor("C11-Q3", 23)
	r.Floor("C11-Q4", 23)
	r.Floor("C11-Q6", 2)
	r.Floor("C11-Q7", 1)
	// Q8: "after success the getter returns that value" for as long as the
	// object lives: what the setter stored is the object's own memory, never
	// memory shared with other objects through a package-level variable
	ruleSettersStoreOwnedMemory(w, r, "C11-Q8")
	r.Floor("C11-Q8", 20)
	return info
}

func c11Setter(w *World, r *Recorder, t *types.Named, fn *ssa.Function, row *claimRow) {
	key := t.Obj().Name() + "." + row.Setter
	recv, val := fn.Params[0].Name(), fn.Params[1].Name()
	cn := &canon{w: w, recv: recv, val: val, field: row.Field, notes: map[string]string{}}
	got, paths, why := accessorCubes(w, fn, cn)
	if why != "" {
		r.Undecide("C11-Q1", key, w.FnPos(fn), why)
		return
	}
	r.Count("paths", len(paths))
	V := "*$." + row.Field
	want := ruleCubes(row.Rule, V, nil)
	mm, n, err := compareAccessor(got, want)
	r.Count("cells", n)
	if err != nil {
		r.Undecide("C11-Q1", key, w.FnPos(fn), err.Error())
		return
	}
	for g, note := range cn.notes {
		if strings.HasPrefix(note, "other") || strings.HasPrefix(note, "?") {
			mm = append(mm, "pattern "+g+" "+note)
		}
	}
	r.Check(len(mm) == 0, "C11-Q1", key, w.FnPos(fn),
		fmt.Sprintf("%d paths, %d cells: accepts exactly what the %s table (and hence the getter / Validate) accepts for %s", len(paths), n, t.Obj().Name(), row.Claim),
		"setter and validation disagree: "+joinLimited(mm, 3))

	own := "P:" + recv + "|." + row.Field
	ei := errIndex(fn)
	q2, q3, q4 := true, true, true
	var q2why, q3why, q4why string
	var q2pos, q3pos, q4pos ssa.Instruction
	for _, p := range paths {
		if p.Ret == nil {
			continue
		}
		tag := outcomeTag(p, ei)
		var stores []Event
		for _, ev := range p.St.events {
			switch {
			case ev.Kind == "store" && (strings.HasPrefix(ev.Loc, "P:"+recv+"|") || strings.HasPrefix(ev.Loc, "P:"+recv+".") || strings.HasPrefix(ev.Loc, "G:")):
				stores = append(stores, ev)
				if ev.Loc != own {
					q3, q3why, q3pos = false, "writes "+ev.Loc+" besides its own claim", ev.Instr
				}
			case ev.Kind == "store" && strings.HasPrefix(ev.Loc, "M:"):
				q3, q3why, q3pos = false, "updates a map: "+ev.Loc, ev.Instr
			case ev.Kind == "call" && ev.Unmodelled:
				q3, q3why, q3pos = false, "calls "+ev.Callee+", whose effects are not modelled", ev.Instr
			}
		}
		if tag != "ok" && len(stores) > 0 {
			q2, q2why, q2pos = false, fmt.Sprintf("a failing path (%s) has already stored %s", p.St.Describe(), stores[0].Loc), stores[0].Instr
		}
		if tag == "ok" {
			if len(stores) != 1 || stores[0].Loc != own {
				q4, q4why, q4pos = false, fmt.Sprintf("a successful path performs %d stores; expected exactly one, to %s", len(stores), own), p.Ret
				continue
			}
			sv := stores[0].Val
			okv := false
			desc := sv.name()
			if sv.Kind == KAddr {
				if content, has := p.St.mem[sv.Loc]; has {
					desc = "&(" + content.name() + ")"
					switch {
					case content.name() == val:
						okv = true
					case content.Kind == KLin && content.Term == val && content.K == 0:
						okv = true
					case content.Kind == KSym && content.Sym == "nonce1("+val+")":
						okv = true
					}
				}
			}
			if !okv {
				q4, q4why, q4pos = false, "the value stored is "+desc+", not (a copy of) the argument "+val, stores[0].Instr
			}
		}
	}
	pos := func(in ssa.Instruction) string {
		if in == nil {
			return w.FnPos(fn)
		}
		return w.InstrPos(in)
	}
	r.Check(q2, "C11-Q2", key, pos(q2pos), "no store on any failing path (validate, then assign)", q2why)
	r.Check(q3, "C11-Q3", key, pos(q3pos), "writes only "+own, q3why)
	r.Check(q4, "C11-Q4", key, pos(q4pos), "stores exactly the argument (pure overwrite, independent of earlier state)", q4why)
}

// c11ComponentsSetter: Q1/Q2/Q3/Q7 for SetSoftwareComponents.
func c11ComponentsSetter(w *World, r *Recorder, t *types.Named, fn *ssa.Function, row *claimRow) {
	key := t.Obj().Name() + "." + row.Setter
	recv, val := fn.Params[0].Name(), fn.Params[1].Name()
	s := w.Summarise(fn)
	r.Count("paths", len(s.Paths))
	if ok, why := s.Complete(); !ok {
		r.Undecide("C11-Q7", key, w.FnPos(fn), why)
		return
	}
	isP1 := t.Obj().Name() == "P1Claims"
	own := "P:" + recv + "|." + row.Field
	flag := "P:" + recv + "|.NoSwMeasurements"
	bad := func(rule, why string, in ssa.Instruction) {
		pos := w.FnPos(fn)
		if in != nil {
			pos = w.InstrPos(in)
		}
		r.Refute(rule, key, pos, why)
	}
	okAll := true
	for _, p := range s.Paths {
		if p.Ret == nil {
			bad("C11-Q2", "a path panics: "+p.St.Describe(), nil)
			okAll = false
			continue
		}
		_, nl := errOf(p, 0)
		nilList := false
		if b, has := p.St.atoms["nil("+val+")"]; has && b {
			nilList = true
		}
		// classify events
		var replace *Event
		var stores []Event
		lazy := false
		for i := range p.St.events {
			ev := p.St.events[i]
			switch {
			case ev.Kind == "store" && strings.HasPrefix(ev.Loc, "P:"+recv):
				stores = append(stores, ev)
			case (ev.Kind == "call" || ev.Kind == "enter") && ev.Method != "" && baseNameOfEvent(ev) == "Replace":
				e := ev
				replace = &e
			case ev.Kind == "call" && baseNameOfEvent(ev) == "Add":
				bad("C11-Q5", "the component setter appends (Add) instead of replacing", ev.Instr)
				okAll = false
			}
		}
		switch {
		case nilList && isP1:
			// Q7: flag set, container nil
			flagSet, listNil := false, false
			for _, st := range stores {
				if st.Loc == flag && st.Val.Kind == KAddr {
					if c, has := p.St.mem[st.Val.Loc]; has && c.Kind == KInt && c.K == 1 {
						flagSet = true
					}
				}
				if st.Loc == own && st.Val.Kind == KNil {
					listNil = true
				}
				if st.Loc != flag && st.Loc != own {
					bad("C11-Q3", "writes "+st.Loc, st.Instr)
					okAll = false
				}
			}
			if nl != -1 || !flagSet || !listNil {
				bad("C11-Q7", fmt.Sprintf("nil list must set the no-measurements flag to 1 and clear the list (flag=%v list-nil=%v)", flagSet, listNil), p.Ret)
				okAll = false
			}
		default:
			if replace == nil {
				bad("C11-Q1", "a non-nil list is not handed to the container's Replace (validation of the elements is skipped)", p.Ret)
				okAll = false
				continue
			}
			// Replace must act on the claim's container with the argument
			rargs := replace.Args
			var rrecv string
			if replace.Recv != nil {
				rrecv = avSubject(*replace.Recv)
			} else if len(rargs) > 0 {
				rrecv = avSubject(rargs[0])
				rargs = rargs[1:]
			}
			if replace.Recv != nil && replace.Static != nil && len(rargs) == len(replace.Static.Params) && len(rargs) > 1 {
				rargs = rargs[1:] // a static (not inlined) call lists the receiver among its arguments too
			}
			if len(rargs) != 1 || rargs[0].name() != val {
				bad("C11-Q4", "Replace is not given the setter's argument", replace.Instr)
				okAll = false
			}
			contOK := rrecv == recv+"."+row.Field
			for _, st := range stores {
				if st.Loc == own && st.Val.Kind == KIface && st.Val.Inner != nil && rrecv == st.Val.Inner.name() {
					contOK, lazy = true, true
				}
				if st.Loc == own && st.Val.Kind == KIface && st.Val.Inner != nil && rrecv == strings.TrimPrefix(st.Val.Inner.name(), "&") {
					contOK, lazy = true, true
				}
			}
			if !contOK {
				bad("C11-Q3", "Replace acts on "+rrecv+", not on the claim's own container", replace.Instr)
				okAll = false
			}
			for _, st := range stores {
				switch {
				case st.Loc == own && lazy:
					// lazy container: only when the field was nil, fresh empty container
					if b, has := p.St.atoms["nil("+recv+"."+row.Field+")"]; !has || !b {
						bad("C11-Q2", "the container field is overwritten although it was not nil", st.Instr)
						okAll = false
					}
				case st.Loc == flag && isP1 && st.Val.Kind == KNil && nl == -1:
				case strings.HasPrefix(st.Loc, own+"|") || strings.HasPrefix(st.Loc, "P:"+rrecv+"|") || strings.HasPrefix(st.Loc, strings.TrimPrefix(rrecv, "&")+"|"):
					// the inlined Replace writing the container's own slice
					if nl == 1 {
						bad("C11-Q2", "the container is modified on a failing path: "+st.Loc, st.Instr)
						okAll = false
					}
				default:
					if nl == 1 || st.Loc != own {
						bad("C11-Q2", fmt.Sprintf("store to %s on a path with outcome %d", st.Loc, nl), st.Instr)
						okAll = false
					}
				}
			}
			if isP1 && nl == -1 {
				cleared := false
				for _, st := range stores {
					if st.Loc == flag && st.Val.Kind == KNil {
						cleared = true
					}
				}
				if !cleared {
					bad("C11-Q7", "a successfully set list leaves the no-measurements flag in place", p.Ret)
					okAll = false
				}
			}
			// success requires Replace to have succeeded
			if nl != 1 {
				res := replace.Result
				if replace.Kind == "enter" {
					for _, ev := range p.St.events {
						if ev.Kind == "leave" && ev.Static == replace.Static && len(ev.Args) == 1 {
							res = ev.Args[0]
						}
					}
				}
				if nl == -1 && p.St.NilOf(res) != -1 {
					bad("C11-Q1", "the setter can succeed although Replace failed", p.Ret)
					okAll = false
				}
				if nl == 0 && p.Rets[0].name() != res.name() {
					bad("C11-Q1", "the setter does not return Replace's verdict", p.Ret)
					okAll = false
				}
			}
		}
	}
	if okAll {
		r.Prove("C11-Q1", key, w.FnPos(fn), "a non-nil list is accepted iff the container's Replace accepts it (element validation: Q6)", true)
		r.Prove("C11-Q2", key, w.FnPos(fn), "failing paths store nothing but the lazy empty container", true)
		r.Prove("C11-Q3", key, w.FnPos(fn), "writes only the list (and, profile 1, the flag)", true)
		r.Prove("C11-Q4", key, w.FnPos(fn), "Replace receives the argument itself", true)
		if isP1 {
			r.Prove("C11-Q7", key, w.FnPos(fn), "nil list ⇒ flag:=1 ∧ list:=nil; list set ⇒ flag:=nil", true)
		}
	}
}

func baseNameOfEvent(ev Event) string {
	if ev.Static != nil {
		return baseName(ev.Static)
	}
	return ev.Method
}

// c11Container: Q5/Q6 on the generic container's instantiations.
func c11Container(w *World, r *Recorder) {
	for _, fn := range w.Funcs {
		if len(fn.TypeArgs()) == 0 {
			continue
		}
		isConv, src := c11IsConverter(w, fn)
		switch {
		case isConv:
			rep := validatingWalk(w, fn, func(s ssa.Value) bool { return s == ssa.Value(src) }, true)
			pos := w.FnPos(fn)
			if rep.Pos != nil {
				pos = w.InstrPos(rep.Pos)
			}
			r.Check(rep.OK, "C11-Q6", fnKey(fn), pos, rep.Detail+"; elements copied index for index", "converter walk: "+rep.Why)
			if ef := w.Effects()[fn]; ef != nil {
				r.Check(!ef.Writes(), "C11-Q6", fnKey(fn)+"#pure", w.FnPos(fn), "the converter writes nothing its caller can see (it builds a fresh slice)",
					"the converter writes memory reachable from its arguments while it is still validating: a later invalid element leaves the caller's data half-overwritten")
			}
		case baseName(fn) == "Replace" || baseName(fn) == "Add":
			if fn.Signature.Recv() == nil || !strings.Contains(fn.Signature.Recv().Type().String(), "SwComponents[") {
				continue
			}
			if !c11CallsConverter(w, fn) {
				// no separate converter: the validate-and-convert walk is written
				// out in the method itself
				c11InlineConvert(w, r, fn)
				continue
			}
			s := w.Summarise(fn)
			if ok, why := s.Complete(); !ok {
				r.Undecide("C11-Q6", fnKey(fn), w.FnPos(fn), why)
				continue
			}
			recv, arg := fn.Params[0].Name(), fn.Params[1].Name()
			ok := true
			why := ""
			for _, p := range s.Paths {
				if p.Ret == nil {
					continue
				}
				_, nl := errOf(p, 0)
				var conv *Event
				var stores []Event
				otherStores := 0
				for i := range p.St.events {
					ev := p.St.events[i]
					if isC, _ := c11IsConverter(w, ev.Static); ev.Kind == "call" && ev.Static != nil && isC {
						conv = &p.St.events[i]
					}
					if ev.Kind == "store" && strings.HasPrefix(ev.Loc, "P:"+recv) {
						if ev.Loc == "P:"+recv+"|.values" {
							stores = append(stores, ev)
						} else {
							otherStores++ // bookkeeping fields of the container, not its contents
						}
					}
				}
				hasArg := false
				if conv != nil {
					for _, a := range conv.Args {
						if a.name() == arg {
							hasArg = true
						}
					}
				}
				if conv == nil || !hasArg {
					ok, why = false, "does not convert-and-validate its argument first"
					continue
				}
				cerr := resultElem(*conv, 1)
				switch nl {
				case 1:
					if len(stores)+otherStores > 0 {
						ok, why = false, "stores into the container on a failing path"
					}
				default:
					if p.St.NilOf(cerr) != -1 {
						ok, why = false, "can succeed although validation of the new elements failed"
					}
					if len(stores) != 1 || stores[0].Loc != "P:"+recv+"|.values" {
						ok, why = false, "success path does not perform exactly one store to the container's slice"
						continue
					}
					v := stores[0].Val.name()
					res0 := resultElem(*conv, 0).name()
					for _, extra := range conv.Args {
						if strings.Contains(extra.name(), recv+".values") {
							ok, why = false, "hands the container's live storage to the converter (a failing conversion overwrites stored elements)"
						}
					}
					if baseName(fn) == "Replace" && v != res0 && strings.HasPrefix(v, "makeslice(len("+res0+"))") {
						// an owned copy of the conversion: a fresh slice of its length,
						// filled by copy(fresh, conversion) on this path
						for _, ev := range p.St.events {
							if ev.Kind == "call" && ev.Callee == "builtin copy" && len(ev.Args) == 2 && ev.Args[0].name() == v && ev.Args[1].name() == res0 {
								v = res0
							}
						}
					}
					if baseName(fn) == "Replace" && v != res0 {
						ok, why = false, "Replace stores "+v+", not the validated conversion of its argument (must assign, not append)"
					}
					if baseName(fn) == "Add" && !(strings.HasPrefix(reAnyEpoch.ReplaceAllString(v, ""), "append("+recv+".values,") && strings.Contains(v, res0)) {
						ok, why = false, "Add stores "+v+", not the old contents followed by the validated new elements"
					}
				}
			}
			r.Check(ok, "C11-Q6", fnKey(fn), w.FnPos(fn), "validate-all, then one store; nothing stored on failure", why)
		}
	}
}

// c11IsConverter: by role, not by name — an in-repo function (not a method of
// the container) that takes a list of component interfaces and returns a list
// plus an error. Whether it does its job is judged by the walk rule.
func c11IsConverter(w *World, fn *ssa.Function) (bool, *ssa.Parameter) {
	if fn == nil || fn.Blocks == nil || !w.InRepo(fn) {
		return false, nil
	}
	// a function, or an unexported method of the container (same role, the
	// receiver being one more argument)
	if fn.Signature.Recv() != nil && ssaExported(fn) {
		return false, nil
	}
	res := fn.Signature.Results()
	if res.Len() != 2 || !types.Identical(res.At(1).Type(), types.Universe.Lookup("error").Type()) {
		return false, nil
	}
	if _, ok := res.At(0).Type().Underlying().(*types.Slice); !ok {
		return false, nil
	}
	for _, prm := range fn.Params {
		if sl, ok := prm.Type().Underlying().(*types.Slice); ok && types.IsInterface(sl.Elem()) && strings.HasSuffix(sl.Elem().String(), "ISwComponent") {
			return true, prm
		}
	}
	return false, nil
}

func c11CallsConverter(w *World, fn *ssa.Function) bool {
	for _, b := range fn.Blocks {
		for _, in := range b.Instrs {
			if c, ok := in.(ssa.CallInstruction); ok {
				if isC, _ := c11IsConverter(w, c.Common().StaticCallee()); isC {
					return true
				}
			}
		}
	}
	return false
}

// c11InlineConvert: Add / Replace that validate and convert their argument in
// their own body. Decided on the flow graph: (a) the walk over the argument is a
// validating walk that copies every element, index for index, into a fresh
// slice of the argument's length; (b) every store into the receiver lies after
// the walk has finished (dominated by the loop's exit block), so a failing
// element leaves the container untouched; (c) there is exactly one such store,
// to the contents field, of that fresh slice (Replace) or of the old contents
// with the fresh slice appended (Add); (d) nothing but the argument is walked.
func c11InlineConvert(w *World, r *Recorder, fn *ssa.Function) {
	key := fnKey(fn)
	var src *ssa.Parameter
	for _, prm := range fn.Params[1:] {
		if sl, ok := prm.Type().Underlying().(*types.Slice); ok && types.IsInterface(sl.Elem()) {
			src = prm
		}
	}
	if src == nil {
		r.Undecide("C11-Q6", key, w.FnPos(fn), "no component-list parameter")
		return
	}
	rep := validatingWalkOpt(w, fn, func(s ssa.Value) bool { return s == ssa.Value(src) }, true, true)
	if !rep.OK {
		pos := w.FnPos(fn)
		if rep.Pos != nil {
			pos = w.InstrPos(rep.Pos)
		}
		r.Refute("C11-Q6", key, pos, "in-method convert-and-validate walk: "+rep.Why)
		return
	}
	var loop *SliceLoop
	for _, sl := range sliceLoops(fn) {
		sl := sl
		if sl.S == ssa.Value(src) {
			loop = &sl
		}
	}
	recv := fn.Params[0]
	var stores []*ssa.Store
	why := ""
	for _, b := range fn.Blocks {
		for _, in := range b.Instrs {
			st, ok := in.(*ssa.Store)
			if !ok {
				continue
			}
			fa, ok := st.Addr.(*ssa.FieldAddr)
			if !ok || fa.X != ssa.Value(recv) {
				continue
			}
			if !loop.Done.Dominates(b) {
				why = "the container is written before the walk over the new elements has finished (a later invalid element leaves it changed)"
			}
			if fieldName(fa.X.Type(), fa.Field) == "values" {
				stores = append(stores, st)
			}
		}
	}
	if why == "" && len(stores) != 1 {
		why = fmt.Sprintf("%d stores to the container's contents (want exactly one, after the walk)", len(stores))
	}
	if why == "" {
		v := stores[0].Val
		ms := rep.Fresh
		switch baseName(fn) {
		case "Replace":
			if v != ms {
				why = "Replace stores something other than the freshly converted list (must assign, not append)"
			}
		case "Add":
			okAdd := false
			if c, ok := v.(*ssa.Call); ok {
				if b, isB := c.Call.Value.(*ssa.Builtin); isB && b.Name() == "append" && len(c.Call.Args) == 2 && c.Call.Args[1] == ms {
					if ld, ok := c.Call.Args[0].(*ssa.UnOp); ok {
						if fa, ok := ld.X.(*ssa.FieldAddr); ok && fa.X == ssa.Value(recv) && fieldName(fa.X.Type(), fa.Field) == "values" {
							okAdd = true
						}
					}
				}
			}
			if !okAdd {
				why = "Add stores something other than the old contents followed by the freshly converted elements"
			}
		}
	}
	r.Check(why == "", "C11-Q6", key, w.FnPos(fn), "in-method walk validates and converts every new element into a fresh slice; the single store to the contents comes after the walk; nothing stored on failure", why)
}

// c11LazyPremises: nil and empty container are indistinguishable to every
// observer, so storing a fresh empty container is not an observable change.
func c11LazyPremises(w *World, r *Recorder, ic *types.Interface) {
	for _, t := range w.Implementations(ic) {
		rows := builtinSpecs[t.Obj().Name()]
		if rows == nil {
			continue
		}
		for i := range rows {
			if rows[i].Rule != ruleComponents {
				continue
			}
			fn := w.MethodImpl(t, rows[i].Getter)
			if fn == nil {
				continue
			}
			sub := NewRecorder(r.Property)
			c01ComponentsGetter(w, sub, t, fn, &rows[i])
			ok := len(sub.Obs) > 0
			for _, o := range sub.Obs {
				if o.Verdict != Proved {
					ok = false
				}
			}
			r.Check(ok, "C11-lazy", t.Obj().Name()+".getter-treats-nil-and-empty-alike", w.FnPos(fn), "component getter's outcome is the same for a nil and an empty container (C01-R2 cubes)", "premise of the lazy-container exception fails: the component getter distinguishes nil from empty")
		}
		// marshal methods nil-out an empty container (profile 1) or have no custom marshal (profile 2: nil and empty container both encode through the container's own Marshal of a nil slice)
		for _, m := range []string{"MarshalCBOR", "MarshalJSON"} {
			fn := w.MethodImpl(t, m)
			if fn == nil {
				continue
			}
			s := w.Summarise(fn)
			if ok, why := s.Complete(); !ok {
				r.Undecide("C11-lazy", t.Obj().Name()+"."+m, w.FnPos(fn), why)
				continue
			}
			ok := true
			for _, p := range s.Paths {
				empty := false
				for a, b := range p.St.atoms {
					if b && strings.Contains(a, ".IsEmpty#") {
						empty = true
					}
				}
				if !empty {
					continue
				}
				nilled := false
				for loc, v := range p.St.mem {
					if strings.HasSuffix(loc, "|.SwComponents") && isLocal(loc) && v.Kind == KNil {
						nilled = true
					}
				}
				if !nilled {
					ok = false
				}
			}
			r.Check(ok, "C11-lazy", t.Obj().Name()+"."+m+"-nils-empty-container", w.FnPos(fn), "an empty container is replaced by nil in the copy that is encoded", "premise of the lazy-container exception fails: "+m+" encodes an empty container differently from a nil one")
		}
	}
}
