package main

// E6 — wire schema of the claim structs (struct tags and Go wire kinds), and
// the option literals of the shared CBOR modes.

import (
	"fmt"
	"go/constant"
	"go/token"
	"go/types"
	"reflect"
	"strconv"
	"strings"

	"golang.org/x/tools/go/ssa"
)

type FieldSchema struct {
	Name      string
	Type      types.Type
	HasCBOR   bool
	CBORKey   string
	KeyAsInt  bool
	CBOROmit  bool
	ToArray   bool
	CBOROpts  []string
	HasJSON   bool
	JSONName  string
	JSONOmit  bool
	JSONOpts  []string
	Kind      string
	Embedded  bool
	Exported  bool
	RawTag    string
	OtherTags bool
}

func parseTagOpts(v string) (name string, opts []string) {
	parts := strings.Split(v, ",")
	return parts[0], parts[1:]
}

func hasOpt(opts []string, o string) bool {
	for _, x := range opts {
		if x == o {
			return true
		}
	}
	return false
}

func structSchema(st *types.Struct) []FieldSchema {
	var out []FieldSchema
	for i := 0; i < st.NumFields(); i++ {
		f := st.Field(i)
		tag := reflect.StructTag(st.Tag(i))
		fs := FieldSchema{Name: f.Name(), Type: f.Type(), Embedded: f.Embedded(), Exported: f.Exported(), RawTag: st.Tag(i)}
		if v, ok := tag.Lookup("cbor"); ok {
			fs.HasCBOR = true
			fs.CBORKey, fs.CBOROpts = parseTagOpts(v)
			fs.KeyAsInt = hasOpt(fs.CBOROpts, "keyasint")
			fs.CBOROmit = hasOpt(fs.CBOROpts, "omitempty")
			fs.ToArray = hasOpt(fs.CBOROpts, "toarray")
		}
		if v, ok := tag.Lookup("json"); ok {
			fs.HasJSON = true
			fs.JSONName, fs.JSONOpts = parseTagOpts(v)
			fs.JSONOmit = hasOpt(fs.JSONOpts, "omitempty")
		}
		fs.Kind = wireKind(f.Type())
		out = append(out, fs)
	}
	return out
}

func qualName(t types.Type) string {
	if n, ok := t.(*types.Named); ok {
		if n.Obj().Pkg() != nil {
			p := n.Obj().Pkg().Path()
			if i := strings.LastIndex(p, "/"); i >= 0 {
				p = p[i+1:]
			}
			return p + "." + n.Obj().Name()
		}
		return n.Obj().Name()
	}
	return t.String()
}

// wireKind names how a field's Go type appears on the wire.
func wireKind(t types.Type) string {
	if p, ok := t.(*types.Pointer); ok {
		el := p.Elem()
		if n, ok := el.(*types.Named); ok {
			return qualName(n) // eat.Nonce, eat.UEID, eat.Profile, …
		}
		switch u := el.(type) {
		case *types.Basic:
			switch u.Kind() {
			case types.String:
				return "text"
			case types.Int32:
				return "int32"
			case types.Uint16:
				return "uint16"
			case types.Uint:
				return "uint"
			default:
				return "basic:" + u.Name()
			}
		case *types.Slice:
			if b, ok := u.Elem().(*types.Basic); ok && b.Kind() == types.Uint8 {
				return "bytes"
			}
			return "slice:" + u.Elem().String()
		}
		return "ptr:" + el.String()
	}
	if n, ok := t.(*types.Named); ok {
		if types.IsInterface(n) && n.Obj().Name() == "ISwComponents" {
			return "components"
		}
		return "value:" + qualName(n)
	}
	switch t.Underlying().(type) {
	case *types.Map:
		return "map"
	case *types.Basic:
		return "value:" + t.String()
	}
	return "other:" + t.String()
}

func nilableKind(t types.Type) bool {
	switch t.Underlying().(type) {
	case *types.Pointer, *types.Interface:
		return true
	}
	return false
}

// ---- option literals ----

type OptionLiteral struct {
	Fn     *ssa.Function
	Type   *types.Named
	Fields map[string]constant.Value // fields set by constant stores
	Other  []string                  // fields set to non-constants
	Call   *ssa.Call                 // the EncMode()/DecMode() call
}

// optionLiterals finds, in in-repo functions, local values of the named
// struct type (e.g. cbor.DecOptions) and the constant stores into them.
func (w *World) optionLiterals(typeName string) []OptionLiteral {
	var out []OptionLiteral
	for _, fn := range w.Funcs {
		for _, b := range fn.Blocks {
			for _, in := range b.Instrs {
				al, ok := in.(*ssa.Alloc)
				if !ok {
					continue
				}
				n, ok := al.Type().Underlying().(*types.Pointer).Elem().(*types.Named)
				if !ok || n.Obj().Pkg() == nil || n.Obj().Pkg().Path() != pCBOR || n.Obj().Name() != typeName {
					continue
				}
				ol := OptionLiteral{Fn: fn, Type: n, Fields: map[string]constant.Value{}}
				st := n.Underlying().(*types.Struct)
				for _, ref := range *al.Referrers() {
					switch x := ref.(type) {
					case *ssa.FieldAddr:
						fname := st.Field(x.Field).Name()
						for _, r2 := range *x.Referrers() {
							if s, ok := r2.(*ssa.Store); ok && s.Addr == x {
								if c, ok := s.Val.(*ssa.Const); ok && c.Value != nil {
									ol.Fields[fname] = c.Value
								} else if ok && c.Value == nil {
									// the zero value of a pointer / interface field: the default
								} else {
									ol.Other = append(ol.Other, fname)
								}
							} else if _, isLoad := r2.(*ssa.UnOp); !isLoad {
								ol.Other = append(ol.Other, fname+"(address used)")
							}
						}
					case *ssa.Store:
						if x.Addr == ssa.Value(al) {
							if c, ok := x.Val.(*ssa.Const); !ok || c.Value != nil {
								ol.Other = append(ol.Other, "(whole value assigned)")
							}
						}
					case *ssa.UnOp, *ssa.DebugRef:
					default:
						ol.Other = append(ol.Other, fmt.Sprintf("(escapes: %T)", ref))
					}
				}
				out = append(out, ol)
			}
		}
	}
	// option values kept in package-level variables that only the package
	// initialiser writes
	for _, pkg := range []*ssa.Package{w.Root, w.Enc} {
		init := pkg.Func("init")
		for _, m := range pkg.Members {
			g, ok := m.(*ssa.Global)
			if !ok || init == nil {
				continue
			}
			n, ok := g.Type().(*types.Pointer).Elem().(*types.Named)
			if !ok || n.Obj().Pkg() == nil || n.Obj().Pkg().Path() != pCBOR || n.Obj().Name() != typeName {
				continue
			}
			ol := OptionLiteral{Fn: init, Type: n, Fields: map[string]constant.Value{}}
			if !w.readOnlyOutsideInit(g) {
				ol.Other = append(ol.Other, "(package-level options written or address-taken outside the initialiser)")
			}
			st := n.Underlying().(*types.Struct)
			for _, b := range init.Blocks {
				for _, in := range b.Instrs {
					sto, ok := in.(*ssa.Store)
					if !ok {
						continue
					}
					if sto.Addr == ssa.Value(g) {
						if c, ok := sto.Val.(*ssa.Const); !ok || c.Value != nil {
							ol.Other = append(ol.Other, "(whole value assigned)")
						}
						continue
					}
					fa, ok := sto.Addr.(*ssa.FieldAddr)
					if !ok || fa.X != ssa.Value(g) {
						continue
					}
					fname := st.Field(fa.Field).Name()
					if c, ok := sto.Val.(*ssa.Const); ok && c.Value != nil {
						ol.Fields[fname] = c.Value
					} else if !ok {
						ol.Other = append(ol.Other, fname)
					}
				}
			}
			out = append(out, ol)
		}
	}
	return out
}

// cborConst resolves an exported constant of the cbor package by name.
func (w *World) cborConst(name string) (constant.Value, bool) {
	for _, imp := range w.Root.Pkg.Imports() {
		if imp.Path() == pCBOR {
			if c, ok := imp.Scope().Lookup(name).(*types.Const); ok {
				return c.Val(), true
			}
		}
	}
	return nil, false
}

func constEq(a, b constant.Value) bool {
	return a != nil && b != nil && constant.Compare(a, token.EQL, b)
}

func keyInt(s string) (int64, bool) {
	k, err := strconv.ParseInt(s, 10, 64)
	return k, err == nil
}
