package main

// C14 — security-lifecycle values map to the specified state, totally.
// Exact partition of all 65 536 inputs by interval abstract interpretation of
// the mapping, validity, name and validator functions, and of both profiles'
// lifecycle setters and getters.

import (
	"fmt"
	"go/types"
	"strconv"
	"strings"

	"golang.org/x/tools/go/ssa"
)

type lcRow struct {
	lo, hi int64
	state  string // exported constant name
	name   string // specified string
}

var lifecycleSpec = []lcRow{
	{0x0000, 0x00ff, "StateUnknown", "unknown"},
	{0x1000, 0x10ff, "StateAssemblyAndTest", "assembly-and-test"},
	{0x2000, 0x20ff, "StatePSAROTProvisioning", "psa-rot-provisioning"},
	{0x3000, 0x30ff, "StateSecured", "secured"},
	{0x4000, 0x40ff, "StateNonPSAROTDebug", "non-psa-rot-debug"},
	{0x5000, 0x50ff, "StateRecoverablePSAROTDebug", "recoverable-psa-rot-debug"},
	{0x6000, 0x60ff, "StateDecommissioned", "decommissioned"},
}

func lifecycleValidSet() iset {
	var s iset
	for _, r := range lifecycleSpec {
		s = append(s, iv{r.lo, r.hi})
	}
	return norm(s)
}

func init() { register("C14", checkC14) }

func checkC14(w *World, r *Recorder) propInfo {
	info := propInfo{
		Explanation: "Interval abstract interpretation (trace-partitioned, callees inlined) of LifeCycleToState, LifeCycleState.IsValid/String, ValidateSecurityLifeCycle and of every IClaims implementation's Set/GetSecurityLifeCycle, over the SSA of the current tree. The result is an exact partition of the uint16 domain into cells with one outcome each; it is compared cell by cell with the specified table (seven 256-value ranges -> named state, everything else -> invalid; accept iff not invalid; specified names). All 65 536 values are covered by construction (the cells are checked to cover [0,65535]). Not decided: nothing of the statement is left out for in-repo code; the run-time behaviour of fmt.Errorf is modelled (always non-nil).",
		Rule:        "one obligation per spec row / function; non-trivial = decided by the interval engine (cells compared)",
		Trusted:     []string{"go/packages+go/types+go/ssa (x/tools v0.29.0)", "checker's interval transfer functions", "model: fmt.Errorf returns a non-nil error"},
		Assumptions: []string{"amd64 integer sizes", "exported constant names StateUnknown..StateInvalid denote the specified states"},
		Exhaustive:  true, // the cells are checked to cover all 65 536 values
	}
	root := w.Root
	valid := lifecycleValidSet()
	dom := iset{{0, 65535}}

	// state constants
	stateVal := map[string]int64{}
	for _, row := range lifecycleSpec {
		v, ok := w.constInt(root, row.state)
		if !ok {
			r.Undecide("C14-anchor", "const "+row.state, "-", "exported state constant not found")
			return info
		}
		stateVal[row.state] = v
	}
	invalidVal, ok := w.constInt(root, "StateInvalid")
	if !ok {
		r.Undecide("C14-anchor", "const StateInvalid", "-", "exported state constant not found")
		return info
	}
	// distinctness of state constants
	seen := map[int64]string{}
	distinct := true
	for n, v := range stateVal {
		if o, dup := seen[v]; dup {
			r.Refute("C14-states", "distinct("+n+","+o+")", "-", fmt.Sprintf("state constants %s and %s share value %d", n, o, v))
			distinct = false
		}
		seen[v] = n
	}
	if _, dup := seen[invalidVal]; dup {
		r.Refute("C14-states", "distinct(StateInvalid)", "-", "StateInvalid equals a valid state constant")
		distinct = false
	}
	if distinct {
		r.Prove("C14-states", "distinct", "-", "8 state constants pairwise distinct", false)
	}

	// ---- M: LifeCycleToState ----
	if fn := root.Func("LifeCycleToState"); fn == nil || len(fn.Params) != 1 {
		r.Undecide("C14-anchor", "func LifeCycleToState", "-", "not found or unexpected signature")
	} else {
		s := w.Summarise(fn)
		r.Count("paths", len(s.Paths))
		r.Count("engine_steps", s.Steps)
		if ok, why := s.Complete(); !ok {
			r.Undecide("C14-map", "LifeCycleToState", w.FnPos(fn), why)
		} else {
			term := fn.Params[0].Name()
			byState := map[int64]iset{}
			covered := iset{}
			bad := false
			for _, p := range s.Paths {
				if p.Panic != nil {
					r.Refute("C14-map", "LifeCycleToState#panic", w.InstrPos(p.Panic), "a path panics: "+p.St.Describe())
					bad = true
					continue
				}
				set, okT := p.St.terms[term]
				if !okT {
					set = dom
				}
				set = inter(set, dom)
				if len(p.Rets) == 1 && p.Rets[0].Kind == KLin {
					// a result computed from the argument ("base + v>>12"): constant on each
					// block of the argument, so the path splits into one cell per block
					if cells, okC := shiftCells(p.Rets[0], term, set); okC {
						for k, c := range cells {
							byState[k] = union(byState[k], c)
						}
						covered = union(covered, set)
						continue
					}
				}
				if len(p.Rets) != 1 || p.Rets[0].Kind != KInt {
					r.Undecide("C14-map", "LifeCycleToState#result", w.InstrPos(p.Ret), fmt.Sprintf("result %s for %s is not a constant state", p.Rets, set))
					bad = true
					continue
				}
				byState[p.Rets[0].K] = union(byState[p.Rets[0].K], set)
				covered = union(covered, set)
			}
			if !bad {
				r.Check(covered.equal(dom), "C14-map", "LifeCycleToState#total", w.FnPos(fn),
					fmt.Sprintf("%d path cells cover %s", len(s.Paths), covered), fmt.Sprintf("cells cover %s, not all of [0,65535]", covered))
				rest := dom
				for _, row := range lifecycleSpec {
					want := iset{{row.lo, row.hi}}
					got := byState[stateVal[row.state]]
					r.Check(got.equal(want), "C14-map", fmt.Sprintf("LifeCycleToState#%s", row.state), w.FnPos(fn),
						fmt.Sprintf("pre-image of %s is exactly %s", row.state, got),
						fmt.Sprintf("pre-image of %s is %s, specified [%#04x,%#04x] = %s", row.state, got, row.lo, row.hi, want))
					rest = minus(rest, want)
				}
				got := byState[invalidVal]
				r.Check(got.equal(rest), "C14-map", "LifeCycleToState#StateInvalid", w.FnPos(fn),
					fmt.Sprintf("pre-image of StateInvalid is exactly the complement %s", got),
					fmt.Sprintf("pre-image of StateInvalid is %s, specified %s", got, rest))
				for k, set := range byState {
					if _, known := seen[k]; !known && k != invalidVal {
						r.Refute("C14-map", fmt.Sprintf("LifeCycleToState#unknown-state-%d", k), w.FnPos(fn), fmt.Sprintf("values %s map to %d, which is no declared state", set, k))
					}
				}
			}
		}
	}

	lcs := w.NamedType(root, "LifeCycleState")
	if lcs == nil {
		r.Undecide("C14-anchor", "type LifeCycleState", "-", "not found")
		return info
	}
	stDom := typeRange(lcs)

	// ---- V: IsValid ----
	if fn := w.MethodImpl(lcs, "IsValid"); fn == nil {
		r.Undecide("C14-anchor", "LifeCycleState.IsValid", "-", "not found")
	} else {
		s := w.Summarise(fn)
		r.Count("paths", len(s.Paths))
		if ok, why := s.Complete(); !ok {
			r.Undecide("C14-valid", "IsValid", w.FnPos(fn), why)
		} else {
			term := fn.Params[0].Name()
			trueSet := iset{}
			okAll := true
			for _, p := range s.Paths {
				set, okT := p.St.terms[term]
				if !okT {
					set = stDom
				}
				if len(p.Rets) != 1 {
					okAll = false
					continue
				}
				switch a := p.Rets[0]; a.Kind {
				case KBool:
					if a.B {
						trueSet = union(trueSet, set)
					}
				case KCmp:
					if a.Term != term {
						okAll = false
					} else {
						trueSet = union(trueSet, inter(set, cmpSet(a.Op, a.K)))
					}
				default:
					okAll = false
				}
			}
			want := iset{}
			for _, v := range stateVal {
				want = union(want, iset{{v, v}})
			}
			if !okAll {
				r.Undecide("C14-valid", "IsValid", w.FnPos(fn), "result is not a decided predicate of the receiver")
			} else {
				r.Check(trueSet.equal(want), "C14-valid", "IsValid", w.FnPos(fn),
					fmt.Sprintf("IsValid is true exactly for %s (the seven named states)", trueSet),
					fmt.Sprintf("IsValid is true for %s, specified: exactly the seven named states %s", trueSet, want))
			}
		}
	}

	// ---- N: String ----
	if fn := w.MethodImpl(lcs, "String"); fn == nil {
		r.Undecide("C14-anchor", "LifeCycleState.String", "-", "not found")
	} else {
		s := w.Summarise(fn)
		r.Count("paths", len(s.Paths))
		if ok, why := s.Complete(); !ok {
			r.Undecide("C14-name", "String", w.FnPos(fn), why)
		} else {
			term := fn.Params[0].Name()
			names := map[string]iset{}
			okAll := true
			for _, p := range s.Paths {
				set, okT := p.St.terms[term]
				if !okT {
					set = stDom
				}
				if len(p.Rets) != 1 || p.Rets[0].Kind != KStr {
					okAll = false
					r.Undecide("C14-name", "String#result", w.InstrPos(p.Ret), fmt.Sprintf("result for %s is not a constant string", set))
					continue
				}
				names[p.Rets[0].S] = union(names[p.Rets[0].S], set)
			}
			if okAll {
				for _, row := range lifecycleSpec {
					v := stateVal[row.state]
					got := names[row.name]
					r.Check(got.equal(iset{{v, v}}), "C14-name", "String#"+row.state, w.FnPos(fn),
						fmt.Sprintf("%q is returned exactly for %s", row.name, row.state),
						fmt.Sprintf("%q is returned for %s, specified: exactly for %s (=%d)", row.name, got, row.state, v))
				}
			}
		}
	}

	// ---- L: ValidateSecurityLifeCycle ----
	if fn := root.Func("ValidateSecurityLifeCycle"); fn == nil || len(fn.Params) != 1 {
		r.Undecide("C14-anchor", "func ValidateSecurityLifeCycle", "-", "not found")
	} else {
		c14Accept(w, r, "C14-validate", fn, fn.Params[0].Name(), "", dom, valid)
	}

	// ---- A: setters and getters of every IClaims implementation ----
	ic := w.iface(root, "IClaims")
	if ic == nil {
		r.Undecide("C14-anchor", "interface IClaims", "-", "not found")
		return info
	}
	impls := w.Implementations(ic)
	r.Count("iclaims_implementations", len(impls))
	for _, t := range impls {
		if set := w.MethodImpl(t, "SetSecurityLifeCycle"); set == nil || len(set.Params) != 2 {
			r.Undecide("C14-accessor", t.Obj().Name()+".SetSecurityLifeCycle", "-", "method not found")
		} else {
			c14Accept(w, r, "C14-accessor", set, set.Params[1].Name(), "", dom, valid)
		}
		if get := w.MethodImpl(t, "GetSecurityLifeCycle"); get == nil {
			r.Undecide("C14-accessor", t.Obj().Name()+".GetSecurityLifeCycle", "-", "method not found")
		} else {
			c14Getter(w, r, get, dom, valid)
		}
	}
	// a value the setter rejects is not stored (the failing paths of the two
	// lifecycle setters write nothing — C11-Q2 restricted to them): otherwise a
	// claims object built through setters alone can hold a value that maps to
	// the invalid state
	importRules(w, r, checkC11, "C14-rejected", func(o *Oblig) bool {
		return o.Rule == "C11-Q2" && strings.Contains(o.Construct, "SetSecurityLifeCycle")
	})
	r.Floor("C14-map", 1)
	r.Floor("C14-name", 1)
	r.Floor("C14-accessor", 4)
	r.Floor("C14-validate", 1)
	r.Floor("C14-valid", 1)
	return info
}

// c14Accept: the set of values of `term` on paths returning a nil error must
// equal `valid`, the set on paths returning a non-nil error its complement,
// and no path may be of unknown outcome. If nilAtom is non-empty, paths under
// that atom (pointer absent) are required to fail.
func c14Accept(w *World, r *Recorder, rule string, fn *ssa.Function, term, nilAtom string, dom, valid iset) {
	key := fnKey(fn)
	s := w.Summarise(fn)
	r.Count("paths", len(s.Paths))
	r.Count("engine_steps", s.Steps)
	if ok, why := s.Complete(); !ok {
		r.Undecide(rule, key, w.FnPos(fn), why)
		return
	}
	ei := errIndex(fn)
	accept, reject := iset{}, iset{}
	for _, p := range s.Paths {
		if p.Panic != nil {
			r.Refute(rule, key+"#panic", w.InstrPos(p.Panic), "a path panics: "+p.St.Describe())
			return
		}
		set, okT := p.St.terms[term]
		if !okT {
			set = dom
		}
		set = inter(set, dom)
		_, nl := errOf(p, ei)
		if nilAtom != "" {
			if b, has := p.St.atoms[nilAtom]; has && b {
				if nl != 1 {
					r.Refute(rule, key+"#absent", w.InstrPos(p.Ret), "claim absent but the getter does not fail")
					return
				}
				continue
			}
		}
		switch nl {
		case -1:
			accept = union(accept, set)
		case 1:
			reject = union(reject, set)
		default:
			r.Undecide(rule, key, w.InstrPos(p.Ret), fmt.Sprintf("cannot tell whether the error returned for %s is nil (%s)", set, p.Rets[ei]))
			return
		}
	}
	ok := accept.equal(valid) && reject.equal(minus(dom, valid))
	r.Check(ok, rule, key, w.FnPos(fn),
		fmt.Sprintf("accepts exactly %s, rejects exactly the complement (%d paths)", accept, len(s.Paths)),
		fmt.Sprintf("accepts %s and rejects %s; specified: accept exactly %s", accept, reject, valid))
}

func c14Getter(w *World, r *Recorder, fn *ssa.Function, dom, valid iset) {
	key := fnKey(fn)
	s := w.Summarise(fn)
	if ok, why := s.Complete(); !ok {
		r.Undecide("C14-accessor", key, w.FnPos(fn), why)
		return
	}
	ei := errIndex(fn)
	// the term of interest is what successful paths return
	term := ""
	for _, p := range s.Paths {
		if p.Ret == nil {
			continue
		}
		if _, nl := errOf(p, ei); nl == -1 {
			a := p.Rets[0]
			if a.Kind != KLin || a.K != 0 {
				r.Refute("C14-accessor", key+"#value", w.InstrPos(p.Ret), fmt.Sprintf("successful path returns %s, not the stored claim value", a))
				return
			}
			if term != "" && term != a.Term {
				r.Refute("C14-accessor", key+"#value", w.InstrPos(p.Ret), fmt.Sprintf("successful paths return different values (%s, %s)", term, a.Term))
				return
			}
			term = a.Term
		}
	}
	if term == "" || !strings.HasPrefix(term, "*") {
		r.Refute("C14-accessor", key+"#value", w.FnPos(fn), fmt.Sprintf("no successful path returning a stored value (term %q)", term))
		return
	}
	// the stored value must be a field of the receiver
	recv := fn.Params[0].Name()
	if !strings.HasPrefix(term, "*"+recv+".") {
		r.Refute("C14-accessor", key+"#value", w.FnPos(fn), fmt.Sprintf("value returned (%s) is not a field of the receiver", term))
		return
	}
	c14Accept(w, r, "C14-accessor", fn, term, "nil("+term[1:]+")", dom, valid)
}

var _ = types.Typ

// shiftCells: the result a = (x>>k)+c or (x/k)+c, x the argument restricted to
// `set` (non-negative, at most 4096 blocks): the value of a on each block.
func shiftCells(a AV, x string, set iset) (map[int64]iset, bool) {
	t := a.Term
	if !strings.HasPrefix(t, "("+x) || !strings.HasSuffix(t, ")") {
		return nil, false
	}
	body := t[1+len(x) : len(t)-1]
	var mul int64
	switch {
	case strings.HasPrefix(body, ">>"):
		k, err := strconv.ParseInt(body[2:], 10, 64)
		if err != nil || k < 0 || k > 40 {
			return nil, false
		}
		mul = int64(1) << uint(k)
	case strings.HasPrefix(body, "/"):
		k, err := strconv.ParseInt(body[1:], 10, 64)
		if err != nil || k <= 0 {
			return nil, false
		}
		mul = k
	default:
		return nil, false
	}
	if set.empty() {
		return map[int64]iset{}, true
	}
	if set.min() < 0 || set.max()/mul > 4096 {
		return nil, false
	}
	out := map[int64]iset{}
	for _, i0 := range set {
		for q := i0.lo / mul; q <= i0.hi/mul; q++ {
			lo, hi := q*mul, q*mul+mul-1
			if lo < i0.lo {
				lo = i0.lo
			}
			if hi > i0.hi {
				hi = i0.hi
			}
			out[q+a.K] = union(out[q+a.K], iset{{lo, hi}})
		}
	}
	return out, true
}
